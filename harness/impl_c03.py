"""Implementation side of the C03 commands.

`meta <kind> <seed> <G>`   the re-presentation G' = T_kind,seed(G) is computed deterministically from
                           the line; both G and G' are classified by the real library; reply
                           `G'=<G'> a=<algebra of G> b=<algebra of G'> isalg=<G'.is_algebra(raw algebra of G)>`
`repeat <G>`               four reports for one input in one process:
                           first call | cached second call | classify() again on the same object | fresh collection
The seven transformations of the property (`KINDS`) are all defined here, on plain texts."""
from __future__ import annotations
import random
from common import *
import oracle as O
from impl_graph import strs, coll
from impl_classify import algebra_text
from paulie.common.pauli_string_bitarray import PauliString
from paulie.common.pauli_string_collection import PauliStringCollection

KINDS = ["reorder", "dup", "qperm", "relabel", "pad", "contract", "addprod"]

def mulstr(a, b):
    return O.dec(O.mul(O.enc(a), O.enc(b)), len(a))

def anti_pairs(gs):
    e = [O.enc(g) for g in gs]
    return [(i, j) for i in range(len(gs)) for j in range(len(gs)) if i != j and O.anti(e[i], e[j])]

def transform(kind: str, seed: int, gs: list[str]):
    """G' or None when the transformation does not apply (no anticommuting pair / empty input)"""
    gs = O.pad(list(gs))
    r = random.Random(f"{kind}:{seed}")
    if not gs:
        return None
    n = len(gs[0])
    if kind == "reorder":
        g = list(gs); r.shuffle(g)
        if g == gs and len(gs) > 1:
            g = gs[1:] + gs[:1]
        return g
    if kind == "dup":
        g = list(gs)
        for _ in range(r.randint(1, 3)):
            g.insert(r.randint(0, len(g)), r.choice(gs))
        return g
    if kind == "qperm":
        p = list(range(n)); r.shuffle(p)
        return ["".join(s[p[i]] for i in range(n)) for s in gs]
    if kind == "relabel":
        maps = [dict(zip("IXYZ", ["I"] + r.sample("XYZ", 3))) for _ in range(n)]
        return ["".join(maps[i][ch] for i, ch in enumerate(s)) for s in gs]
    if kind == "pad":
        k = r.randint(1, 3)
        return [s + "I" * k for s in gs]
    if kind in ("contract", "addprod"):
        pairs = anti_pairs(gs)
        if not pairs:
            return None
        i, j = r.choice(pairs)
        c = mulstr(gs[i], gs[j])
        g = list(gs)
        if kind == "contract":
            g[i] = c
        else:
            g.insert(r.randint(0, len(g)), c)
        return g
    raise ValueError(kind)

def mk(gs):
    return PauliStringCollection([PauliString(pauli_str=s) for s in gs])

def alg_of(gs):
    return guard(lambda: algebra_text(str(mk(gs).get_algebra())))

def handle(line: str) -> str:
    t = line.split(" ")
    try:
        if t[0] == "meta":
            kind, seed, gs = t[1], int(t[2]), O.pad(strs(t[3]))
            g2 = transform(kind, seed, gs)
            if g2 is None:
                return "n/a"
            c1, c2 = mk(gs), mk(g2)
            raw1 = guard(lambda: str(c1.get_algebra()))
            a = raw1 if raw1.startswith("!") else algebra_text(raw1)
            b = guard(lambda: algebra_text(str(c2.get_algebra())))
            isalg = "-" if raw1.startswith("!") or raw1 == "" else guard(lambda: "T" if c2.is_algebra(raw1) else "F")
            return f"G'={','.join(g2)} a={a} b={b} isalg={isalg}"
        if t[0] == "repeat":
            gs = O.pad(strs(t[1]))
            c = mk(gs)
            a1 = guard(lambda: algebra_text(str(c.get_algebra())))
            a2 = guard(lambda: algebra_text(str(c.get_algebra())))
            # read-only queries in between (membership of members, of products, of random strings; dependents; space on
            # small n): "the same across repeated calls" includes calls separated by other read-only calls
            r = random.Random("ro:" + t[1])
            n = len(gs[0]) if gs else 0
            qs = []
            if gs:
                pairs = anti_pairs(gs)
                for _ in range(3):
                    q = [r.choice(gs)]
                    if pairs:
                        i, j = r.choice(pairs); q.append(mulstr(gs[i], gs[j]))
                    q.append("".join(r.choice("IXYZ") for _ in range(n)))
                    r.shuffle(q)
                    qs.append(q[:r.randint(1, 3)])
            def ro():
                for q in qs:
                    c.is_in(mk(q)); c.select_dependents(mk(q)); c.is_eq(mk(q))
                c.get_dependents(); c.get_independents(); c.get_canonic_vertices()
                if gs and n <= 3:
                    c.get_space()
                import itertools as _it
                for _g in _it.islice(c.gen_generators(), 3):
                    pass
                [str(g) for g in c]; repr(c); [hash(g) for g in c.get()]; next(iter(c), None)
                for g in c.get():
                    q = g.copy()
                    if len(q):
                        q[0] = "Z" if str(q)[0] != "Z" else "X"     # editing a COPY of a member is read-only for the collection
                return "done"
            guard(ro)
            a5 = guard(lambda: algebra_text(str(c.get_algebra())))
            a3 = guard(lambda: algebra_text(str(c.classify().get_algebra())))
            a4 = alg_of(gs)
            return f"first={a1} cached={a2} after-readonly-queries={a5} reclassified={a3} fresh={a4}"
        if t[0] == "present":
            # the same generators handed over through every constructor / argument type the API accepts, and through objects
            # assembled by the in-place API: one algebra
            import pollute
            from paulie.common.pauli_string_factory import get_pauli_string, gen_k_local_generators
            N, gs = int(t[1]), strs(t[2])
            r = random.Random("present:" + line)
            P = lambda x: PauliString(pauli_str=x)
            def name(c):
                return guard(lambda: algebra_text(str(c().get_algebra())) + "#" + ",".join(sorted(str(g) for g in c().get())))
            L = max(len(g) for g in gs)
            padded = [g + "I" * (L - len(g)) for g in gs]
            views = {
                "str-list": lambda: get_pauli_string(list(gs), n=N),
                "padded-str-list": lambda: get_pauli_string(list(padded), n=N),
                "object-list": lambda: get_pauli_string([P(g) for g in gs], n=N),
                "padded-object-list": lambda: get_pauli_string([P(g) for g in padded], n=N),
                "collection": lambda: get_pauli_string(PauliStringCollection([P(g) for g in gs]), n=N),
                "assembled-objects": lambda: get_pauli_string([pollute.assembled_string(g, r) for g in padded], n=N),
                "generator-function:objects": lambda: PauliStringCollection(list(gen_k_local_generators(N, [P(g) for g in padded]))),
                "generator-function:str": lambda: PauliStringCollection(list(gen_k_local_generators(N, list(padded)))),
                "no-n:then-classified": lambda: get_pauli_string(sorted(set(str(x) for x in get_pauli_string(list(padded), n=N).get()))),
            }
            return " ".join(f"{k}={name(v)}" for k, v in views.items())
    except Exception as e:
        return exc_name(e)
    return "bad-op"
