"""Implementation side of the Pauli-compiler commands (mirror of Model/CmdCompiler.lean)
plus the implementation-only command `compile N k TARGET` (the search procedures are not
modelled; their outputs are judged by the Lean validator)."""
from __future__ import annotations
import traceback as _tb
from common import *
from paulie.common.pauli_string_bitarray import PauliString
from paulie.common.pauli_string_factory import get_pauli_string
from paulie.application import pauli_compiler as pc

def mk(s: str) -> PauliString:
    return PauliString(pauli_str="" if s == "-" else s)

def seq_of(s: str):
    return [] if s == "-" else [mk(x) for x in s.split(",")]

def show_opt(x):
    return "None" if x is None else pstr(x)

def B(b):
    return "T" if b else "F"

def nested_public(seq):
    """the documented evaluation: nested_adjoint(seq[:-1], seq[-1]) of tests/test_pauli_compiler.py,
    with PauliString.adjoint_map (`^`)"""
    if not seq:
        return None
    cur = seq[-1]
    for op in reversed(seq[:-1]):
        cur = op ^ cur
        if cur is None:
            return None
    return cur

def valid(n, k, target, seq) -> str:
    inset = guard(lambda: B(all(any(x == u for u in pc.construct_universal_set(n, k)) for x in seq)))
    nested = guard(lambda: show_opt(nested_public(seq)))
    ok = bool(seq) and inset == "T" and nested == pstr(target) and not nested.startswith("!") and nested != "None"
    return f"valid={B(ok)} nonempty={B(bool(seq))} inset={inset} nested={nested}"

def ctfront(target, k) -> str:
    """compile_target with `compile` replaced by a recorder of its arguments"""
    seen = {}
    orig, orig_pool = pc.OptimalPauliCompiler.compile, pc._all_left_paulis
    def rec(self, V, W):
        seen["vw"] = (V, W)
        return []
    pc.OptimalPauliCompiler.compile = rec
    pc._all_left_paulis = lambda k: []     # the 4^k enumeration of the constructor is irrelevant to guards and slicing
    try:
        pc.compile_target(target, k)
    except Exception as e:
        return exc_name(e)
    finally:
        pc.OptimalPauliCompiler.compile = orig
        pc._all_left_paulis = orig_pool
    V, W = seen["vw"]
    return f"V={pstr(V)} W={pstr(W)}"

def raise_site(e: BaseException) -> str:
    """innermost frame inside pauli_compiler.py"""
    site = "?"
    for fr in _tb.extract_tb(e.__traceback__):
        if fr.filename.endswith("pauli_compiler.py"):
            site = fr.name
    return site

def compile_cmd(n: int, k: int, target: str) -> str:
    try:
        seq = pc.compile_target(get_pauli_string(target), k_left=k)
    except RecursionError:
        raise
    except Exception as e:
        return f"{exc_name(e)}@{raise_site(e)}"
    if not isinstance(seq, list):
        return f"!not-a-list:{type(seq).__name__}"
    return "seq=" + plist(seq)

def handle(line: str) -> str:
    t = line.split(" ")
    if t[0] == "uset": return guard(lambda: plist(pc.construct_universal_set(int(t[1]), int(t[2]))))
    if t[0] == "lefta": return guard(lambda: plist(pc.left_a_minimal(int(t[1]))))
    if t[0] == "chooseu": return guard(lambda: pstr(pc.choose_u_for_b(int(t[1]))))
    if t[0] == "nested": return guard(lambda: show_opt(pc._nested_commutator_result(seq_of(t[1]))))
    if t[0] == "pnested": return guard(lambda: show_opt(nested_public(seq_of(t[1]))))
    if t[0] == "orient": return guard(lambda: plist(pc._sequence_to_paulie_orientation(seq_of(t[1]))))
    if t[0] == "ctfront": return ctfront(mk(t[1]), int(t[2]))
    if t[0] == "valid": return valid(int(t[1]), int(t[2]), mk(t[3]), seq_of(t[4]))
    if t[0] in ("compile", "witness"): return compile_cmd(int(t[1]), int(t[2]), t[3])
    if t[0] == "alg":
        from paulie.common.pauli_string_collection import PauliStringCollection
        return guard(lambda: str(PauliStringCollection(pc.construct_universal_set(int(t[1]), int(t[2]))).get_class().get_algebra()))
    return "bad-op"
