"""Implementation side of the Pauli-compiler commands (mirror of Model/CmdCompiler.lean)
plus the implementation-only command `compile N k TARGET` (the search procedures are not
modelled; their outputs are judged by the Lean validator)."""
from __future__ import annotations
import traceback as _tb
from common import *
from paulie.common.pauli_string_bitarray import PauliString
from paulie.common.pauli_string_factory import get_pauli_string
from paulie.application import pauli_compiler as pc

def mk(s: str) -> PauliString:
    return PauliString(pauli_str="" if s == "-" else s)

def seq_of(s: str):
    return [] if s == "-" else [mk(x) for x in s.split(",")]

def show_opt(x):
    return "None" if x is None else pstr(x)

def B(b):
    return "T" if b else "F"

def nested_public(seq):
    """the documented evaluation: nested_adjoint(seq[:-1], seq[-1]) of tests/test_pauli_compiler.py,
    with PauliString.adjoint_map (`^`)"""
    if not seq:
        return None
    cur = seq[-1]
    for op in reversed(seq[:-1]):
        cur = op ^ cur
        if cur is None:
            return None
    return cur

def valid(n, k, target, seq) -> str:
    inset = guard(lambda: B(all(any(x == u for u in pc.construct_universal_set(n, k)) for x in seq)))
    nested = guard(lambda: show_opt(nested_public(seq)))
    ok = bool(seq) and inset == "T" and nested == pstr(target) and not nested.startswith("!") and nested != "None"
    return f"valid={B(ok)} nonempty={B(bool(seq))} inset={inset} nested={nested}"

def ctfront(target, k) -> str:
    """compile_target with `compile` replaced by a recorder of its arguments"""
    seen = {}
    orig, orig_pool = pc.OptimalPauliCompiler.compile, pc._all_left_paulis
    def rec(self, V, W):
        seen["vw"] = (V, W)
        return []
    pc.OptimalPauliCompiler.compile = rec
    pc._all_left_paulis = lambda k: []     # the 4^k enumeration of the constructor is irrelevant to guards and slicing
    try:
        pc.compile_target(target, k)
    except Exception as e:
        return exc_name(e)
    finally:
        pc.OptimalPauliCompiler.compile = orig
        pc._all_left_paulis = orig_pool
    V, W = seen["vw"]
    return f"V={pstr(V)} W={pstr(W)}"

def raise_site(e: BaseException) -> str:
    """innermost frame inside pauli_compiler.py"""
    site = "?"
    for fr in _tb.extract_tb(e.__traceback__):
        if fr.filename.endswith("pauli_compiler.py"):
            site = fr.name
    return site

def compile_cmd(n: int, k: int, target: str) -> str:
    try:
        seq = pc.compile_target(get_pauli_string(target), k_left=k)
    except RecursionError:
        raise
    except Exception as e:
        return f"{exc_name(e)}@{raise_site(e)}"
    if not isinstance(seq, list):
        return f"!not-a-list:{type(seq).__name__}"
    return "seq=" + plist(seq)

def ccompile_cmd(n: int, k: int, targets) -> str:
    """the class API with object reuse: ONE OptimalPauliCompiler compiles the targets in a row"""
    try:
        opc = pc.OptimalPauliCompiler(pc.PauliCompilerConfig(k_left=k, n_total=n))
    except RecursionError:
        raise
    except Exception as e:
        return f"{exc_name(e)}@{raise_site(e)}"
    out = []
    for t in targets:
        try:
            p = get_pauli_string(t)
            seq = opc.compile(p.get_substring(0, k), p.get_substring(k, n - k))
        except RecursionError:
            raise
        except Exception as e:
            out.append(f"{exc_name(e)}@{raise_site(e)}")
            continue
        out.append("seq=" + plist(seq) if isinstance(seq, list) else f"!not-a-list:{type(seq).__name__}")
    return "|".join(out)

def handle(line: str) -> str:
    t = line.split(" ")
    if t[0] == "uset": return guard(lambda: plist(pc.construct_universal_set(int(t[1]), int(t[2]))))
    if t[0] == "lefta": return guard(lambda: plist(pc.left_a_minimal(int(t[1]))))
    if t[0] == "chooseu": return guard(lambda: pstr(pc.choose_u_for_b(int(t[1]))))
    if t[0] == "nested": return guard(lambda: show_opt(pc._nested_commutator_result(seq_of(t[1]))))
    if t[0] == "pnested": return guard(lambda: show_opt(nested_public(seq_of(t[1]))))
    if t[0] == "orient": return guard(lambda: plist(pc._sequence_to_paulie_orientation(seq_of(t[1]))))
    if t[0] == "ctfront": return ctfront(mk(t[1]), int(t[2]))
    if t[0] == "valid": return valid(int(t[1]), int(t[2]), mk(t[3]), seq_of(t[4]))
    if t[0] in ("compile", "witness"): return compile_cmd(int(t[1]), int(t[2]), t[3])
    if t[0] == "ccompile": return ccompile_cmd(int(t[1]), int(t[2]), t[3].split(","))
    if t[0] == "lmap":
        return guard(lambda: plist(pc.left_map_over_a(mk(t[2]), mk(t[3]), pc.left_a_minimal(int(t[1])))))
    if t[0] in ("subc", "forders", "cdec", "bfs3"):
        n, k, w = int(t[1]), int(t[2]), mk(t[3])
        if t[0] == "subc":
            return guard(lambda: plist(pc.SubsystemCompiler(pc.SubsystemCompilerConfig(k_left=k, n_total=n)).subsystem_compiler(w)))
        if t[0] == "forders":
            def run():
                o = pc.SubsystemCompiler(pc.SubsystemCompilerConfig(k_left=k, n_total=n)).factor_w_orders(w)
                return ";".join(".".join(pstr(b) for _, b in seq) or "-" for seq in o) or "-"
            return guard(run)
        if t[0] == "cdec":
            def run():
                o = pc.OptimalPauliCompiler(pc.PauliCompilerConfig(k_left=k, n_total=n))._candidate_decompositions(w)
                return ",".join(f"{pstr(a)}/{pstr(b)}" for a, b in o) or "-"
            return guard(run)
        def run():
            o = pc.OptimalPauliCompiler(pc.PauliCompilerConfig(k_left=k, n_total=n))._bfs_case3(w, int(t[4]), int(t[5]))
            return "None" if o is None else plist(o)
        return guard(run)
    if t[0] in ("a1a2", "aprime"):
        def run():
            sc = pc.SubsystemCompiler(pc.SubsystemCompilerConfig(k_left=int(t[1]), n_total=int(t[1]) + 1))
            if t[0] == "a1a2":
                return plist(sc._choose_a1_a2(mk(t[2])))
            return pstr(sc._choose_aprime(mk(t[2]), mk(t[3])))
        return guard(run)
    if t[0] == "case3":
        def run():
            o = pc.OptimalPauliCompiler(pc.PauliCompilerConfig(k_left=int(t[2]), n_total=int(t[1])))._case3_best_reordering(
                seq_of(t[3]), seq_of(t[4]), seq_of(t[5]), mk(t[6]))
            return "None" if o is None else plist(o)
        return guard(run)
    if t[0] in ("il3", "il4"):
        def run():
            o = pc.OptimalPauliCompiler.__new__(pc.OptimalPauliCompiler)
            blocks = [seq_of(x) for x in t[2:-1]]
            want = t[-1]
            gen = (o._all_interleavings_preserving if t[0] == "il3" else o._all_interleavings_preserving4)(*blocks, cap=int(t[1]))
            n, hit = 0, False
            for s in gen:
                n += 1
                if plist(s) == want:
                    hit = True
                    break
            return f"count={n} hit={B(hit)}"
        return guard(run)
    if t[0] == "alg":
        from paulie.common.pauli_string_collection import PauliStringCollection
        return guard(lambda: str(PauliStringCollection(pc.construct_universal_set(int(t[1]), int(t[2]))).get_class().get_algebra()))
    return "bad-op"
