"""C10 — answers after any edit history equal those of a freshly built collection."""
from __future__ import annotations
import json
from common import *
from engine import *
import gens as G
import oracle as O
import impl_collection as IC

PID = "C10"
THEOREMS = ["PauLie.C10.C10_abs", "PauLie.C10.C10_cache_inv", "PauLie.C10.C10_query", "PauLie.C10.C10_readonly",
            "PauLie.C10.C10_history", "PauLie.C10.C10_history_fresh", "PauLie.C10.C10_lossless", "PauLie.C10.C10_copy",
            "PauLie.C10.C10_sort_needs_perm_invariance",
            "PauLie.C10.C10_history_on", "PauLie.C10.editList_wf", "PauLie.C10.Kmodel_sort", "PauLie.C10.C10_model", "PauLie.C03.classify_perm",
            "PauLie.C10.editList_uniform", "PauLie.C10.getSubgraphs_total", "PauLie.C10.build_total", "PauLie.C10.build_strict_adequate",
            "PauLie.C10.Kmodel_total", "PauLie.C10.C10_model_total", "PauLie.C10.C10_model_total_init"]
IMPORTS = ["PauLieVerif.Properties.C10", "PauLieVerif.Properties.C10Model", "PauLieVerif.Properties.C10Total"]

CODE = {"I": (0, 0), "X": (1, 0), "Y": (1, 1), "Z": (0, 1)}
def bitkey(s):
    return [b for ch in s for b in CODE[ch]]

def spec_edit(gs, t):
    """reference list edit (used by the generator to keep track of the current strings)"""
    gs = list(gs)
    def proc(p):
        nonlocal gs
        if not gs:
            return p
        L = max(len(g) for g in gs)
        if len(p) < L:
            return p + "I" * (L - len(p))
        if len(p) > L:
            gs = [g + "I" * (len(p) - len(g)) for g in gs]
        return p
    k = t[0]
    try:
        if k == "app":
            p = proc(t[1])
            if p not in gs: gs.append(p)
        elif k == "ins":
            p = proc(t[2])
            if p not in gs: gs.insert(int(t[1]), p)
        elif k == "rem":
            if t[1] in gs: gs.remove(t[1])
        elif k == "del":
            del gs[int(t[1])]
        elif k in ("rep", "con"):
            q = t[2]
            if k == "con":
                if len(t[1]) != len(t[2]):
                    return gs
                q = G.mulstr(t[1], t[2])
            if t[1] in gs:
                i = gs.index(t[1])
                q = proc(q)
                gs[i] = q
        elif k == "exp":
            n = int(t[1])
            if all(n >= len(g) for g in gs):
                gs = [g + "I" * (n - len(g)) for g in gs]
        elif k == "sort":
            gs.sort(key=bitkey)
    except (IndexError, ValueError):
        pass
    return gs

def history(rng, maxn, maxk, length, space_ok=True):
    init = O.pad(G.collection(rng, maxn, maxk))
    if rng.random() < 0.05:
        init = []
    cur = list(dict.fromkeys(init)) if False else list(init)
    ops = []
    stack = []          # the collections copies were taken from (for `swap`)
    def n():
        return len(cur[0]) if cur else rng.randint(1, maxn)
    def member():
        return rng.choice(cur) if cur else G.rs(rng, n())
    def newstr():
        r = rng.random()
        L = n()
        if r < 0.55: return G.rs(rng, L)
        if r < 0.70: return G.rs(rng, max(1, L - rng.randint(1, 2)))
        if r < 0.76: return G.rs(rng, L + rng.randint(1, 2))
        if r < 0.84: return member() + "I" * rng.randint(1, 2)          # longer, but equal to a member once that is padded
        if r < 0.86: return (member()[:-1] or "X") if member().endswith("I") else member()   # shorter spelling of a member
        if r < 0.92 and len(cur) >= 2:
            a, b = rng.sample(cur, 2)
            return G.mulstr(a, b)
        return member()
    def queryset():
        L = n()
        k = rng.randint(1, 3)
        out = []
        for _ in range(k):
            r = rng.random()
            if r < 0.4 and len(cur) >= 2:
                a, b = rng.sample(cur, 2)
                out.append(G.mulstr(a, b) if O.anti(O.enc(a), O.enc(b)) else a)
            elif r < 0.6:
                out.append(member())
            else:
                out.append(G.rs(rng, L))
        return ",".join(out)
    for _ in range(length):
        r = rng.random()
        if r < 0.45:
            qs = ["q.str", "q.len", "q.getlen", "q.pair", "q.sub", "q.alg", "q.alg", "q.dim", "q.deps", "q.deps", "q.indeps",
                  "q.verts", "q.verts", "q.morphs", "q.isin", "q.isin", "q.seldep", "q.seldep", "q.find", "q.index", "q.gen"]
            if space_ok and n() <= 3:
                qs.append("q.space")
            q = rng.choice(qs)
            if q in ("q.isin", "q.seldep"):
                t = [q, queryset()]
            elif q in ("q.find", "q.index"):
                t = [q, member() if rng.random() < 0.7 else G.rs(rng, n())]
            else:
                t = [q]
        else:
            k = rng.choice(["app", "app", "ins", "rem", "del", "rep", "rep", "con", "con", "exp", "sort", "sort", "copy", "ccopy", "swap"])
            if k == "app":
                t = [k, newstr()]
            elif k == "ins":
                t = [k, str(rng.randint(-len(cur) - 2, len(cur) + 2)), newstr()]
            elif k == "rem":
                rr = rng.random()
                t = [k, member() if rr < 0.7 else (member()[:-1] or "X") if rr < 0.8 else G.rs(rng, n())]
            elif k == "del":
                t = [k, str(rng.randint(-len(cur) - 1, len(cur)))] if rng.random() < 0.3 else [k, str(rng.randint(-len(cur), max(0, len(cur) - 1)))]
            elif k == "rep":
                t = [k, member() if rng.random() < 0.85 else G.rs(rng, n()), newstr()]
            elif k == "con":
                a = member()
                rr = rng.random()
                if rr < 0.75 and cur:
                    anti = [b for b in cur if O.anti(O.enc(a), O.enc(b))] if all(len(b) == len(a) for b in cur) else []
                    b = rng.choice(anti) if anti and rng.random() < 0.8 else member()
                elif rr < 0.9:
                    b = G.rs(rng, len(a))
                else:
                    b = G.rs(rng, len(a) + 1)
                t = [k, a, b]
            elif k == "exp":
                t = [k, str(n() + rng.choice([-1, 0, 0, 1, 1, 2]))]
            else:
                t = [k]
            if k in ("copy", "ccopy"):
                stack.insert(0, list(cur))
            if k == "swap":
                if stack:
                    cur, stack[0] = stack[0], cur
            else:
                cur = spec_edit(cur, t)
        ops.append(":".join(t))
    return G.line_of("hist", init, ";".join(ops) or "-")

def oracle(line, out):
    return IC.evaluate(line)

def shrink(line):
    t = line.split(" ")
    ops = [] if t[2] == "-" else t[2].split(";")
    for i in range(len(ops)):
        c = ops[:i] + ops[i + 1:]
        yield " ".join([t[0], t[1], ";".join(c) or "-"])
    gs = t[1].split(",") if t[1] != "-" else []
    for i in range(len(gs)):
        c = gs[:i] + gs[i + 1:]
        yield " ".join([t[0], ",".join(c) or "-", t[2]])

def tag(l, o):
    ops = l.split(" ")[2]
    return "ops:" + ",".join(sorted(set(x.split(":")[0] for x in ops.split(";")))) [:0] + ("err" if "!" in o else "ok")

def build_streams(rng, tier):
    th = tier == "thorough"
    lines = [history(rng, 4, 8, rng.randint(3, 25 if not th else 60)) for _ in range(5000 if th else 1200)]
    big = [history(rng, 7, 10, rng.randint(3, 20), space_ok=False) for _ in range(1200 if th else 250)]
    def hist_ops(res_hist, ls):
        pass
    kw = dict(oracle=oracle, shrink=shrink, tag=lambda l, o: "with-error-exit" if "!" in o else "no-error-exit",
              nontrivial=lambda l, o: any(x.split(":")[0] in ("rep", "con", "exp", "sort", "copy", "ccopy", "swap", "del", "rem", "ins") for x in l.split(" ")[2].split(";")))
    return [
        Stream("corpus", corpus_lines(PID), IC.handle, **kw),
        Stream("histories-n<=4", lines, IC.handle, **kw),
        Stream("histories-n<=7", big, IC.handle, **kw),
    ]

RULE = ("random histories (3..25 ops, thorough ..60) over the 9 public edits with all argument shapes (longer/shorter strings, duplicates, absent "
        "strings, indices out of range incl. negative, contraction partners that commute / have another length) interleaved with 20 kinds of "
        "queries; initial collections from the structured generator, n<=4 (a second stream n<=7 without get_space). Every reply (state after "
        "each edit, every query answer) is compared with the Lean model; independently every query is compared with the same query on a "
        "freshly built collection holding the same strings, every edit is checked for lost strings, every copied original is watched. "
        "non-trivial: history contains an edit other than append")

def main(tier):
    return standard_main(PID, tier, "proof", THEOREMS, IMPORTS, build_streams, rule=RULE,
        assumptions=["refinement theorem is parametric in the classifier; the `sort` edit keeps the cache, which is sound iff the classifier is "
                     "invariant under permutation of its input (hypothesis of the generic C10_history; DISCHARGED for the modelled classifier: C10_model uses C03.getSubgraphs_perm, "
                     "and C10_model_total also discharges 'classify() never raises': every edit keeps the strings synchronised and of one length, "
                     "on such lists get_subgraphs and build are total (every pipeline exception is caught inside build; the queue construction raises only on unequal "
                     "lengths; the raising list.remove/list.index of the Python never fire: build_strict_adequate) — C10 holds for the MODEL along all histories with no "
                     "side condition; the tie of the model to the code is the correspondence stream)",
                     "value semantics: aliasing of element objects between a collection and its copy is decided by the correspondence stream only",
                     "classifier raising midway (partially filled classification) is modelled; proved unreachable for the modelled classifier (Kmodel_total)"])

def replay(path):
    r = json.load(open(path)); line = r.get("line")
    out = IC.handle(line); why = oracle(line, out)
    print("line:", line); print("implementation:", out); print("model:         ", run_model([line])[0]); print("oracle:", why or "holds")
    return 1 if why else 0
