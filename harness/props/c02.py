"""C02 — the canonical reduction preserves the generated algebra and loses no generator."""
from __future__ import annotations
from classify_checks import *

PID = "C02"
THEOREMS = CLOSURE_THEOREMS + ["PauLie.C02.C02_shape_checker"] + [
    # closure preservation of the reduction for ALL inputs, conditional on the executable certificate checks of the guarded model
    "PauLie.C02.C02_closure_partial", "PauLie.C02.C02_classify_partial", "PauLie.C02.C02_closure_guarded", "PauLie.C02.C02_erasure",
    "PauLie.C02.C02_closure_pipeline", "PauLie.C02.C02_closure_lit", "PauLie.C02.C02_closure_replace",
    "PauLie.C02.C02_closure_append", "PauLie.C02.C02_closure_remove", "PauLie.C02.C02_closure_appendDelayed",
    "PauLie.C02.C02_closure_checkDependency",
    "PauLie.C02.C02_closure_stepI", "PauLie.C02.C02_closure_stepII", "PauLie.C02.C02_closure_appendFast",
    "PauLie.C02.C02_closure_stepIII", "PauLie.C02.C02_closure_litCenter", "PauLie.C02.C02_closure_stepIV",
    "PauLie.C02.C02_closure_stepV", "PauLie.C02.C02_closure_stepVI", "PauLie.C02.C02_closure_stepVII",
    "PauLie.C02.C02_spec_rearrange", "PauLie.C02.C02_spec_contract", "PauLie.C02.C02_spec_drop", "PauLie.C02.C02_spec_twist",
    "PauLie.C02.C02_spec_lit_verdict", "PauLie.C02.C02_spec_triple", "PauLie.C02.C02_spec_odd"]
IMPORTS = CLOSURE_IMPORTS + ["PauLieVerif.Properties.C02Shape", "PauLieVerif.Properties.C02"]

def batch_oracle(lines, outs):
    colls = [inputs_of(l) for l in lines]
    res = [None] * len(lines)
    req, idx = [], []
    for k, o in enumerate(outs):
        f = fields(o)
        if o.startswith("!") or "verts" not in f:
            res[k] = f"classification failed: {o[:120]}"
            continue
        verts, deps = lst(f["verts"]), lst(f["deps"])
        morphs = [] if f["morphs"] == "-" else f["morphs"].split(";")
        distinct = list(dict.fromkeys(colls[k]))
        # accounting: every distinct input is a canonical vertex or a dependent -- by count and (dependents) by identity
        if len(verts) + len(deps) != len(distinct):
            res[k] = (f"accounting: {len(distinct)} distinct inputs but {len(verts)} canonical vertices + {len(deps)} dependents "
                      f"(a generator was lost or duplicated) for {','.join(colls[k])}")
            continue
        # (a dependent need not be an input string: a transformed vertex that was cut off a long leg and re-queued may be
        #  found dependent later; the property only requires it to lie in the closure, checked below)
        n = len(colls[k][0]) if colls[k] else 0
        idx.append(k)
        req.append(G.line_of("subgraphs", distinct))
        # the guarded model (Model/MorphG.lean): the same reduction with a certificate check at every move; `guards=ok` on a
        # complete run that lost nothing implies closure preservation at ANY n (theorem C02_closure_partial)
        req.append(G.line_of("guards", colls[k]))
        for m in morphs:
            req.append(f"shape {m}")
        if n <= 6:
            req.append(G.line_of("closure", distinct))
            req.append(G.line_of("closure", verts))
    rep = run_model(req)
    pos = 0
    for k in idx:
        f = fields(outs[k])
        morphs = [] if f["morphs"] == "-" else f["morphs"].split(";")
        deps = lst(f["deps"])
        n = len(colls[k][0]) if colls[k] else 0
        comps = rep[pos]; pos += 1
        gd = rep[pos]; pos += 1
        if not res[k]:
            fg = fields(gd)
            if gd.startswith("!") or "guards" not in fg:
                res[k] = f"guarded model failed on {','.join(colls[k])}: {gd[:120]}"
            elif fg["guards"] != "ok":
                res[k] = (f"closure certificate: a move of the reduction could not be certified as closure-preserving ({fg['guards']}, tags {fg.get('tags')}) "
                          f"for {','.join(colls[k])}")
            elif fg.get("complete") != "T" or fg.get("lost") != "0":
                res[k] = f"closure certificate: the reduction was incomplete or gave up a generator ({gd[:160]}) for {','.join(colls[k])}"
            elif fg.get("morphs") != f["morphs"] or sorted(lst(fg.get("deps", "-"))) != sorted(deps):
                res[k] = (f"closure certificate is about another run: guarded model legs/dependents {fg.get('morphs')} / {fg.get('deps')} "
                          f"differ from the implementation's {f['morphs']} / {f['deps']}")
        ncomp = 0 if comps == "-" else len(comps.split("|"))
        if ncomp != len(morphs) and not res[k]:
            res[k] = f"{len(morphs)} canonical graphs for {ncomp} connected components of {','.join(colls[k])}"
        for m in morphs:
            sh = rep[pos]; pos += 1
            if sh != "ok" and not res[k]:
                res[k] = f"canonical graph {m} is not a star of disjoint paths on one centre: {sh}"
        if n <= 6:
            cg, cv = rep[pos], rep[pos + 1]; pos += 2
            if not res[k]:
                eg, ev = fields(cg).get("elems"), fields(cv).get("elems")
                if eg != ev:
                    res[k] = (f"canonical vertices generate a different closure ({fields(cv).get('n')} strings) than the generators "
                              f"({fields(cg).get('n')} strings) for {','.join(colls[k])}")
                else:
                    S = set(lst(eg))
                    bad = [d for d in deps if d not in S]
                    if bad:
                        res[k] = f"dependent {bad[0]} is not in the commutator closure"
                    elif S != O.closure_strs(colls[k]):
                        res[k] = "ORACLE-DISAGREEMENT on closure"
    return res

def build_streams(rng, tier):
    th = tier == "thorough"
    h, cm = impl_classify.handle, impl_classify.strip_meta
    kw = dict(batch_oracle=batch_oracle, canon=cm, tag=tag_classify, nontrivial=nontrivial_classify, shrink=shrink_classify)
    big = [G.line_of("classify", G.collection(rng, 24 if th else 16, 30)) for _ in range(2000 if th else 400)]
    lines = classify_lines(rng, tier)
    return [
        Stream("corpus", corpus_lines(PID), h, **kw),
        Stream("exhaustive-small", exhaustive_small_lines(), h, **kw),
        Stream("structured+random", lines, h, **kw),
        Stream("shape-and-accounting-any-n", big, h, **kw),
        history_stream("C02", rng, tier),
        assembled_stream(lines[:500 if th else 120] + big[:200 if th else 50], **kw),
    ]

RULE = ("closure preservation at ANY n by certificate: the guarded Lean model (same reduction, local certificate check at every move, proved: "
        "certificates ok => Clo(vertices) = Clo(generators) and dependents inside, theorem C02_closure_partial) must certify the run and reproduce "
        "the implementation's legs and dependents; in addition, "
        "same generator as C01 (n<=5, thorough 6): closure of the canonical vertices == closure of the generators and dependents inside it, "
        "both closures from the Lean-verified checker; shape (exact star of paths, Lean checker) and accounting (vertices+dependents == "
        "distinct inputs, one graph per component) also on up to 16 (thorough 24) qubits. non-trivial: has dependents or several legs/components")

def main(tier):
    return standard_main(PID, tier, "other", THEOREMS, IMPORTS, build_streams, rule=RULE,
        assumptions=["closure preservation is PROVED for all inputs conditional on the executable certificate checks of the guarded model (C02_closure_partial); "
                     "that the checks always succeed (the graph-shape theorem of arXiv:2408.00081) is not proved: it is evaluated per input at any n (command `guards`), "
                     "and cross-checked by brute-force closure equality for n<=6"])

def replay(path):
    r = json.load(open(path)); line = r.get("line")
    sp = replay_special(PID, line, batch_oracle)
    if sp is not None:
        return sp
    out = impl_classify.handle(line); why = batch_oracle([line], [out])[0]
    print("line:", line); print("implementation:", out); print("model:", run_model([line])[0]); print("oracle:", why or "holds")
    return 1 if why else 0
