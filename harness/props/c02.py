"""C02 — the canonical reduction preserves the generated algebra and loses no generator."""
from __future__ import annotations
from classify_checks import *

PID = "C02"
THEOREMS = CLOSURE_THEOREMS + ["PauLie.C02.C02_shape_checker"]
IMPORTS = CLOSURE_IMPORTS + ["PauLieVerif.Properties.C02Shape"]

def batch_oracle(lines, outs):
    colls = [inputs_of(l) for l in lines]
    res = [None] * len(lines)
    req, idx = [], []
    for k, o in enumerate(outs):
        f = fields(o)
        if o.startswith("!") or "verts" not in f:
            res[k] = f"classification failed: {o[:120]}"
            continue
        verts, deps = lst(f["verts"]), lst(f["deps"])
        morphs = [] if f["morphs"] == "-" else f["morphs"].split(";")
        distinct = list(dict.fromkeys(colls[k]))
        # accounting: every distinct input is a canonical vertex or a dependent -- by count and (dependents) by identity
        if len(verts) + len(deps) != len(distinct):
            res[k] = (f"accounting: {len(distinct)} distinct inputs but {len(verts)} canonical vertices + {len(deps)} dependents "
                      f"(a generator was lost or duplicated) for {','.join(colls[k])}")
            continue
        # (a dependent need not be an input string: a transformed vertex that was cut off a long leg and re-queued may be
        #  found dependent later; the property only requires it to lie in the closure, checked below)
        n = len(colls[k][0]) if colls[k] else 0
        idx.append(k)
        req.append(G.line_of("subgraphs", distinct))
        for m in morphs:
            req.append(f"shape {m}")
        if n <= 6:
            req.append(G.line_of("closure", distinct))
            req.append(G.line_of("closure", verts))
    rep = run_model(req)
    pos = 0
    for k in idx:
        f = fields(outs[k])
        morphs = [] if f["morphs"] == "-" else f["morphs"].split(";")
        deps = lst(f["deps"])
        n = len(colls[k][0]) if colls[k] else 0
        comps = rep[pos]; pos += 1
        ncomp = 0 if comps == "-" else len(comps.split("|"))
        if ncomp != len(morphs) and not res[k]:
            res[k] = f"{len(morphs)} canonical graphs for {ncomp} connected components of {','.join(colls[k])}"
        for m in morphs:
            sh = rep[pos]; pos += 1
            if sh != "ok" and not res[k]:
                res[k] = f"canonical graph {m} is not a star of disjoint paths on one centre: {sh}"
        if n <= 6:
            cg, cv = rep[pos], rep[pos + 1]; pos += 2
            if not res[k]:
                eg, ev = fields(cg).get("elems"), fields(cv).get("elems")
                if eg != ev:
                    res[k] = (f"canonical vertices generate a different closure ({fields(cv).get('n')} strings) than the generators "
                              f"({fields(cg).get('n')} strings) for {','.join(colls[k])}")
                else:
                    S = set(lst(eg))
                    bad = [d for d in deps if d not in S]
                    if bad:
                        res[k] = f"dependent {bad[0]} is not in the commutator closure"
                    elif S != O.closure_strs(colls[k]):
                        res[k] = "ORACLE-DISAGREEMENT on closure"
    return res

def build_streams(rng, tier):
    th = tier == "thorough"
    h, cm = impl_classify.handle, impl_classify.strip_meta
    kw = dict(batch_oracle=batch_oracle, canon=cm, tag=tag_classify, nontrivial=nontrivial_classify, shrink=shrink_classify)
    big = [G.line_of("classify", G.collection(rng, 24 if th else 16, 30)) for _ in range(2000 if th else 400)]
    return [
        Stream("corpus", corpus_lines(PID), h, **kw),
        Stream("exhaustive-small", exhaustive_small_lines(), h, **kw),
        Stream("structured+random", classify_lines(rng, tier), h, **kw),
        Stream("shape-and-accounting-any-n", big, h, **kw),
        history_stream("C02", rng, tier),
    ]

RULE = ("same generator as C01 (n<=5, thorough 6): closure of the canonical vertices == closure of the generators and dependents inside it, "
        "both closures from the Lean-verified checker; shape (exact star of paths, Lean checker) and accounting (vertices+dependents == "
        "distinct inputs, one graph per component) also on up to 16 (thorough 24) qubits. non-trivial: has dependents or several legs/components")

def main(tier):
    return standard_main(PID, tier, "other", THEOREMS, IMPORTS, build_streams, rule=RULE,
        assumptions=["closure equality per input for n<=6 only; shape/accounting at any n; closure preservation of the reduction moves for ALL inputs is the content of arXiv:2408.00081 and is not proved"])

def replay(path):
    r = json.load(open(path)); line = r.get("line")
    out = impl_classify.handle(line); why = batch_oracle([line], [out])[0]
    print("line:", line); print("implementation:", out); print("model:", run_model([line])[0]); print("oracle:", why or "holds")
    return 1 if why else 0
