"""C20 — optimising a universal generator set keeps the algebra and the set size."""
from __future__ import annotations
import json, random
from common import *
from engine import *
from classify_checks import fields, lst
import gens as G
import oracle as O
import impl_optimise as IO

PID = "C20"
THEOREMS = ["PauLie.C20.C20_move_closure", "PauLie.C20.C20_iterate_moves", "PauLie.C20.C20_run_preserves",
            "PauLie.C20.C20_explore_covers_run", "PauLie.C20.C20_min_generators", "PauLie.C20.C20_distinct",
            "PauLie.C20.C20_run_distinct", "PauLie.Tie.edges_tie",
            "PauLie.Closure.closureList_sound_complete", "PauLie.Closure.closureList_exhausted", "PauLie.Closure.clo_contract"]
IMPORTS = ["PauLieVerif.Properties.C20", "PauLieVerif.Properties.C20Min", "PauLieVerif.Proofs.Closure", "PauLieVerif.Proofs.TieApps"]

def su_gens(rng, n, kind=None):
    """a generating set of su(2^n): random strings until the closure is everything, or a 2-local universal family,
    optionally obfuscated by contractions / extended by dependent products"""
    kind = kind or rng.choice(["random", "random", "minimal", "obf", "dup", "dup"])
    while True:
        k = rng.randint(2 * n + 1, 2 * n + 5)
        gs = list(dict.fromkeys(G.rs(rng, n) for _ in range(k)))
        gs = [g for g in gs if g != "I" * n]
        if len(O.closure_strs(gs)) == 4 ** n - 1:
            break
    if kind == "minimal":
        # drop redundant generators greedily
        for g in list(gs):
            rest = [x for x in gs if x != g]
            if rest and len(O.closure_strs(rest)) == 4 ** n - 1:
                gs = rest
    if kind == "obf":
        gs = G.obfuscate(rng, gs, 8)
    if kind == "dup":
        # the collection class does not de-duplicate what it is constructed from: repeat one or two members
        for _ in range(rng.randint(1, 2)):
            gs.insert(rng.randrange(len(gs) + 1), rng.choice(gs))
    return gs

# ---- a collection that was classified and whose member string was then edited IN PLACE (the string objects are shared with
# the caller): the optimiser must work on the strings the collection holds NOW, whatever was cached before
def optimise_after_member_edit(line):
    """`optedit <G> <i> <j> <L> <rnd>`"""
    from impl_graph import coll
    import impl_collection as IC
    try:
        _, gs, i, j, L, rnd = line.split(" ")
        c = coll(gs)
        c.get_algebra(); c.get_dependents(); c.copy()
        P = c.get()[int(i) % len(c)]
        P[int(j) % len(P)] = L
        now = IC.names(c)
        old = IO.psc.randint
        sc = IO.Script([int(x) for x in rnd.split(",")])
        IO.psc.randint = sc
        try:
            r = IO.get_optimal_su_2_n_generators(c)
            out = "None" if r is None else plist(r.get())
        except IO.Budget:
            out = "!Budget"
        except Exception as e:
            out = exc_name(e)
        finally:
            IO.psc.randint = old
        return "now=" + ",".join(now) + " out=" + out
    except Exception as e:
        return exc_name(e)

def oracle_after_member_edit(line, out):
    if out.startswith("!"):
        return f"raised {out}"
    f = fields(out)
    now = lst(f["now"]); o = f["out"]
    n = len(now[0])
    C = O.closure_strs(now)
    if len(C) != 4 ** n - 1 or len(set(now)) != len(now):
        return None          # after the edit the collection no longer generates su(2^n) (or holds a repeat): outside the property
    why = check_result(now, o)
    if not why and O.closure_strs(lst(o)) != C:
        why = f"optimised set {o} generates {len(O.closure_strs(lst(o)))} strings, the collection {len(C)}"
    return (why + f" for the collection {now} (classified, then one member edited in place)") if why else None

def gen_member_edit(rng):
    n = rng.choice([2, 2, 3])
    gs = su_gens(rng, n, rng.choice(["random", "minimal"]))
    gs = gs + [G.mulstr(*rng.sample(gs, 2))] if rng.random() < 0.6 else gs       # a dependent member: editing matters
    gs = list(dict.fromkeys(gs))
    return " ".join(["optedit", ",".join(gs), str(rng.randrange(len(gs))), str(rng.randrange(n)), rng.choice("IXYZ"),
                     ",".join(str(rng.randint(0, 10 ** 6)) for _ in range(40))])

def already_optimal(rng, n, tries=400):
    """generating sets (made minimal, then possibly with a repeated member) whose own anticommutation graph already has the
    target number floor(0.706*pairs) of edges: the boundary where a search may stop before it starts"""
    out = []
    for _ in range(tries):
        gs = su_gens(rng, n, "minimal")
        if rng.random() < 0.7:
            gs.insert(rng.randrange(len(gs) + 1), rng.choice(gs))
        k = len(gs)
        T = k * (k - 1) // 2
        pairs = sum(1 for i in range(k) for j in range(i + 1, k) if O.anti(O.enc(gs[i]), O.enc(gs[j])))
        if T >= 1 and pairs == (706 * T) // 1000:
            out.append(gs)
    return out

def line_for(rng, n, nrnd=40):
    gs = su_gens(rng, n)
    rnd = [rng.randint(0, 10 ** 6) for _ in range(nrnd)]
    return G.line_of("optimise", gs, ",".join(map(str, rnd)))

def check_result(gs, out):
    """the property on one outcome text"""
    n = len(gs[0])
    if out == "!Budget":
        return "the search did not terminate within the budget of random draws"
    if out.startswith("!"):
        return f"the search raised {out[1:]}"
    if out == "None":
        return "no generator set returned"
    rs = lst(out)
    if len(set(rs)) != len(rs):
        return f"returned strings are not distinct: {rs}"
    low = 2 * n + 1 if n >= 2 else 2      # C20_min_generators (n >= 2); for n = 1 two strings generate su(2) (C20_min_fails_n1)
    if not (low <= len(rs) <= len(set(gs))):
        return f"returned {len(rs)} strings, expected between {low} and {len(set(gs))}"
    return None

def batch_oracle(lines, outs):
    res = [None] * len(lines)
    req, idx = [], []
    for k, (l, o) in enumerate(zip(lines, outs)):
        t = l.split(" ")
        if t[0] != "optimise":
            continue
        gs = O.pad(lst(t[1]))
        why = check_result(gs, o)
        if why:
            res[k] = why + f" for {','.join(gs)}"
            continue
        idx.append(k)
        req.append(G.line_of("closure", gs))
        req.append(G.line_of("closure", lst(o)))
    rep = run_model(req) if req else []
    for j, k in enumerate(idx):
        a, b = fields(rep[2 * j]), fields(rep[2 * j + 1])
        gs = O.pad(lst(lines[k].split(" ")[1]))
        if a.get("flag") != "T" or b.get("flag") != "T":
            res[k] = "verified closure checker out of fuel (cannot happen)"
        elif a.get("elems") != b.get("elems"):
            res[k] = (f"optimised set {outs[k]} generates {b.get('n')} strings, the input {','.join(gs)} generates {a.get('n')}")
        elif set(lst(a.get("elems"))) != O.closure_strs(gs):
            res[k] = "ORACLE-DISAGREEMENT on closure"
    return res

def explore_one(line, limit=8):
    """the exhaustive exploration branches at every random draw and can be exponential: each input gets its own driver
    process and a time limit; an exploration that does not finish is UNDECIDED (counted in the evidence), not a verdict"""
    import subprocess
    try:
        p = subprocess.run([MODEL_EXE], input=line + "\n", capture_output=True, text=True, timeout=limit)
        out = p.stdout.strip("\n")
        return out if p.returncode == 0 and out else "!ExploreFailed"
    except subprocess.TimeoutExpired:
        return "!ExploreTimeout"

def explore_oracle(lines, outs):
    """`explore` lines are answered by the MODEL only (decision over all random choices); the implementation side
    replays every reachable result's existence by sampling (stream `seeds`).  Here the property is evaluated on
    every result the model says is reachable."""
    res = [None] * len(lines)
    for k, l in enumerate(lines):
        gs = O.pad(lst(l.split(" ")[1]))
        m = outs[k]
        if m == "!ExploreTimeout":
            continue
        f = fields(m)
        if m.startswith("!") or "results" not in f:
            res[k] = f"model: {m[:100]}"; continue
        if f["stuck"] == "T":
            res[k] = f"some random tie-breaking never leaves the retry loop (no index in [0,i] exits) for {','.join(gs)}"; continue
        if f["mayraise"] == "T":
            res[k] = f"some random tie-breaking indexes list_connections out of range (IndexError) for {','.join(gs)}"; continue
        C = O.closure_strs(gs)
        for r in f["results"].split(";"):
            why = check_result(gs, r)
            if not why and O.closure_strs(lst(r)) != C:
                why = f"reachable result {r} generates another closure"
            if why:
                res[k] = why + f" for {','.join(gs)}"; break
    return res

def edges_oracle(line, out):
    ng = int(line.split(" ")[1])
    T = ng * (ng - 1) // 2
    exp = -1 if T < 1 else (706 * T) // 1000
    return None if out == str(exp) else f"get_optimal_edges_su_2_n({ng}) = {out}, floor(0.706*{T}) = {exp}"

def shrink(line):
    t = line.split(" ")
    if t[0] != "optimise":
        return
    gs = t[1].split(",")
    n = len(gs[0])
    for i in range(len(gs)):
        c = gs[:i] + gs[i + 1:]
        if c and len(O.closure_strs(c)) == 4 ** n - 1:
            yield " ".join([t[0], ",".join(c), t[2]])

# ---- what the search starts from: get_independents() of the input.  A generator lost there (recorded as dependent although it
# is needed) is lost for good, whatever the search does.  High volume at n = 4, 5 on inputs that make the reduction cut its long
# leg and re-queue vertices (a Jordan-Wigner chain plus extra strings) and on random sets.
def chain_plus(rng, n):
    chain = []
    for i in range(n):
        chain.append("I" * i + "Z" + "I" * (n - 1 - i))
        if i + 1 < n:
            chain.append("I" * i + "XX" + "I" * (n - 2 - i))
    gs = chain + [G.rs(rng, n) for _ in range(rng.randint(2, 5))]
    perm = list(range(n)); rng.shuffle(perm)
    rel = [dict(zip("IXYZ", "I" + "".join(rng.sample("XYZ", 3)))) for _ in range(n)]
    out = []
    for g in gs:
        t = ["I"] * n
        for q, ch in enumerate(g):
            t[perm[q]] = rel[q][ch]
        out.append("".join(t))
    out = [g for g in dict.fromkeys(out) if g != "I" * n]
    if rng.random() < 0.5:
        out = G.obfuscate(rng, out, rng.randint(1, 10))
    rng.shuffle(out)
    return out

def indep_handle(line):
    import impl_collection as IC
    try:
        gs = lst(line.split(" ")[1])
        c = IC.mk(gs)
        ind = [str(p) for p in c.get_independents()]
        return ",".join(ind) or "-"
    except Exception as e:
        return exc_name(e)

def indep_oracle(line, out):
    gs = O.pad(lst(line.split(" ")[1]))
    if out.startswith("!"):
        return f"get_independents() raised {out} for {','.join(gs)}"
    ind = lst(out)
    if any(x not in gs for x in ind):
        return f"get_independents() = {ind} is not a selection of the members {gs}"
    a = O.closure_strs(gs)
    if len(a) != 4 ** len(gs[0]) - 1:
        return None          # not su(2^n): outside C20 (for other algebras a string recorded as dependent need not be removable)
    b = O.closure_strs(ind)
    if a != b:
        return (f"get_independents() of {','.join(gs)} keeps {len(ind)} strings that generate {len(b)} strings, the collection generates {len(a)}: "
                f"a needed generator was recorded as dependent")
    return None

# ---- the same at high volume, directed by the model: `classify` lines on random 4-qubit sets are answered by the
# implementation and by the exact model of the classifier; where the two disagree on the dependents the closure oracle above is
# evaluated on the implementation's get_independents() (agreeing lines are covered, at lower volume, by the stream above)
def volume_oracle(lines, outs):
    import impl_classify
    rep = run_model(lines)
    res = [None] * len(lines)
    for k, (l, o, m) in enumerate(zip(lines, outs, rep)):
        if impl_classify.strip_meta(m) == o:
            continue
        il = "indep " + l.split(" ", 1)[1]
        res[k] = indep_oracle(il, indep_handle(il))
    return res

def build_streams(rng, tier):
    th = tier == "thorough"
    lines = []
    for n, cnt in ((2, 120), (3, 120), (4, 40)) if not th else ((2, 400), (3, 600), (4, 300), (5, 40)):
        lines += [line_for(rng, n) for _ in range(cnt)]
    # n = 1: every list of 2..4 letters from X, Y, Z with at least two different ones generates su(2); two independents, target
    # floor(0.706*1) = 0 edges (the smallest legitimate target).  Size clause there: 2 = 2n (C20_min_fails_n1: 2n+1 is the minimum
    # from n = 2 on only), the other clauses as for every n
    import itertools
    for k in (2, 3, 4):
        for gs in itertools.product("XYZ", repeat=k):
            if len(set(gs)) >= 2:
                lines.append(G.line_of("optimise", list(gs), ",".join(str(rng.randint(0, 10 ** 6)) for _ in range(40))))
    # the same input under several seeds of the tie-breaking
    seeds = []
    for _ in range(12 if not th else 60):
        gs = su_gens(rng, rng.choice([2, 3, 3, 4]))
        for s in range(8 if not th else 32):
            r2 = random.Random(s)
            seeds.append(G.line_of("optimise", gs, ",".join(str(r2.randint(0, 10 ** 6)) for _ in range(40))))
    boundary = []
    for n, tries in ((2, 300), (3, 300)) if not th else ((2, 1500), (3, 1500), (4, 300)):
        for gs in already_optimal(rng, n, tries)[:60 if not th else 400]:
            boundary.append(G.line_of("optimise", gs, ",".join(str(rng.randint(0, 10 ** 6)) for _ in range(40))))
    explore = []
    for n, cnt in ((2, 30), (3, 40)) if not th else ((2, 100), (3, 200), (4, 30)):
        explore += [G.line_of("explore", su_gens(rng, n)) for _ in range(cnt)]
    edges = [f"edges {ng}" for ng in range(0, 400 if not th else 3000)]
    kw = dict(batch_oracle=batch_oracle, shrink=shrink, nontrivial=lambda l, o: True,
              tag=lambda l, o: "outcome:" + ("None" if o == "None" else o if o.startswith("!") else "set"))
    return [
        Stream("corpus", corpus_lines(PID), IO.handle, **kw),
        Stream("su(2^n)-generating-sets", lines, IO.handle, **kw),
        Stream("seeds-of-the-tie-breaking", seeds, IO.handle, **kw),
        Stream("independents-the-search-starts-from", [G.line_of("indep", chain_plus(rng, rng.choice([4, 4, 5])) if rng.random() < 0.7 else
                                                       [G.rs(rng, 4) for _ in range(rng.randint(9, 13))]) for _ in range(12000 if th else 900)],
               indep_handle, indep_oracle, model=False, tag=lambda l, o: "indep:" + ("err" if o.startswith("!") else "set"),
               nontrivial=lambda l, o: len(O.closure_strs(O.pad(lst(l.split(" ")[1])))) == 4 ** len(O.pad(lst(l.split(" ")[1]))[0]) - 1),
        Stream("inputs-already-at-the-target", boundary, IO.handle, **kw),
        Stream("independents:volume-directed-by-the-classifier-model", [G.line_of("classify", [G.rs(rng, 4) for _ in range(rng.randint(9, 12))] if rng.random() < 0.6
                                                                            else chain_plus(rng, 4)) for _ in range(100000 if th else 9000)],
               __import__("impl_classify").handle, batch_oracle=volume_oracle, canon=__import__("impl_classify").strip_meta,
               tag=lambda l, o: "volume", nontrivial=lambda l, o: "deps=-" not in o),
        Stream("classified-then-member-edited-in-place", [gen_member_edit(rng) for _ in range(1500 if th else 400)], optimise_after_member_edit,
               oracle=oracle_after_member_edit, model=False, tag=lambda l, o: "member-edit"),
        Stream("all-random-choices(model)", explore, explore_one, batch_oracle=explore_oracle, model=False,
               tag=lambda l, o: "exploration-undecided(time limit)" if o == "!ExploreTimeout" else "explored", nontrivial=lambda l, o: ";" in o),
        Stream("target-number-of-pairs", edges, IO.handle, oracle=edges_oracle, nontrivial=lambda l, o: o != "-1"),
    ]

RULE = ("generating sets of su(2^n) (random strings until the closure is all 4^n-1, made minimal / obfuscated by contractions), n=2..4 "
        "(thorough 5), with repeated members, plus EVERY list of 2..4 letters from X,Y,Z generating su(2) (n=1, size clause 2 there: C20_min_fails_n1), and inputs whose own graph already has the target number of edges; `randint` scripted from VERIF_SEED, 8 (thorough 32) different tie-breaking streams per input; returned set checked for "
        "termination, no exception, distinctness, size in [2n+1, |input|] (lower bound proved: C20_min_generators) and closure equality (Lean-verified closure); the model explores "
        "EVERY random choice for n<=3 (thorough 4) and must find no stuck retry loop, no IndexError and only property-satisfying results")

# ---- recorded finding: strings recorded as "dependent" that are NOT removable.  A failure is the recorded one only if (a) it is of
# the kind "fewer than 2n+1 strings / smaller closure / independents generate less", (b) the implementation's dependents for this
# input are exactly those of the exact model of the classifier (Model/Morph.lean: the reduction as written does this), and (c)
# the members outside that list really generate less than the input.  Any other failure of C20 stays a VIOLATION.
KNOWN_SIG = "dependents-not-removable:reproduced-by-Model.Morph.classify"
_KM = {}
KNOWN_SIG_INDEX = "index-error:randint-beyond-connections:repeated-members:reproduced-by-Model.Optimise"

def known_match(stream, line, why):
    t = line.split(" ")
    if t[0] not in ("optimise", "indep", "optedit") or not why:
        return None
    if t[0] == "optimise" and "the search raised IndexError" in why:
        # recorded finding 2: only for inputs WITH repeated members, and only if the exact Lean model of the search raises the
        # same IndexError on the same line (same random stream); anything else that raises is reported
        gs = lst(t[1])
        try:
            if len(set(gs)) < len(gs) and run_model([line])[0] == "!IndexError":
                return KNOWN_SIG_INDEX
        except Exception:
            pass
        return None
    if not any(x in why for x in ("a needed generator was recorded as dependent", "strings, expected between", "generates", "generate")):
        return None
    if t[1] in _KM:
        return _KM[t[1]]
    import impl_classify
    gs = O.pad(lst(t[1]))
    sig = None
    try:
        cl = G.line_of("classify", gs)
        io = impl_classify.handle(cl); mo = impl_classify.strip_meta(run_model([cl])[0])
        fi, fm = fields(io), fields(mo)
        if not io.startswith("!") and fi.get("deps") == fm.get("deps") and fi.get("verts") == fm.get("verts"):
            deps = set(lst(fi.get("deps", "-")))
            rest = [g for g in gs if g not in deps]
            if deps and O.closure_strs(rest) != O.closure_strs(gs):
                sig = KNOWN_SIG
    except Exception:
        sig = None
    _KM[t[1]] = sig
    return sig

def main(tier):
    return standard_main(PID, tier, "other", THEOREMS, IMPORTS, build_streams, known_match=known_match, rule=RULE,
        assumptions=["termination for ALL inputs and seeds is not proved: decided per input by exhaustive exploration of the random choices in the model",
                     "that su(2^n), n>=2, needs at least 2n+1 distinct Pauli generators (hence no duplicates can appear among 2n+1) is now proved (C20_min_generators, C20_distinct, C20_run_distinct); it is still also checked per input on the implementation",
                     "float floor(0.706*pairs) equals the exact rational floor for every ng < 400 (3000 thorough), checked on the implementation"])

def replay(path):
    r = json.load(open(path)); line = r.get("line")
    if line.startswith("indep "):
        out = indep_handle(line); why = indep_oracle(line, out)
        print("line:", line); print("implementation:", out); print("oracle:", why or "holds")
        return 1 if why else 0
    out = IO.handle(line) if not line.startswith("explore") else run_model([line])[0]
    why = (explore_oracle if line.startswith("explore") else batch_oracle)([line], [out])[0] if not line.startswith("edges") else edges_oracle(line, out)
    print("line:", line); print("implementation:", out); print("model:", run_model([line])[0]); print("oracle:", why or "holds")
    return 1 if why else 0
