"""C01 — the reported Lie algebra is isomorphic to the true dynamical Lie algebra."""
from __future__ import annotations
from classify_checks import *
import props.c01_names as N
import props.c01_star as S
import props.c01_typeb as B

PID = "C01"
COMP_THEOREMS = ["PauLie.C01Comp." + t for t in [
    "C01Comp_closure", "C01Comp_inter", "C01Comp_size", "C01Comp_blocks", "C01Comp_subgraphs", "C01_componentwise",
    "C01_componentwise_typeA", "C01Comp_invariants", "C01Comp_invariants_blocks", "C01Comp_merge",
    "C01_componentwise_full", "C01_componentwise_typeA_full"]] + ["PauLie.C01Star." + t for t in [
    "C01_typeA_full", "C01_from_C02_typeA_full", "TypeA.inv_clo", "TypeAL.inv_clo"]] + [
    "PauLie.C19.invOfClosure_soFib", "PauLie.C19.invOfClosure_of_blocks", "PauLie.C03.invOfClosure_perm_closed"]
THEOREMS = CLOSURE_THEOREMS + ["PauLie.Tie.census_tie"] + N.EXTRA_THEOREMS + S.EXTRA_THEOREMS + COMP_THEOREMS + B.EXTRA_THEOREMS + [
    "PauLie.C09Cert.C01_cert_dim", "PauLie.C09Cert.C09_cert_classify"]
IMPORTS = CLOSURE_IMPORTS + ["PauLieVerif.Proofs.TieCensus"] + N.EXTRA_IMPORTS + S.EXTRA_IMPORTS + ["PauLieVerif.Properties.C01Comp", "PauLieVerif.Properties.C01CompFull", "PauLieVerif.Properties.C01StarFull"] + B.EXTRA_IMPORTS + ["PauLieVerif.Properties.C09Cert"]

def batch_oracle(lines, outs):
    colls = [inputs_of(l) for l in lines]
    res = [None] * len(lines)
    algs = []
    for k, o in enumerate(outs):
        f = fields(o)
        if o.startswith("!") or "alg" not in f or f["alg"].startswith("!"):
            res[k] = f"classification failed: {o[:120]}"
            algs.append("[]")
        else:
            algs.append(f["alg"])
    inv_c = lean_inv(colls)
    inv_n = lean_invname(algs)
    for k in range(len(lines)):
        if res[k]:
            continue
        if inv_n[k] == "bad-op":
            res[k] = f"reported algebra {algs[k]} is not a name of the family u/so/sp/su"
            continue
        c = inv_c[k].replace(" flag=T", "")
        if "flag=F" in inv_c[k]:
            res[k] = "verified closure checker ran out of fuel (cannot happen: closureList_exhausted)"
            continue
        if c != inv_n[k]:
            res[k] = (f"reported {algs[k]} has invariants [{inv_n[k]}] but the commutator closure of {','.join(colls[k])} "
                      f"has [{c}] (size, centre, (dim:centraliser:copies) per simple type)")
            continue
        # second opinion by the independent Python oracle: always on small closures, on a tenth of the large ones
        # (it is quadratic in the closure size and dominated the thorough tier)
        size = int(fields(c).get("size", "0"))
        if size <= 700 or (hash(lines[k]) % 10 == 0):
            p = py_inv(colls[k])
            if p != c:
                res[k] = f"ORACLE-DISAGREEMENT python {p} lean {c}"
    return res

def build_streams(rng, tier):
    h = impl_classify.handle
    cm = impl_classify.strip_meta
    lines = classify_lines(rng, tier)
    kw = dict(batch_oracle=batch_oracle, canon=cm, tag=tag_classify, nontrivial=nontrivial_classify, shrink=shrink_classify)
    return [
        Stream("corpus", corpus_lines(PID), h, **kw),
        Stream("exhaustive-small", exhaustive_small_lines(), h, **kw),
        Stream("structured+random", lines, h, **kw),
        history_stream("C01", rng, tier),
        assembled_stream(lines[:600 if tier == "thorough" else 150], **kw),
    ] + N.extra_streams(rng, tier) + S.extra_streams(rng, tier) + B.extra_streams(rng, tier)

RULE = ("collections from the structured generator (random dense/sparse, canonical stars by census realised as Pauli strings, "
        "obfuscated by contractions with dependent products / duplicates / identity injected, paths, commuting sets, disjoint unions, "
        "2-local translates) on n<=5 qubits (thorough n<=6), plus every collection of <=3 strings on 2 qubits and <=4 on 1 qubit; "
        "verdict per input: invariants (size, centre, per simple type dim:centraliser:copies) of the Lean-verified closure vs. those of the "
        "algebra the implementation names. non-trivial: has dependents or several legs/components")

def main(tier):
    return standard_main(PID, tier, "other", THEOREMS, IMPORTS, build_streams, rule=RULE,
        assumptions=["isomorphism is decided through invariants (dimension, centre, and per connected block: copies, simple dimension, "
                     "centraliser count of a basis string); that these determine the real Lie algebra of a Pauli DLA is the classification "
                     "theorem of arXiv:2408.00081 (assumed, not proved)",
                     "unbounded: closure theory, name arithmetic, census table; per input (n<=5/6): verified closure checker run by the compiled model"])

def replay(path):
    r = json.load(open(path)); line = r.get("line")
    sp = replay_special(PID, line, batch_oracle)
    if sp is not None:
        return sp
    out = impl_classify.handle(line); why = batch_oracle([line], [out])[0]
    if str(r.get("stream", "")).startswith("closed-form:"):
        why = why or (B if "type-B" in str(r.get("stream")) else S).batch_oracle([line], [out])[0]
    print("line:", line); print("implementation:", out); print("model:", run_model([line])[0]); print("oracle:", why or "holds")
    return 1 if why else 0
