"""C15 — averaged OTOC and graph complexity equal their orbit definitions."""
from __future__ import annotations
import itertools, json, random, zlib
import networkx as nx
from common import *
from engine import *
import oracle as O
import gens as G
import impl_otoc as I
from paulie.common.pauli_string_factory import get_pauli_string
from paulie.application.otoc import average_otoc
from paulie.application.graph_complexity import average_graph_complexity

PID = "C15"
THEOREMS = [
    "PauLie.C15.C15_otoc_bfs", "PauLie.C15.C15_otoc_source", "PauLie.C15.C15_agc_bfs", "PauLie.C15.C15_agc_source",
    "PauLie.C15.C15_range", "PauLie.C15.C15_commuting", "PauLie.C15.C15_generator_independence",
    "PauLie.C15.C15_symmetry", "PauLie.C15.C15_fourpoint",
    "PauLie.C15.C15_otoc_length_mismatch", "PauLie.C15.C15_agc_key_error", "PauLie.C15.C15_agc_empty", "PauLie.C15.C15_dist_exists_unique", "PauLie.C15.C15_moves",
    "PauLie.C15.C15_value_range", "PauLie.C15.C15_value_symmetric", "PauLie.C15.C15_value_commuting",
    "PauLie.C15.C15_value_generator_independent",
]
IMPORTS = ["PauLieVerif.Properties.C15", "PauLieVerif.Properties.C15Value"]
TOL = 1e-12

# ------------------------------------------------------------------ helpers

def parse(line):
    t = line.split(" ")
    return t[0], I.strs(t[1]), [I.one(x) for x in t[2:]]

def mulstr(a, b):
    return O.dec(O.mul(O.enc(a), O.enc(b)), len(a))

def anti(a, b):
    return bool(O.anti(O.enc(a), O.enc(b)))

def other_generators(gs, rnd):
    """another generating set of the same algebra (same commutator closure), built only from
    closure-preserving moves; the equality of the closures is re-checked by brute force"""
    gs = list(gs)
    if not gs:
        return gs
    n = len(gs[0])
    C = sorted(O.closure_strs(gs))
    mode = rnd.choice(["contract", "contract", "extend", "full"])
    if mode == "full" and len(C) <= 200:
        out = list(C); rnd.shuffle(out)
    elif mode == "extend":
        out = gs + [rnd.choice(C) for _ in range(rnd.randint(1, 4))]
        rnd.shuffle(out)
    else:
        out = list(gs)
        for _ in range(rnd.randint(1, 8)):
            if len(out) < 2:
                break
            i, j = rnd.sample(range(len(out)), 2)
            if out[i] != out[j] and anti(out[i], out[j]):
                a, c = out[i], mulstr(out[i], out[j])
                out = [c if g == a else g for g in out]      # replace every occurrence of a by a*b
    if O.closure_strs(out) != set(C):
        raise AssertionError(f"harness: generating sets {gs} / {out} do not have the same closure")
    return out

def rnd_of(line):
    return random.Random(zlib.crc32(line.encode()))

def close(x, y, scale=1.0):
    return abs(x - y) <= TOL * max(1.0, scale)

# ------------------------------------------------------------------ the property, evaluated on the implementation

def oracle(line, out):
    cmd, gs_raw, args = parse(line)
    gs = O.pad(gs_raw)
    n = len(gs[0]) if gs else None
    if cmd in ("otoc", "otoccore"):
        v, w = args
        if len(v) != len(w) or (gs and len(v) != n):
            return None                           # not "strings on the same qubits": outside the property
        if out.startswith("!"):
            return f"average_otoc raised {out[1:]} on a well-formed input"
        f = I.RAW.get(line)
        if f is None:
            f = average_otoc(I.coll(gs_raw), I.mk(v), I.mk(w))
        a, s = I.orbit_pair(gs, v, w)
        exp = 1 - 2 * a / s
        if not isinstance(f, float) or not close(f, exp):
            return f"average_otoc = {f!r}, orbit definition 1-2*{a}/{s} = {exp!r}"
        if not (-1.0 <= f <= 1.0):
            return f"average_otoc = {f!r} outside [-1,1]"
        if all(not anti(v, g) for g in gs):
            pm = -1.0 if anti(v, w) else 1.0
            if f != pm:
                return f"V commutes with all of G but average_otoc = {f!r} (expected {pm})"
        f2 = average_otoc(I.coll(gs_raw), I.mk(w), I.mk(v))
        if not close(f, f2):
            return f"not symmetric: OTOC(V,W) = {f!r}, OTOC(W,V) = {f2!r}"
        g2 = other_generators(gs, rnd_of(line))
        f3 = average_otoc(I.coll(g2), I.mk(v), I.mk(w))
        if not close(f, f3):
            return f"depends on the generating set: {f!r} with G, {f3!r} with G' = {','.join(g2)} (same closure)"
        return None
    if cmd in ("agc", "splcore"):
        (p,) = args
        if (gs and len(p) != n) or (not gs and p != ""):
            return None
        if out.startswith("!"):
            return f"average_graph_complexity raised {out[1:]} on a well-formed input"
        f = I.RAW.get(line)
        if f is None:
            f = average_graph_complexity(I.coll(gs_raw), I.mk(p))
        dist = I.orbit_dist(gs, p)
        tot, s = sum(dist.values()), len(dist)
        exp = tot / s
        if not isinstance(f, float) or not close(f, exp, exp):
            return f"average_graph_complexity = {f!r}, mean shortest-path distance over the orbit {tot}/{s} = {exp!r}"
        if gs and n <= 3:
            # the component (= orbit) does not depend on the generating set: read the component the
            # function works on (same two calls as the source) for G and for another generating set
            orb = {O.dec(x, n) for x in dist}
            for gg in (gs, other_generators(gs, rnd_of(line))):
                vs, es = I.coll(gg).get_commutator_graph()
                gr = nx.Graph(); gr.add_nodes_from(vs); gr.add_edges_from(es)
                comp = set(nx.node_connected_component(gr, p))
                if comp != orb:
                    return f"component of {p} under {','.join(gg)} has {len(comp)} nodes, the orbit under G has {len(orb)}"
        return None
    if cmd == "fourpoint":
        p, q, r, s_ = args
        if len({len(x) for x in args}) != 1 or (gs and len(p) != n):
            return None
        if out.startswith("!"):
            return f"fourpoint raised {out[1:]} on a well-formed input"
        rp, qs = mulstr(r, p), mulstr(q, s_)
        reduces = bool(gs) and rp == qs and all(not anti(qs, g) for g in gs)
        a, s = I.orbit_pair(gs, p, q)
        if out == "zero":
            return f"fourpoint = 0 although RP = QS = {qs} commutes with G (should be OTOC(P,Q))" if reduces else None
        f = I.RAW.get(line)
        if f is None:
            f = I.fourpoint(I.coll(gs_raw), I.mk(p), I.mk(q), I.mk(r), I.mk(s_))
        if gs and not reduces:
            return f"fourpoint = {f!r} although not (RP = QS in the commutant of G): RP={rp} QS={qs} (should be 0)"
        if not isinstance(f, float) or not close(f, 1 - 2 * a / s):
            return f"fourpoint = {f!r}, OTOC(P,Q) by orbit = 1-2*{a}/{s}"
        return None
    return None

# ------------------------------------------------------------------ generators

def rs(rng, n, wI=1):
    return "".join(rng.choice("I" * wI + "XYZ") for _ in range(n))

def klocal(rng, n):
    """translates of 1- and 2-local strings through the library's own k-local expansion"""
    base = [rs(rng, 2, 0) for _ in range(rng.randint(1, 3))]
    if rng.random() < 0.5:
        base.append(rng.choice("XYZ"))
    if rng.random() < 0.15 and n >= 3:
        base.append(rs(rng, 3))
    return [str(p) for p in get_pauli_string(base, n=n)]

def gen_coll(rng, maxn, maxk):
    r = rng.random()
    if r < 0.25:
        gs = klocal(rng, rng.randint(2, maxn))
    elif r < 0.4:
        gs = G.collection(rng, maxn, maxk, "commuting")
    else:
        gs = G.collection(rng, maxn, maxk)
    gs = [g for g in gs]
    r = rng.random()
    if r < 0.15:
        gs.append(rng.choice(gs))                                  # duplicate generator
    elif r < 0.25:
        gs.append("I" * len(gs[0]))                                # identity among the generators
    elif r < 0.32 and len(gs[0]) > 1:
        gs[rng.randrange(len(gs))] = rs(rng, rng.randint(1, len(gs[0]) - 1))   # shorter member, padded by the collection
    return gs

def pick(rng, gs, n):
    """a string on n qubits: random / a generator / in the closure / commuting with everything / identity"""
    r = rng.random()
    pg = O.pad(gs)
    if r < 0.35 or not pg:
        return rs(rng, n)
    if r < 0.55:
        return rng.choice(pg)
    if r < 0.75:
        x = rng.choice(pg)
        for _ in range(rng.randint(1, 6)):
            g = rng.choice(pg)
            if anti(x, g):
                x = mulstr(x, g)
        return x
    if r < 0.9:
        x = rs(rng, n, 2)
        for _ in range(8):                                         # push towards the commutant
            bad = [g for g in pg if anti(x, g)]
            if not bad:
                break
            i = rng.randrange(n); x = x[:i] + rng.choice("IXYZ") + x[i + 1:]
        return x
    return "I" * n

def line_of(cmd, gs, *rest):
    return " ".join([cmd, ",".join(g or "-" for g in gs) or "-", *[x or "-" for x in rest]])

def allstr(n):
    return ["".join(t) for t in itertools.product("IXYZ", repeat=n)]

def small_collections(rng, th):
    out = [[], [""], ["X"], ["Z"], ["X", "Z"], ["X", "Y", "Z"], ["I"], ["X", "X"], ["Y", "I", "Y"]]
    two = [["XX", "ZI"], ["XX", "ZI", "IZ"], ["ZZ", "XI", "IX"], ["ZI", "IZ", "ZZ"], ["XY"], ["II"], ["XX", "XX", "ZI"],
           ["XI", "ZI"], ["XI", "ZI", "IX", "IZ"], ["XX", "YY", "ZZ"], ["X", "ZZ"], ["XZ", "ZX", "YI", "IY"]]
    for _ in range(40 if th else 6):
        two.append([rs(rng, 2) for _ in range(rng.randint(1, 5))])
    for _ in range(6 if th else 2):
        two.append(klocal(rng, 2))
    return out, two

# ---- the same collection OBJECT across edits: a cached graph / orbit must not survive replace, contract, append, remove
def reused_handle(line):
    """`reuse <G> <V> <W> <ops>`: one collection object; OTOC and graph complexity asked before and after every edit;
    each answer is judged against the independent orbit BFS on the strings the collection holds at that moment"""
    import impl_collection as IC
    from paulie.application.otoc import average_otoc
    from paulie.application.graph_complexity import average_graph_complexity
    try:
        _, gs, v, w, ops = line.split(" ")
        c = IC.mk(I.strs(gs))
        V, W = I.mk(v), I.mk(w)
        def observe(when):
            cur = IC.names(c)
            if not cur or any(len(x) != len(v) for x in cur):
                return None
            dist = I.orbit_dist(cur, v)
            a = sum(1 for x in dist if O.anti(O.enc(w), x)); sz = len(dist)
            f = average_otoc(c, V, W)
            if abs(f - (1 - 2 * a / sz)) > 1e-9:
                return f"{when}: average_otoc on the edited collection {cur} = {f}, orbit definition 1-2*{a}/{sz}"
            g = average_graph_complexity(c, V)
            exp = sum(dist.values()) / sz
            if abs(g - exp) > 1e-9 * max(1.0, exp):
                return f"{when}: average_graph_complexity on the edited collection {cur} = {g}, mean orbit distance {exp}"
            return None
        why = observe("before any edit")
        if why:
            return why
        for k, op in enumerate([] if ops == "-" else ops.split(";")):
            try:
                c = IC.edit(c, op.split(":"))
            except Exception:
                pass
            why = observe(f"after {';'.join(ops.split(';')[:k + 1])}")
            if why:
                return why
        return "ok"
    except Exception as e:
        return exc_name(e)

# ---- the same V / W OBJECTS across in-place edits: anything remembered about a string (hash, index, cached orbit)
# must not survive p[i] = ..., set_substring, inc(); strings handed out by earlier calls are edited in place first
def vedit_handle(line):
    """`vedit <G> <V> <W> <edits>`: OTOC(V,W), OTOC(W,V) and the graph complexity of V are asked before and after every
    in-place edit of the two operand objects (which are also hashed / stored in a set in between); each answer is judged
    against the independent orbit BFS on the letters the operands show at that moment"""
    import impl_collection as IC, pollute
    from paulie.application.otoc import average_otoc
    from paulie.application.graph_complexity import average_graph_complexity
    try:
        _, gs, v, w, eds = line.split(" ")
        import random as _rnd
        r_ = _rnd.Random("vedit:" + line)
        pollute.pollute(len(v), line, I.strs(gs))
        c = IC.mk(I.strs(gs))
        cur = IC.names(c)
        V, W = I.mk(v), I.mk(w)
        seen = set()
        def observe(when):
            sv, sw = str(V), str(W)
            # unfinished traversals of the collection and of the operands (a `break`, a membership test): cursors left inside
            for obj in (c, V, W):
                if r_.random() < 0.5:
                    it = iter(obj); next(it, None)
                    if r_.random() < 0.5:
                        next(it, None)
            dist = I.orbit_dist(cur, sv)
            sz = len(dist)
            a = sum(1 for x in dist if O.anti(O.enc(sw), x))
            f = average_otoc(c, V, W)
            if abs(f - (1 - 2 * a / sz)) > 1e-9:
                return f"{when}: average_otoc(G={cur}, V={sv}, W={sw}) = {f}, orbit definition 1-2*{a}/{sz}"
            distw = I.orbit_dist(cur, sw)
            aw = sum(1 for x in distw if O.anti(O.enc(sv), x))
            f2 = average_otoc(c, W, V)
            if abs(f2 - (1 - 2 * aw / len(distw))) > 1e-9:
                return f"{when}: average_otoc(G={cur}, V={sw}, W={sv}) = {f2}, orbit definition 1-2*{aw}/{len(distw)}"
            if len(sv) <= 3:
                g = average_graph_complexity(c, V)
                exp = sum(dist.values()) / sz
                if abs(g - exp) > 1e-9 * max(1.0, exp):
                    return f"{when}: average_graph_complexity(G={cur}, V={sv}) = {g}, mean orbit distance {exp}"
            seen.add(V); seen.add(W); hash(V); hash(W)
            return None
        why = observe("before any edit")
        if why:
            return why
        for k, e in enumerate([] if eds == "-" else eds.split(";")):
            t = e.split(":")
            p = V if t[0] == "v" else W
            if t[1] == "set": p[int(t[2])] = t[3]
            elif t[1] == "sub": p.set_substring(int(t[2]), t[3])
            elif t[1] == "inc": p.inc()
            why = observe(f"after the in-place edits {';'.join(eds.split(';')[:k + 1])}")
            if why:
                return why
        return "ok"
    except Exception as e:
        return exc_name(e)

def gen_vedit(rng):
    n = rng.choice([2, 2, 3, 3, 4])
    gs = [rs(rng, n, rng.choice([1, 2])) for _ in range(rng.randint(2, 5))]
    v, w = rs(rng, n), rs(rng, n)
    eds = []
    for _ in range(rng.randint(1, 4)):
        who = rng.choice("vvw")
        k = rng.choice(["set", "set", "sub", "inc"])
        if k == "set":
            eds.append(f"{who}:set:{rng.randrange(n)}:{rng.choice('IXYZ')}")
        elif k == "sub":
            st = rng.randrange(n)
            eds.append(f"{who}:sub:{st}:{rs(rng, rng.randint(1, n - st))}")
        else:
            eds.append(f"{who}:inc")
    return f"vedit {','.join(gs)} {v} {w} {';'.join(eds)}"

def gen_reused(rng):
    import props.c10 as C10
    n = rng.choice([2, 2, 3, 3])
    gs = [rs(rng, n, rng.choice([1, 2])) for _ in range(rng.randint(2, 5))]
    gs = [g for g in dict.fromkeys(gs)]
    cur = list(gs)
    ops = []
    for _ in range(rng.randint(1, 4)):
        k = rng.choice(["rep", "con", "con", "app", "rem", "sort"])
        if k == "rep" and cur:
            t = [k, rng.choice(cur), rs(rng, n)]
        elif k == "con" and len(cur) >= 2:
            a, b = rng.sample(cur, 2)
            t = [k, a, b]
        elif k == "app":
            t = [k, rs(rng, n)]
        elif k == "rem" and len(cur) > 1:
            t = [k, rng.choice(cur)]
        else:
            t = ["sort"]
        cur = C10.spec_edit(cur, t)
        ops.append(":".join(t))
    return f"reuse {','.join(gs)} {rs(rng, n) .replace('I' * n, 'X' * n)} {rs(rng, n)} {';'.join(ops)}"

def build_streams(rng, tier):
    th = tier == "thorough"
    # ---- all pairs (V,W) on n <= 2
    ex = []
    ones, twos = small_collections(rng, th)
    for gs in ones:
        n = max((len(g) for g in gs), default=0)
        for nn in ([0, 1] if not gs else [n]):          # empty collection: strings of length 0 and 1
            for v in allstr(nn):
                ex.append(line_of("agc", gs, v))
                for w in allstr(nn):
                    ex.append(line_of("otoc", gs, v, w))
    for gs in twos:
        for v in allstr(2):
            ex.append(line_of("agc", gs, v))
            for w in allstr(2):
                ex.append(line_of("otoc", gs, v, w))
    # ---- sampled, n <= 6
    sm, heavy = [], 0
    for _ in range(2500 if th else 450):
        gs = gen_coll(rng, 6, 8)
        n = max(len(g) for g in gs)
        if n == 6 and len(gs) >= 6:
            heavy += 1
            if heavy > (60 if th else 8):
                gs = gen_coll(rng, 5, 6); n = max(len(g) for g in gs)
        for _ in range(rng.randint(1, 4)):
            sm.append(line_of("otoc", gs, pick(rng, gs, n), pick(rng, gs, n)))
    # ---- graph complexity: 4^n vertices and 16^n/2 pairs are enumerated by the source
    ag = []
    for _ in range(600 if th else 140):
        gs = gen_coll(rng, 3, 6); n = max(len(g) for g in gs)
        for _ in range(2):
            ag.append(line_of("agc", gs, pick(rng, gs, n)))
    for _ in range(60 if th else 8):
        gs = gen_coll(rng, 4, 6); n = max(len(g) for g in gs)
        ag.append(line_of("agc", gs, pick(rng, gs, n)))
    for _ in range(8 if th else 1):
        gs = klocal(rng, 5)
        ag.append(line_of("agc", gs, pick(rng, gs, 5)))
    # ---- fourpoint
    fp = []
    for _ in range(1500 if th else 300):
        gs = gen_coll(rng, 4 if th else 3, 5); n = max(len(g) for g in gs)
        pg = O.pad(gs)
        p, q = pick(rng, gs, n), pick(rng, gs, n)
        comm = [c for c in allstr(n) if all(not anti(c, g) for g in pg)]
        r = rng.random()
        if r < 0.6:
            c = rng.choice(comm); r_, s_ = mulstr(c, p), mulstr(q, c)      # RP = QS = c in the commutant
        elif r < 0.8:
            c = rs(rng, n); r_, s_ = mulstr(c, p), mulstr(q, c)            # RP = QS, usually outside the commutant
        else:
            r_, s_ = rs(rng, n), rs(rng, n)
        fp.append(line_of("fourpoint", gs, p, q, r_, s_))
    # ---- malformed: strings not on the same qubits, empty collection / strings
    mal = []
    for _ in range(1200 if th else 250):
        gs = gen_coll(rng, 4, 4) if rng.random() < 0.85 else []
        n = max((len(g) for g in gs), default=rng.randint(0, 3))
        k = rng.random()
        bad = lambda: rs(rng, rng.choice([m for m in range(0, 6) if m != n]))
        good = lambda: rs(rng, n)
        if k < 0.3:
            mal.append(line_of("otoc", gs, good(), bad()))
        elif k < 0.5:
            mal.append(line_of("otoc", gs, bad(), good()))
        elif k < 0.6:
            b = bad(); mal.append(line_of("otoc", gs, b, rs(rng, len(b))))
        elif k < 0.8:
            mal.append(line_of("agc", gs, bad()))
        else:
            a = [good(), good(), good(), good()]; a[rng.randrange(4)] = bad()
            mal.append(line_of("fourpoint", gs, *a))
    # ---- the bit-list cores of the model against the implementation (refinement, run as well as proved)
    core = []
    for l in rng.sample(sm, min(len(sm), 400 if th else 120)) + rng.sample(ex, min(len(ex), 300)):
        cmd, gs_raw, args = parse(l)
        n = max((len(g) for g in gs_raw), default=None)
        if cmd == "otoc" and len(args[0]) == len(args[1]) and (n is None or n == len(args[0])):
            core.append("otoccore" + l[4:])
    for l in rng.sample(ag, min(len(ag), 200 if th else 60)):
        cmd, gs_raw, args = parse(l)
        if gs_raw:
            core.append("splcore" + l[3:])
    h = I.handle
    def tag(l, o):
        c = l.split(" ")[0]
        if o.startswith("!"):
            return c + ":" + o
        if o == "zero":
            return c + ":zero"
        f = dict(x.split("=") for x in o.split(" ") if "=" in x)
        s = int(f.get("size", 0))
        return f"{c}:size{'1' if s == 1 else '2-15' if s < 16 else '16-255' if s < 256 else '256+'}"
    nt = lambda l, o: "size=" in o and "size=1 " not in o + " "
    return [
        Stream("corpus", corpus_lines(PID), h, oracle, tag=tag, shrink=shrink),
        Stream("all-pairs-n<=2", ex, h, oracle, nontrivial=nt, tag=tag, shrink=shrink),
        Stream("otoc-sampled-n<=6", sm, h, oracle, nontrivial=nt, tag=tag, shrink=shrink),
        Stream("graph-complexity", ag, h, oracle, nontrivial=nt, tag=tag, shrink=shrink),
        Stream("fourpoint", fp, h, oracle, nontrivial=lambda l, o: o != "zero", tag=tag, shrink=shrink),
        Stream("not-on-the-same-qubits", mal, h, oracle, tag=tag, shrink=shrink),
        Stream("model-cores", core, h, oracle, nontrivial=nt, tag=tag, shrink=shrink),
        Stream("same-collection-object-across-edits", [gen_reused(rng) for _ in range(1200 if tier == "thorough" else 250)], reused_handle,
               oracle=lambda l, o: None if o == "ok" else o, model=False, tag=lambda l, o: "reuse:" + ("ok" if o == "ok" else "bad")),
        Stream("operand-objects-edited-in-place-between-calls", [gen_vedit(rng) for _ in range(1200 if tier == "thorough" else 300)], vedit_handle,
               oracle=lambda l, o: None if o == "ok" else o, model=False, tag=lambda l, o: "vedit:" + ("ok" if o == "ok" else "bad")),
    ]

def shrink(line):
    """drop a generator; delete a qubit column everywhere; blank a letter"""
    cmd, gs, args = parse(line)
    for i in range(len(gs)):
        yield line_of(cmd, gs[:i] + gs[i + 1:], *args)
    n = max([len(g) for g in gs] + [len(a) for a in args], default=0)
    for k in range(n):
        cut = lambda s: s[:k] + s[k + 1:] if len(s) > k else s
        yield line_of(cmd, [cut(g) for g in gs], *[cut(a) for a in args])
    for i, g in enumerate(gs):
        for k, ch in enumerate(g):
            if ch != "I":
                yield line_of(cmd, gs[:i] + [g[:k] + "I" + g[k + 1:]] + gs[i + 1:], *args)
    for i, a in enumerate(args):
        for k, ch in enumerate(a):
            if ch != "I":
                yield line_of(cmd, gs, *(args[:i] + [a[:k] + "I" + a[k + 1:]] + args[i + 1:]))

RULE = ("collections on 1..6 qubits from the structured generators (random, sparse, stars, paths, unions, commuting sets, "
        "translates of 1-/2-/3-local strings through the library's own get_pauli_string(n=...) expansion; duplicates, identity, "
        "shorter members injected); ALL pairs (V,W) and all P on n<=2 for ~25 collections; sampled (V,W) on n<=6 (random, "
        "generators, closure members, commutant members, identity); graph complexity on n<=3 (some n=4, one n=5: the source "
        "enumerates 16^n/2 pairs); fourpoint with RP=QS inside/outside the commutant; strings not on the same qubits. "
        "The implementation's float is turned into the integer pair using an orbit size recomputed independently and compared "
        "with the model's pair (agreement of the float with 1-2a/s resp. sum/size at 1e-12 is required for the conversion). "
        "Oracle (independent bitmask BFS): OTOC == orbit definition; graph complexity == mean BFS distance over the orbit; "
        "OTOC(V,W)==OTOC(W,V) by a second call; range; exactly +-1 when V commutes with G; same OTOC / same component "
        "for another generating set with brute-force-equal closure (contraction moves, added closure members, full closure). "
        "non-trivial: orbit with more than one element; distinct = distinct protocol lines")

def main(tier):
    return standard_main(PID, tier, "proof", THEOREMS, IMPORTS, build_streams, rule=RULE,
        assumptions=["the final float operations `1 - 2*a/s` and `sum/size` are outside the theorems (the model returns the integer "
                     "pairs); the run compares the floats with the exact quotients at 1e-12",
                     "networkx node_connected_component / shortest_path_length assumed correct (modelled as one level-synchronous BFS)",
                     "theorems are about the Lean model (Model/Otoc.lean), tied to otoc.py / graph_complexity.py / fourpoint.py by the "
                     "correspondence streams; inputs are collections as built by PauliStringCollection.__init__ (all members padded to one length)"])

def replay(path):
    r = json.load(open(path)); line = r.get("line")
    if line.split(" ")[0] in ("reuse", "vedit"):
        out = (reused_handle if line.startswith("reuse") else vedit_handle)(line)
        print("line:", line); print("implementation-side verdict:", out[:500]); print("oracle:", "holds" if out == "ok" else out)
        return 0 if out == "ok" else 1
    out = I.handle(line); why = oracle(line, out)
    print("line:", line); print("implementation:", out[:500]); print("model:", run_model([line])[0][:500]); print("oracle:", why or "holds")
    return 1 if why else 0
