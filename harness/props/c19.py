"""C19 — the two-local reference table names the true algebra for every n>=3.

Per (family, n):
  * `tl n f`        : implementation's k-local expansion of G_LIE[f] and the text of two_local_algebras(n)[f]
                      (correspondence with Model/TwoLocal.lean), verdict = invariants of the Lean-verified commutator
                      closure of the implementation's generators vs. invariants of the algebra the table names;
  * `tlclassify n f`: what the classifier reports for the same generators (correspondence with the model's
                      `classify`) vs. the table, as invariants of the names; arbitration by the closure for small n.
Known finding: the table rows (a11, a12, a17) at n=3 — exactly those three selectors."""
from __future__ import annotations
import os, re, concurrent.futures as cf
from classify_checks import *
import impl_twolocal
from gen_tables_twolocal import parse_algebra

PID = "C19"
THEOREMS = CLOSURE_THEOREMS + [
    "PauLie.Tie.gLie_tie", "PauLie.Tie.tl_text_tie_list", "PauLie.Tie.tl_table_tie_list",
    "PauLie.Tie.tl_table_tie", "PauLie.Tie.tl_text_tie", "PauLie.Tie.tl_rows", "PauLie.Tie.tlName_isSome",
    "PauLie.Tie.iso_tie",
    "PauLie.C19.C19_dimName", "PauLie.C19.C19_coincidences", "PauLie.C19.C19_isomorphism_dictionary",
    "PauLie.C19.C19_commuting", "PauLie.C19.C19_a0", "PauLie.C19.C19_b0", "PauLie.C19.C19_b1", "PauLie.C19.C19_a1", "PauLie.C19.C19_b3",
    "PauLie.C19.C19_partial", "PauLie.C19.C19_witnesses", "PauLie.C19.C19_refuted",
    "PauLie.C19.C19_a2", "PauLie.C19.C19_a4", "PauLie.C19.C19_a8", "PauLie.C19.C19_a14", "PauLie.C19.C19_dimension",
    "PauLie.C19.C19_partial_more", "PauLie.C19.C19_a1_row", "PauLie.C19.C19_a2_row", "PauLie.C19.C19_a4_row",
    "PauLie.C19.C19_a8_row", "PauLie.C19.C19_a14_row", "PauLie.C19.C19_b3_row", "PauLie.C19.C19_rows",
    "PauLie.C19.C19_partial_rows", "PauLie.C19.invOfClosure_of_blocks", "PauLie.C19.invOfClosure_bils",
    "PauLie.C19.invOfClosure_two_blocks", "PauLie.C19.invOfClosure_singles", "PauLie.C19.labelOfBlock_so",
    "PauLie.C03.invOfClosure_perm_closed", "PauLie.C19.C19_a12", "PauLie.C19.C19_a17", "PauLie.C19.C19_a18",
    "PauLie.C19.C19_a19", "PauLie.C19.C19_a21", "PauLie.C19.C19_a22", "PauLie.C19.C19_dimension_su",
    "PauLie.C19.full_of_windows", "PauLie.C19.clo_full_of_window", "PauLie.C19.card_full_of_window",
    "PauLie.C19.two_blocks", "PauLie.C19.Maj.clo_maj", "PauLie.C19.Maj.card_clo_maj",
    "PauLie.Comp.clo_append", "PauLie.Comp.clo_inter", "PauLie.Comp.card_clo_append", "PauLie.Comp.clo_flatten",
    "PauLie.Comp.card_clo_flatten",
    "PauLie.C19.peel_induction", "PauLie.C19.clo_iff_of_peel", "PauLie.C19.card_of_peel",
    "PauLie.C19.C19_a16", "PauLie.C19.C19_a11", "PauLie.C19.C19_a15", "PauLie.C19.C19_b4", "PauLie.C19.C19_dimension_more",
    "PauLie.C19.C19_a13", "PauLie.C19.C19_a20", "PauLie.C19.C19_a7", "PauLie.C19.exc_spec",
    "PauLie.C19.clo_a16", "PauLie.C19.clo_a11", "PauLie.C19.clo_a15", "PauLie.C19.clo_b4", "PauLie.C19.clo_a13",
    "PauLie.C19.clo_a20", "PauLie.C19.clo_a7", "PauLie.C19.count_qY", "PauLie.C19.count_tX0", "PauLie.C19.count_T13",
    "PauLie.C19.count_T7",
    "PauLie.C19.C19_a6", "PauLie.C19.C19_a10", "PauLie.C19.C19_a9", "PauLie.C19.C19_b2", "PauLie.C19.C19_a5", "PauLie.C19.C19_a3",
    "PauLie.C19.C19_dimension_last", "PauLie.C19.C19_dimension_all",
    "PauLie.C19.clo_transfer", "PauLie.C19.card_transfer", "PauLie.C19.clo_a6", "PauLie.C19.clo_a10", "PauLie.C19.clo_a9",
    "PauLie.C19.clo_b2", "PauLie.C19.clo_a5", "PauLie.C19.clo_a3", "PauLie.C19.clo_pat", "PauLie.C19.excG_spec",
    "PauLie.C19.closeN_sound", "PauLie.C19.clo_of_peelChkN", "PauLie.C19.count_T9", "PauLie.C19.count_TB2",
    "PauLie.C19.cntS_closed", "PauLie.C19.count_TP", "PauLie.C19.count_T5", "PauLie.C19.count_T3",
]
IMPORTS = CLOSURE_IMPORTS + ["PauLieVerif.Proofs.TieTwoLocal", "PauLieVerif.Properties.C19", "PauLieVerif.Properties.C19More",
    "PauLieVerif.Properties.C19Rows", "PauLieVerif.Properties.C19Su", "PauLieVerif.Properties.C19Rest", "PauLieVerif.Properties.C19Last"]

FAMILIES = ["a%d" % i for i in range(23)] + ["b%d" % i for i in range(5)]
KNOWN_N3 = ("a11", "a12", "a17")
WORKERS = 14

def canon_alg(text: str) -> str:
    """'su(4) + su(4) + u(1)' -> '[su(4),su(4),u(1)]' (protocol form of `invname`; not merged, invname merges)"""
    return "[" + ",".join((f"{k}*" if k != 1 else "") + f"{t}({m})" for t, m, k in parse_algebra(text)) + "]"

def run_model_parallel(lines, costs=None, workers=WORKERS):
    """cheap lines: one driver process per group; expensive lines (cost given): one process per line, most
    expensive first, at most `workers` at a time"""
    if len(lines) <= 1:
        return run_model(lines)
    costs = costs or [0] * len(lines)
    heavy = sorted([i for i in range(len(lines)) if costs[i] > 0], key=lambda i: -costs[i])
    light = [i for i in range(len(lines)) if costs[i] <= 0]
    out = [None] * len(lines)
    groups = [[i] for i in heavy] + [g for g in (light[w::workers] for w in range(workers)) if g]
    with cf.ThreadPoolExecutor(workers) as ex:
        for g, res in zip(groups, ex.map(lambda g: run_model([lines[i] for i in g]), groups)):
            for i, r in zip(g, res):
                out[i] = r
    return out

def parse_tl(out: str):
    """'gens=A,B table=text' -> ([A,B], text)"""
    m = re.fullmatch(r"gens=(\S+) table=(.*)", out)
    if not m:
        return None
    return lst(m.group(1)), m.group(2)

# largest n for which the full invariants of the closure are computed by the verified checker; above it only its size
INV_MAX_N = 7
# the verified enumerator is quadratic in the closure size: a closure of 65535 strings (the six su(256) rows at n=8)
# costs ~10 CPU-minutes each; unless VERIF_C19_FULL=1 those rows are sized by the Python brute-force oracle only
# (unverified second opinion, labelled as such).  A full run (2026-10-01, 1388 s) agreed on all 28 rows at n=8.
VERIFIED_MAX_SIZE = 40000
FULL = os.environ.get("VERIF_C19_FULL", "") == "1"

def closure_facts(jobs):
    """jobs: list of (gens, n, claimed dimension).  Returns for each 'size=.. z=.. simples=[..]' (n <= INV_MAX_N) or
    'size=..' from the Lean-verified closure checker ('size=.. python-only' where the verified run is skipped)."""
    out = [None] * len(jobs)
    lines, idx, costs = [], [], []
    for k, (gs, n, claimed) in enumerate(jobs):
        if n > INV_MAX_N and claimed > VERIFIED_MAX_SIZE and not FULL:
            out[k] = f"size={len(O.closure([O.enc(s) for s in gs]))} python-only"
            continue
        lines.append(G.line_of("inv" if n <= INV_MAX_N else "closure", gs)); idx.append(k)
        costs.append(len(gs) * claimed * claimed * (6 if n <= INV_MAX_N else 1) if n >= 7 else 0)
    res = run_model_parallel(lines, costs)
    for k, r in zip(idx, res):
        if jobs[k][1] <= INV_MAX_N:
            out[k] = r
        else:
            f = fields(r)
            out[k] = f"size={f.get('n')} flag={f.get('flag')}"
    return out

def oracle_table(lines, outs):
    """table vs. verified closure of the implementation's generators"""
    res = [None] * len(lines)
    jobs, idx, names = [], [], []
    for k, (l, o) in enumerate(zip(lines, outs)):
        t = l.split(" ")
        if t[0] != "tl":
            continue
        if o in ("out-of-domain", "!KeyError", "bad-op"):
            continue   # nothing claimed outside the table's domain
        p = parse_tl(o)
        if p is None or o.startswith("!"):
            res[k] = f"TABLE-ROW-UNUSABLE {l}: {o[:120]}"
            continue
        gs, text = p
        try:
            name = canon_alg(text)
        except ValueError as e:
            res[k] = f"TABLE-ROW-UNUSABLE {l}: {e}"
            continue
        jobs.append((gs, int(t[1]), sum(O.dim_name(ty, m) * c for ty, m, c in parse_algebra(text)))); idx.append(k); names.append(name)
    facts = closure_facts(jobs)
    invn = run_model([f"invname {a}" for a in names])
    for k, (gs, n, _), fc, nm, name in zip(idx, jobs, facts, invn, names):
        fam = lines[k].split(" ")[2]
        if "flag=F" in fc:
            res[k] = "verified closure checker ran out of fuel (cannot happen: closureList_exhausted)"
            continue
        c = fc.replace(" flag=T", "").replace(" python-only", "")
        if n > INV_MAX_N:
            nm = nm.split(" ")[0]      # dimension only
        if c != nm:
            res[k] = (f"TABLE-VS-CLOSURE family={fam} n={n}: the table names {name} with invariants [{nm}] but the commutator "
                      f"closure of the {len(gs)} translated generators has [{c}]")
            continue
        if n <= 5:
            p = py_inv(gs)
            if p != c:
                res[k] = f"ORACLE-DISAGREEMENT python {p} lean {c}"
        elif n <= 7:
            sz = len(O.closure([O.enc(s) for s in gs]))
            if f"size={sz}" != c.split(" ")[0]:
                res[k] = f"ORACLE-DISAGREEMENT python closure size {sz} lean {c}"
    return res

ARBITRATE_MAX_N = 5

def oracle_classifier(lines, outs):
    """classifier's report vs. the table, as invariants of the two names"""
    res = [None] * len(lines)
    idx, algs, names, meta = [], [], [], []
    for k, (l, o) in enumerate(zip(lines, outs)):
        t = l.split(" ")
        if t[0] != "tlclassify" or o in ("out-of-domain", "!KeyError", "bad-op"):
            continue
        f = fields(o)
        n, fam = int(t[1]), t[2]
        if o.startswith("!") or "alg" not in f or f["alg"].startswith("!"):
            res[k] = f"CLASSIFIER-FAILED family={fam} n={n}: {o[:120]}"
            continue
        try:
            name = canon_alg(impl_twolocal.table_text(n, fam))
        except ValueError as e:
            res[k] = f"TABLE-ROW-UNUSABLE {l}: {e}"
            continue
        idx.append(k); algs.append(f["alg"]); names.append(name); meta.append((n, fam))
    ia = run_model([f"invname {a}" for a in algs])
    it = run_model([f"invname {a}" for a in names])
    for k, a, b, alg, name, (n, fam) in zip(idx, ia, it, algs, names, meta):
        if a == "bad-op":
            res[k] = f"CLASSIFIER-VS-TABLE family={fam} n={n}: reported algebra {alg} is not a name of the family u/so/sp/su"
            continue
        if a != b:
            why = (f"CLASSIFIER-VS-TABLE family={fam} n={n}: the classifier reports {alg} [{a}] but the table names {name} [{b}]")
            if n <= ARBITRATE_MAX_N:
                gs = [pstr(p) for p in impl_twolocal.expansion(n, fam)]
                c = lean_inv([gs])[0].replace(" flag=T", "")
                who = "classifier" if c == a else ("table" if c == b else "neither")
                why += f"; closure [{c}] agrees with {who}"
            res[k] = why
    return res

def batch_oracle(lines, outs):
    r1 = oracle_table(lines, outs)
    r2 = oracle_classifier(lines, outs)
    return [a or b for a, b in zip(r1, r2)]

def known_match(stream, line, why):
    t = line.split(" ")
    if len(t) != 3 or t[1] != "3" or t[2] not in KNOWN_N3:
        return None
    if t[0] == "tl" and why.startswith(f"TABLE-VS-CLOSURE family={t[2]} n=3:"):
        return f"table-n3-{t[2]}"
    if t[0] == "tlclassify" and why.startswith(f"CLASSIFIER-VS-TABLE family={t[2]} n=3:") and why.endswith("agrees with classifier"):
        return f"table-n3-{t[2]}"
    return None

def canon(model_out: str) -> str:
    return impl_classify.strip_meta(model_out)

def tag(l, o):
    t = l.split(" ")
    if t[0] == "tl" and " table=" in o:
        text = o.split(" table=", 1)[1]
        return "row:" + re.sub(r"[0-9]+", "#", text.replace(" ", ""))
    if t[0] == "tlclassify":
        return "alg:" + re.sub(r"[0-9]+", "#", fields(o).get("alg", o)[:40])
    return t[0] + ":" + o[:20]

def nontrivial(l, o):
    t = l.split(" ")
    return len(t) == 3 and t[0] in ("tl", "tlclassify") and t[2] not in ("a0", "b0", "b1") and not o.startswith(("!", "out", "bad"))

def shrink(line):
    """smaller chain length, same family"""
    t = line.split(" ")
    if len(t) == 3 and t[1].isdigit():
        for m in range(3, int(t[1])):
            yield f"{t[0]} {m} {t[2]}"

def build_streams(rng, tier):
    th = tier == "thorough"
    h = impl_twolocal.handle
    kw = dict(batch_oracle=batch_oracle, canon=canon, tag=tag, nontrivial=nontrivial, shrink=shrink)
    nclo = 8 if th else 6
    ncls = 40 if th else 16
    fams = list(FAMILIES)
    closure_lines = [f"tl {n} {f}" for n in range(3, nclo + 1) for f in fams]
    # the closed forms beyond enumerable sizes: text/generator correspondence only (cheap), random n up to 40
    far = sorted({rng.randint(nclo + 1, 40) for _ in range(12 if th else 6)})
    classify_lines_ = [f"tlclassify {n} {f}" for n in range(3, ncls + 1) for f in fams]
    extra_n = [] if th else sorted({rng.randint(ncls + 1, 40) for _ in range(2)})
    classify_lines_ += [f"tlclassify {n} {f}" for n in extra_n for f in fams]
    rng.shuffle(classify_lines_)
    malformed = [f"tlgens {f}" for f in fams] + ["tlgens a23", "tlgens A0", "tlgens -", "tl 5 a23", "tl 4 c0", "tlclassify 4 zz",
                 "tl 2 a0", "tl 1 a3", "tl 0 b4", "tlclassify 2 a1", "tl 2 zz"]
    return [
        Stream("corpus", corpus_lines(PID), h, **kw),
        Stream("table-vs-closure", closure_lines, h, **kw),
        Stream("classifier-vs-table", classify_lines_, h, **kw),
        Stream("rows-beyond-enumeration", [f"tl {n} {f}" for n in far for f in fams], h,
               canon=canon, tag=tag, nontrivial=nontrivial, shrink=shrink),
        Stream("keys+malformed", malformed, h, canon=canon, tag=lambda l, o: "key:" + o[:12], nontrivial=lambda l, o: False),
    ]

RULE = ("all 28 families of G_LIE x chain lengths n: (i) n=3..6 (thorough ..8): invariants (size, centre, per simple type "
        "dim:series:copies; n=8: size only, and the six su(256) rows by the unverified Python oracle unless VERIF_C19_FULL=1) of the Lean-verified commutator closure of the implementation's translated generators vs. "
        "invariants of the algebra the table row names; (ii) n=3..16 plus two sampled n<=40 (thorough: every n=3..40, the range of the table tie): the classifier's report vs. "
        "the table row as invariants of the two names, arbitration by the closure for n<=5, classification compared with the model's; "
        "(iii) rows and generators for sampled n<=40 and unknown keys / n<3 compared with the model. non-trivial: non-abelian family")

def main(tier):
    return standard_main(PID, tier, "other", THEOREMS, IMPORTS, build_streams, known_match=known_match, rule=RULE,
        assumptions=["proved for all n>=3: the table tie on 3<=n<=40, name arithmetic and low-rank coincidences, and the families whose "
                     "translated generators commute pairwise (a0, b0, b1: closure = generators, count = number of u(1) summands), and closure + dimension of a1 (intervals, n(n-1)/2) and b3 (single-site strings, 3n); "
                     "the DIMENSION clause for all 28 families and every n>=3 (a11, a12, a17: n>=4) with the closure in closed form "
                     "(C19_dimension_all; nine families with all invariants, C19_rows)",
                     "decided per (family, n) by the verified closure checker run by the compiled model: every other family for n<=6 "
                     "(thorough n<=8, n=8 by dimension only and without the six rows whose closure has 65535 strings — those are sized by the Python oracle; a full verified run VERIF_C19_FULL=1 takes ~25 min and agreed on 2026-10-01); beyond that only classifier-vs-table agreement is observed",
                     "isomorphism is decided through invariants (dimension, centre, per connected block: copies, simple dimension, "
                     "centraliser count); that these determine the real Lie algebra of a Pauli DLA is the classification theorem of "
                     "arXiv:2408.00081 (assumed, not proved); the all-n content of the table is the two-local classification "
                     "(npj QI 10 (2024)) — not claimed"])

def replay(path):
    r = json.load(open(path)); line = r.get("line")
    out = impl_twolocal.handle(line); why = batch_oracle([line], [out])[0]
    print("line:", line); print("implementation:", out); print("model:", canon(run_model([line])[0])); print("oracle:", why or "holds")
    if why and known_lookup(PID, known_match("replay", line, why)):
        print("(known finding", known_match("replay", line, why) + ")")
        return 0
    return 1 if why else 0
