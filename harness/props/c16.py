"""C16 — quadratic symmetries span the commutant of {g(x)1 + 1(x)g} and the second-moment twirl is the
orthogonal projector onto it."""
from __future__ import annotations
import os
# many small dense problems: BLAS worker threads only hurt (and oversubscribe a shared machine); must be set before numpy loads
for _v in ("OPENBLAS_NUM_THREADS", "OMP_NUM_THREADS", "MKL_NUM_THREADS"):
    os.environ.setdefault(_v, "1")
import itertools, json, math, random, zlib
from fractions import Fraction
import numpy as np
from common import *
from engine import *
import gens as G
import impl_linear as IL
import impl_secondmoment as S
from impl_linear import coef_exact

PID = "C16"

# ====================================================================== filled in by the Lean side
THEOREMS = [
    # filled in by the Lean side
    "PauLie.C16.C16_basis", "PauLie.C16.C16_basis_empty", "PauLie.C16.C16_symmetries_commute",
    "PauLie.C16.C16_symmetries_orthogonal", "PauLie.C16.C16_twirl_formula", "PauLie.C16.C16_twirl_linear",
    "PauLie.C16.C16_twirl_idempotent", "PauLie.C16.C16_twirl_fixes", "PauLie.C16.C16_twirl_commutes",
    "PauLie.C16.C16_twirl_residual", "PauLie.C16.C16_twirl_selfadjoint", "PauLie.C16.C16_count_le", "PauLie.C16.C16_partial",
    # completeness half (Properties/C16Complete.lean)
    "PauLie.C16.C16_complete", "PauLie.C16.C16_complete_lin", "PauLie.C16.C16_count", "PauLie.C16.C16_complete_count",
    "PauLie.C16.C16_twirl_is_projection", "PauLie.C16.C16_full",
]
IMPORTS = [
    # filled in by the Lean side
    "PauLieVerif.Properties.C16",
    "PauLieVerif.Properties.C16Complete",
]
# ======================================================================
if os.environ.get("C16_NOPROOF"):
    THEOREMS, IMPORTS = [], []

TOL = 1e-9

# ------------------------------------------------------------------ independent dense oracle
_S1 = {"I": np.array([[1, 0], [0, 1]], dtype=complex), "X": np.array([[0, 1], [1, 0]], dtype=complex),
       "Y": np.array([[0, -1j], [1j, 0]]), "Z": np.array([[1, 0], [0, -1]], dtype=complex)}
_DC: dict = {}

def dense(s):
    """own Kronecker product of the single-qubit matrices (cached for short strings only)"""
    m = _DC.get(s)
    if m is not None:
        return m
    if len(s) > 4:                        # two cached halves, one Kronecker product
        h = len(s) // 2
        return np.kron(dense(s[:h]), dense(s[h:]))
    m = np.array([[1]], dtype=complex)
    for ch in s:
        m = np.kron(m, _S1[ch])
    _DC[s] = m
    return m

def dmat(terms, nq):
    m = np.zeros((2 ** nq, 2 ** nq), dtype=complex)
    for c, p in terms:
        m = m + c * dense(p)
    return m

def strs(arg):
    return [] if arg == "-" else ["" if s == "-" else s for s in arg.split(",")]

def pad(gs):
    L = max((len(g) for g in gs), default=0)
    return [g + "I" * (L - len(g)) for g in gs]

def gen_ops(gs, n):
    """the matrices g(x)1 + 1(x)g of the distinct members"""
    one = np.eye(2 ** n, dtype=complex)
    return [(g, np.kron(dense(g), one) + np.kron(one, dense(g))) for g in dict.fromkeys(gs)]

def parse_terms(s):
    """[(complex, str)] of a protocol combination; raises on text outside the grammar"""
    if s == "-":
        return []
    out = []
    for t in s.split(","):
        c, p = t.split("*")
        re_, im_ = coef_exact(c)
        p = "" if p == "-" else p
        if any(ch not in "IXYZ" for ch in p):
            raise ValueError(t)
        out.append((complex(float(re_), float(im_)), p))
    return out

def as_dict(terms):
    d = {}
    for c, p in terms:
        d[p] = d.get(p, 0j) + c
    return d

def close(a, b, tol=TOL):
    a, b = np.asarray(a, dtype=complex), np.asarray(b, dtype=complex)
    if a.shape != b.shape:
        return False
    if not a.size:
        return True
    scale = max(1.0, float(np.max(np.abs(a))), float(np.max(np.abs(b))))
    return bool(np.max(np.abs(a - b)) <= tol * scale)

# ---- dimension of the commutant of {g(x)1+1(x)g}, computed in the Pauli basis of the 2n-qubit operators
_P1 = {}
for _a in "IXYZ":
    _P1[("I", _a)] = (0, _a); _P1[(_a, "I")] = (0, _a); _P1[(_a, _a)] = (0, "I")
for _a, _b, _c in (("X", "Y", "Z"), ("Y", "Z", "X"), ("Z", "X", "Y")):
    _P1[(_a, _b)] = (1, _c); _P1[(_b, _a)] = (3, _c)          # XY = iZ, YX = -iZ, ...

def pmul(a, b):
    """a*b = i^k * string (own single-site table)"""
    k, out = 0, []
    for x, y in zip(a, b):
        e, c = _P1[(x, y)]
        k += e; out.append(c)
    return k & 3, "".join(out)

NUMERIC_BLOCK_MAX = 1500

def commutant_dim(gs, n):
    """dimension of {X on 2n qubits : [X, g(x)1+1(x)g] = 0 for all g}.  X = sum_P x_P P; for a Pauli A,
    [P, A] = 0 if they commute and 2 i^k (PA) (k odd) otherwise, so [X, A_g] = 2i * sum_R (sum +-x_P) R: one real
    equation per (g, R) with at most two unknowns (P = R*(g(x)1) and P = R*(1(x)g)).
    Returns (exact, numeric): `exact` solves this system combinatorially per connected block (a block of the
    sparsity pattern contributes 1 iff no unknown is pinned to 0 and the sign constraints are consistent, else 0);
    `numeric` is the number of eigenvalues below tolerance of L = N^T N per block (numpy eigvalsh), None if a block is
    larger than NUMERIC_BLOCK_MAX."""
    N = 2 * n
    cols = ["".join(t) for t in itertools.product("IXYZ", repeat=N)]
    idx = {p: i for i, p in enumerate(cols)}
    rows = {}
    for j, g in enumerate(dict.fromkeys(gs)):
        for A in (g + "I" * n, "I" * n + g):
            if A == "I" * N:
                continue
            for ci, P in enumerate(cols):
                k, R = pmul(P, A)
                if k & 1:                                   # anticommute: P A = -A P
                    rows.setdefault((j, R), []).append((ci, 1.0 if k == 1 else -1.0))
    adj = [[] for _ in cols]
    pinned = [False] * len(cols)
    for r in rows.values():
        if len(r) == 1:
            pinned[r[0][0]] = True
        elif len(r) == 2:
            (c1, v1), (c2, v2) = r
            s = -v1 * v2                                    # v1 x1 + v2 x2 = 0  =>  x2 = s x1
            adj[c1].append((c2, s)); adj[c2].append((c1, s))
        else:
            raise AssertionError("more than two unknowns in one equation")
    comp = [-1] * len(cols)
    sign = [0.0] * len(cols)
    blocks = []
    exact = 0
    for root in range(len(cols)):
        if comp[root] >= 0:
            continue
        b = len(blocks); comp[root] = b; sign[root] = 1.0
        members, stack, ok = [root], [root], True
        while stack:
            u = stack.pop()
            for v, s in adj[u]:
                if comp[v] < 0:
                    comp[v] = b; sign[v] = s * sign[u]; members.append(v); stack.append(v)
                elif sign[v] != s * sign[u]:
                    ok = False
        if any(pinned[m] for m in members):
            ok = False
        blocks.append(members)
        exact += 1 if ok else 0
    # numeric second opinion
    numeric = 0
    brow = [[] for _ in blocks]
    for r in rows.values():
        brow[comp[r[0][0]]].append(r)
    for b, members in enumerate(blocks):
        if not brow[b]:
            numeric += len(members)
            continue
        if len(members) > NUMERIC_BLOCK_MAX:
            return exact, None
        loc = {c: i for i, c in enumerate(members)}
        L = np.zeros((len(members), len(members)))
        for r in brow[b]:
            for c1, v1 in r:
                for c2, v2 in r:
                    L[loc[c1], loc[c2]] += v1 * v2
        ev = np.linalg.eigvalsh(L)
        numeric += int(np.sum(ev < 1e-8 * max(1.0, float(ev[-1]))))
    return exact, numeric

# ---- the property on a printed basis
GRAM_MAX = 1024

def check_basis(gs, n, syms, seed_text="", completeness=True):
    """syms: list of term lists [(complex, str)] on 2n qubits.  Returns why|None."""
    N = 2 * n
    D = 2 ** N
    ops = gen_ops(gs, n)
    m = len(syms)
    if m == 0:
        return "the basis is empty although the collection is not (1(x)1 is always a symmetry)"
    # (i) commutation, in chunks
    CH = 256
    flat = []
    for lo in range(0, m, CH):
        Q = np.stack([dmat(q, N) for q in syms[lo:lo + CH]])
        for g, A in ops:
            C = Q @ A - A @ Q
            bad = np.max(np.abs(C), axis=(1, 2))
            k = int(np.argmax(bad))
            if bad[k] > TOL * max(1.0, float(np.max(np.abs(Q[k])))):
                return (f"symmetry {show_terms(syms[lo + k])} does not commute with g(x)1+1(x)g for g={g} "
                        f"(|[Q,A]|max={bad[k]:.3g})")
        nz = np.max(np.abs(Q), axis=(1, 2))
        if float(np.min(nz)) <= TOL:
            return f"symmetry {show_terms(syms[lo + int(np.argmin(nz))])} is the zero matrix"
        if m <= GRAM_MAX:
            flat.append(Q.reshape(len(Q), -1))
    # (ii) trace-orthogonality (dense Gram matrix; a seeded sample of GRAM_MAX symmetries when the basis is larger,
    #      plus disjointness of the Pauli supports of all of them)
    if m <= GRAM_MAX:
        V = np.concatenate(flat)
        sel = list(range(m))
    else:
        r = random.Random(zlib.crc32(seed_text.encode()))
        sel = sorted(r.sample(range(m), GRAM_MAX))
        V = np.stack([dmat(syms[i], N).reshape(-1) for i in sel])
        seen = {}
        for i, q in enumerate(syms):
            for p, c in as_dict(q).items():
                if abs(c) > 0:
                    if p in seen:
                        return (f"symmetries {show_terms(syms[seen[p]])} and {show_terms(q)} share the string {p} "
                                f"(basis of {m} symmetries: supports checked for all, dense Gram on a sample)")
                    seen[p] = i
    Gm = V.conj() @ V.T
    dg = np.real(np.diag(Gm)).copy()
    if float(np.min(dg)) <= TOL:
        return f"tr(Q†Q) is not positive for {show_terms(syms[sel[int(np.argmin(dg))]])}"
    off = np.abs(Gm - np.diag(np.diag(Gm)))
    if float(np.max(off)) > TOL * D:
        i, j = np.unravel_index(int(np.argmax(off)), off.shape)
        return (f"symmetries {show_terms(syms[sel[i]])} and {show_terms(syms[sel[j]])} are not trace-orthogonal "
                f"(tr(Q†Q')={Gm[i, j]:.3g})")
    # (iii) completeness
    if completeness:
        exact, numeric = commutant_dim(gs, n)
        if numeric is not None and numeric != exact:
            return f"ORACLE-DISAGREEMENT on the commutant dimension of {','.join(gs)}: exact {exact}, numpy {numeric}"
        if m != exact:
            return (f"{m} symmetries returned, but the space of 2n-qubit operators commuting with every g(x)1+1(x)g "
                    f"has dimension {exact} for G={','.join(gs)}")
    return None

def show_terms(terms, cap=6):
    t = ",".join(f"{IL.coef_out(c)}*{p or '-'}" for c, p in terms[:cap])
    return t + (",..." if len(terms) > cap else "")

COMPLETENESS_MAXN = {"quick": 2, "thorough": 3}
_TIER = ["quick"]

# ---- ONE collection object: basis / twirl asked, the collection edited through its public API (append, insert, remove,
# delete by index, replace, contract, sort), asked again.  Each answer must be the one a freshly built collection with the
# strings held at that moment gives (and that one is judged by the qbasis oracle).
def qhist_handle(line):
    import impl_collection as IC, props.c10 as C10
    try:
        _, gs, ops = line.split(" ")
        c = IC.mk(IC.strs(gs))
        def observe(when):
            cur = IC.names(c)
            if not cur or not cur[0] or len(set(map(len, cur))) != 1:
                return None
            live = guard(lambda: S.show_basis(c.get_full_quadratic_basis()))
            arg = ",".join(cur)
            fresh = S.handle("qbasis " + arg)
            if live != fresh:
                return (f"{when}: get_full_quadratic_basis() on the edited collection {cur} gives {live[:160]}, a freshly built collection "
                        f"with the same strings gives {fresh[:160]}")
            why = oracle_qbasis("qbasis " + arg, fresh)
            return f"{when}: {why}" if why else None
        why = observe("before any edit")
        if why:
            return why
        done = []
        for op in ([] if ops == "-" else ops.split(";")):
            try:
                c = IC.edit(c, op.split(":"))
            except Exception:
                pass
            done.append(op)
            why = observe("after " + ";".join(done))
            if why:
                return why
        return "ok"
    except Exception as e:
        return exc_name(e)

def gen_qhist(rng, k):
    import props.c10 as C10
    out = []
    for _ in range(k):
        n = rng.choice([1, 2, 2])
        cur = [G.rs(rng, n) for _ in range(rng.randint(1, 3))]
        init = list(cur)
        ops = []
        for _ in range(rng.randint(1, 3)):
            kind = rng.choice(["app", "ins", "rem", "del", "del", "rep", "con", "sort"])
            if kind == "app": t = [kind, G.rs(rng, n)]
            elif kind == "ins": t = [kind, str(rng.randint(0, len(cur))), G.rs(rng, n)]
            elif kind == "rem" and cur: t = [kind, rng.choice(cur)]
            elif kind == "del" and cur: t = [kind, str(rng.randint(-len(cur), len(cur) - 1))]
            elif kind == "rep" and cur: t = [kind, rng.choice(cur), G.rs(rng, n)]
            elif kind == "con" and len(cur) >= 2: t = [kind] + rng.sample(cur, 2)
            else: t = ["sort"]
            cur = C10.spec_edit(cur, t)
            ops.append(":".join(t))
        out.append(f"qhist {','.join(init)} {';'.join(ops)}")
    return out

def oracle_qbasis(line, out):
    t = line.split(" ")
    if out.startswith("?") or out == "bad-op":
        return f"implementation returned {out[:120]}"
    gs = pad(strs(t[1]))
    if not gs or not gs[0]:
        return None                       # empty collection / no qubits: outside the property's domain
    n = len(gs[0])
    if out.startswith("!"):
        return f"get_full_quadratic_basis raised {out[1:]} on the non-empty collection {','.join(gs)}"
    if n > 3:
        return None
    try:
        syms = [] if out == "-" else [parse_terms(x) for x in out.split("|")]
    except Exception as e:
        return f"basis text outside the grammar: {e}"
    for q in syms:
        if not q or any(len(p) != 2 * n for _, p in q):
            return f"symmetry {show_terms(q)} is not a combination of strings on 2n={2 * n} qubits"
    return check_basis(gs, n, syms, seed_text=line, completeness=n <= COMPLETENESS_MAXN[_TIER[0]])

# ---- independent orthogonal projector onto the commutant (n <= 2): null space of X -> ([A_g, X])_g, dense
_PROJ = {}
def commutant_projector(gs, n):
    key = tuple(dict.fromkeys(gs))
    P = _PROJ.get(key)
    if P is None:
        D = 4 ** n
        one = np.eye(D, dtype=complex)
        L = np.zeros((D * D, D * D), dtype=complex)
        for _, A in gen_ops(gs, n):
            K = np.kron(A, one) - np.kron(one, A.T)          # row-major vec of AX - XA
            L = L + K.conj().T @ K
        ev, U = np.linalg.eigh(L)
        V0 = U[:, ev < 1e-8 * max(1.0, float(ev[-1]))]
        P = V0 @ V0.conj().T
        if len(_PROJ) > 64:
            _PROJ.clear()
        _PROJ[key] = P
    return P

# ---- implementation's basis per collection text (for the generator, the tags and the "every symmetry" clauses)
_BASIS = {}
def impl_basis(g):
    """list of term lists [(complex, str)] of the implementation's unnormalised basis; None if it raises"""
    if g not in _BASIS:
        if len(_BASIS) > 4000:
            _BASIS.clear()
        try:
            _BASIS[g] = [S.terms_of(q) for q in S.basis(g)]
        except Exception:
            _BASIS[g] = None
    return _BASIS[g]

def line_rng(line):
    return random.Random(zlib.crc32(line.encode()))

def py_scalar(z):
    z = complex(z)
    return z.real if z.imag == 0 else z

def twirl_dense(terms, g, N):
    """dense matrix of second_moment(terms, G) on the library, or a text describing what went wrong"""
    try:
        r = S.twirl_obj([(py_scalar(c), p) for c, p in terms], g)
    except Exception as e:
        return f"raised {type(e).__name__}"
    out = S.terms_of(r)
    if any(len(p) != N and c != 0 for c, p in out):
        return f"returned strings of the wrong length: {show_terms(out)}"
    return dmat([(c, p) for c, p in out if len(p) == N], N)

FIX_SAMPLE = 12

def oracle_twirl_property(line, out):
    """the projector clauses on the implementation (dense numpy); None when the input is outside the domain"""
    t = line.split(" ")
    if out.startswith("?") or out == "bad-op":
        return f"implementation returned {out[:120]}"
    gs = pad(strs(t[1]))
    try:
        M = parse_terms(t[2])
    except Exception:
        return None
    if not gs or not gs[0] or not M:
        return None
    n = len(gs[0]); N = 2 * n
    if n > 3 or any(len(p) != N for _, p in M):
        return None
    if out.startswith("!"):
        return f"second_moment raised {out[1:]} on a {N}-qubit operator and a non-empty collection on {n} qubits"
    try:
        R = parse_terms(out)
    except Exception as e:
        return f"result text outside the grammar: {e}"
    if any(len(p) != N and c != 0 for c, p in R):
        return f"result {out[:100]} is not a combination of strings on {N} qubits"
    R = [(c, p) for c, p in R if len(p) == N]
    DM, TM = dmat(M, N), dmat(R, N)
    g = t[1]
    ops = gen_ops(gs, n)
    sc = max(1.0, float(np.max(np.abs(DM))))
    # OUTPUT COMMUTES
    for gg, A in ops:
        C = TM @ A - A @ TM
        if float(np.max(np.abs(C))) > TOL * sc:
            return f"the twirl does not commute with g(x)1+1(x)g for g={gg} (|[T(M),A]|max={np.max(np.abs(C)):.3g})"
    # RESIDUAL orthogonal to every symmetry of the implementation's basis; FIXES (sampled)
    B = impl_basis(g)
    if B is None:
        return "get_full_quadratic_basis raised although second_moment returned"
    if not B:
        return "the basis is empty although the collection is not"
    Res = DM - TM
    for lo in range(0, len(B), 256):
        Q = np.stack([dmat(q, N) for q in B[lo:lo + 256]])
        ip = np.einsum("kij,ij->k", Q.conj(), Res)
        k = int(np.argmax(np.abs(ip)))
        if abs(ip[k]) > TOL * sc * 4 ** n * max(1, len(B[lo + k])):
            return f"the residual M - T(M) is not trace-orthogonal to the symmetry {show_terms(B[lo + k])} (tr(Q†(M-T(M)))={ip[k]:.3g})"
    rnd = line_rng(line)
    # INDEPENDENT PROJECTOR (n <= 2): T(M) is the orthogonal projection onto the commutant computed densely
    if n <= 2:
        want = (commutant_projector(gs, n) @ DM.reshape(-1)).reshape(DM.shape)
        if not close(TM, want):
            return (f"the twirl is not the orthogonal projection of M onto the commutant of {{g(x)1+1(x)g}} "
                    f"(max deviation {np.max(np.abs(TM - want)):.3g})")
    # IDEMPOTENT
    TT = twirl_dense(R, g, N)
    if isinstance(TT, str):
        return f"T(T(M)) {TT}"
    if not close(TT, TM):
        return f"not idempotent: T(T(M)) differs from T(M) by {np.max(np.abs(TT - TM)):.3g}"
    # LINEAR
    M2, c = second_operand(rnd, M, B, N, dyadic=is_dyadic_line(line))
    T2 = twirl_dense(M2, g, N)
    Tsum = twirl_dense(list(M) + [(c * c2, p) for c2, p in M2], g, N)
    if isinstance(T2, str) or isinstance(Tsum, str):
        return f"T(M2) / T(M + c M2) {T2 if isinstance(T2, str) else Tsum} for M2={show_terms(M2)}"
    if not close(Tsum, TM + c * T2):
        return (f"not linear: T(M + c M2) differs from T(M) + c T(M2) by {np.max(np.abs(Tsum - TM - c * T2)):.3g} "
                f"for c={c} M2={show_terms(M2)}")
    # FIXES every symmetry
    pick = list(range(len(B))) if len(B) <= FIX_SAMPLE else rnd.sample(range(len(B)), FIX_SAMPLE)
    multi = [i for i in range(len(B)) if len(B[i]) >= 2]
    if len(B) > FIX_SAMPLE and multi and not any(len(B[i]) >= 2 for i in pick):
        pick[0] = rnd.choice(multi)
    for i in pick:
        TQ = twirl_dense(B[i], g, N)
        if isinstance(TQ, str):
            return f"T(Q) {TQ} for the symmetry Q={show_terms(B[i])}"
        if not close(TQ, dmat(B[i], N)):
            return f"the symmetry Q={show_terms(B[i])} is not fixed: |T(Q)-Q|max={np.max(np.abs(TQ - dmat(B[i], N))):.3g}"
    return None

def second_operand(rnd, M, B, N, dyadic):
    """M2 and the scalar c of the linearity clause, determined by the line"""
    k = rnd.choice([1, 1, 2, 3])
    M2 = []
    for _ in range(k):
        r = rnd.random()
        if r < 0.35 and M:
            p = rnd.choice(M)[1]
        elif r < 0.7 and B:
            p = rnd.choice(rnd.choice(B))[1]
        else:
            p = "".join(rnd.choice("IXYZ") for _ in range(N))
        if dyadic:
            c2 = complex(rnd.choice([1, -1, 2, 3, -5]) / rnd.choice([1, 2, 4, 64]), rnd.choice([0, 0, 1, -3]) / rnd.choice([1, 2, 8]))
        else:
            c2 = complex(rnd.gauss(0, 1), rnd.choice([0.0, rnd.gauss(0, 1)]))
        M2.append((c2, p))
    c = complex(rnd.choice([1, -2, 3, 5]) / rnd.choice([1, 2, 4, 16]), rnd.choice([0, 1, -1, 3]) / rnd.choice([1, 2, 4]))
    return M2, c

# ------------------------------------------------------------------ correspondence (custom: floats in the source)
def is_dyadic_tok(tok):
    a, b, d = (int(x) for x in tok.split("_"))
    return not (d & (d - 1)) and 0 < d <= 2 ** 12 and abs(a) < 2 ** 20 and abs(b) < 2 ** 20

def is_dyadic_line(line):
    t = line.split(" ")
    if len(t) != 3 or t[2] == "-":
        return True
    try:
        return all(is_dyadic_tok(x.split("*")[0]) for x in t[2].split(","))
    except Exception:
        return True

def exact_dict(s):
    """{string: complex} of a reply"""
    return as_dict(parse_terms(s))

def correspond(line, io, mo, mode):
    """None or 'model/implementation differ: ...'"""
    def differ(what):
        return f"model/implementation differ: {what}; model {mo[:160]} implementation {io[:160]}"
    if io.startswith("?"):
        return f"implementation returned {io[:160]}"
    if not line.startswith("twirl "):
        return None if io == mo else differ("texts")
    if io.startswith("!") or mo.startswith("!"):
        return None if io == mo else differ("error outcome")
    try:
        di, dm = exact_dict(io), exact_dict(mo)
    except Exception:
        return None if io == mo else differ("texts (outside the term grammar)")
    scale = max([1.0] + [abs(v) for v in dm.values()] + [abs(v) for v in di.values()])
    if mode == "dyadic":
        ki, km = {k for k, v in di.items() if v != 0}, {k for k, v in dm.items() if v != 0}
        if ki != km:
            return differ(f"strings with a non-zero coefficient differ ({','.join(sorted(ki ^ km)[:4])})")
        if not km and io != mo:
            return differ("spelling of the zero result")
    for k in set(di) | set(dm):
        a, b = di.get(k, 0j), dm.get(k, 0j)
        if abs(a - b) > TOL * scale:
            return differ(f"coefficient of {k or '-'}: {b} (model, exact) vs {a}")
    return None

def make_batch(mode):
    """correspondence with the model (one driver call for all lines) AND the property on the implementation"""
    def batch(lines, outs):
        try:
            mos = run_model(lines)
        except Exception as e:
            return [f"model/implementation differ: model driver failed ({str(e)[:100]})"] * len(lines)
        res = []
        for l, io, mo in zip(lines, outs, mos):
            md = mode if mode != "auto" else ("dyadic" if is_dyadic_line(l) else "float")
            # the property on the implementation first (the stronger finding), then the correspondence with the model
            why = oracle_twirl_property(l, io) if l.startswith("twirl ") else oracle_qbasis(l, io) if l.startswith("qbasis ") else None
            res.append(why or correspond(l, io, mo, md))
        return res
    return batch

# ------------------------------------------------------------------ generators
def ctok(re_, im_=Fraction(0)):
    d = math.lcm(Fraction(re_).denominator, Fraction(im_).denominator)
    return f"{int(re_ * d)}_{int(im_ * d)}_{d}"

def rand_dyadic(rng, small=False):
    if small or rng.random() < 0.5:
        return Fraction(rng.choice([0, 1, -1, 2, -2, 3, 1, -1]), rng.choice([1, 1, 2, 4]))
    return Fraction(rng.randint(-255, 255), 2 ** rng.randint(0, 6))

def rand_coef(rng):
    m = rng.random()
    if m < 0.3:
        return rand_dyadic(rng), Fraction(0)
    if m < 0.45:
        return Fraction(0), rand_dyadic(rng)
    if m < 0.5:
        return Fraction(0), Fraction(0)
    return rand_dyadic(rng), rand_dyadic(rng)

def dyadic_tok(rng):
    return ctok(*rand_coef(rng))

def ftok(re_, im_):
    """exact dyadic spelling of a pair of doubles; impl_linear.coef_in gives back exactly these doubles"""
    a, da = float(re_).as_integer_ratio()
    b, db = float(im_).as_integer_ratio()
    d = max(da, db)
    tok = f"{a * (d // da)}_{b * (d // db)}_{d}"
    back = complex(IL.coef_in(tok))
    assert d & (d - 1) == 0 and back.real == re_ and back.imag == im_, (re_, im_, tok)
    return tok

def float_pair(rng):
    m = rng.random()
    if m < 0.08: return (0.0, 0.0)
    if m < 0.28: return (rng.uniform(-3, 3), 0.0)
    if m < 0.38: return (0.0, rng.uniform(-3, 3))
    if m < 0.48: return (rng.choice([0.1, 0.2, -0.3, 1 / 3, 1e-3, 1e3]), rng.choice([0.0, 0.7, -1.0]))
    if m < 0.60: return (rng.gauss(0, 1) * 1e-13, rng.choice([0.0, rng.gauss(0, 1) * 1e-13]))
    return (rng.gauss(0, 1), rng.gauss(0, 1))

def rand_str(rng, n):
    return "".join(rng.choice("IXYZ") for _ in range(n))

KINDS = ["random", "random", "sparse", "commuting", "2local", "path", "union"]

def gen_coll(rng, maxn):
    gs = list(G.collection(rng, maxn, 4 if maxn <= 2 else 5, rng.choice(KINDS)))
    n = len(gs[0])
    r = rng.random()
    if r < 0.15:
        gs.insert(rng.randint(0, len(gs)), rng.choice(gs))                 # duplicate
    elif r < 0.3:
        gs.insert(rng.randint(0, len(gs)), "I" * n)                        # identity string
    elif r < 0.45 and n >= 2:
        i = rng.randrange(len(gs))                                         # different lengths: the constructor pads
        gs[i] = gs[i][:rng.randint(1, n - 1)]
    return gs

def gtext(gs):
    return ",".join(g or "-" for g in gs) or "-"

def gen_qbasis(rng, tier):
    th = tier == "thorough"
    lines = []
    one = list("IXYZ")
    lines += [f"qbasis {a}" for a in one] + [f"qbasis {a},{b}" for a in one for b in one]
    two = ["".join(t) for t in itertools.product("IXYZ", repeat=2)]
    lines += [f"qbasis {a}" for a in two]
    pairs = [(a, b) for a in two for b in two]
    lines += [f"qbasis {a},{b}" for a, b in (pairs if th else rng.sample(pairs, 40))]
    if th:
        lines += [f"qbasis {','.join(rng.sample(two, 3))}" for _ in range(200)]
        three = ["".join(t) for t in itertools.product("IXYZ", repeat=3)]
        lines += [f"qbasis {a}" for a in three]
        lines += [f"qbasis {','.join(rng.sample(three, 2))}" for _ in range(60)]
    for _ in range(800 if th else 300):
        lines.append("qbasis " + gtext(gen_coll(rng, 2)))
    if th:
        for _ in range(260):
            gs = gen_coll(rng, 3)
            lines.append("qbasis " + gtext(gs))
    return list(dict.fromkeys(lines))

def gen_M(rng, g, N, coef):
    """<= 6 terms (plus exact cancelling partners) on N qubits; about half of the strings from the supports
    S(x)(L.S) of the implementation's symmetries"""
    B = impl_basis(g) or []
    multi = [q for q in B if len(q) >= 2]
    pool = [rand_str(rng, N) for _ in range(rng.randint(1, 3))] + ["I" * N]
    k = rng.choice([1, 1, 2, 2, 3, 3, 4, 5, 6])
    terms = []
    if B and rng.random() < 0.25:
        q = rng.choice(multi) if multi and rng.random() < 0.7 else rng.choice(B)
        sub = q if len(q) <= 4 else rng.sample(q, rng.randint(2, 4))
        if rng.random() < 0.5:                                 # a multiple of (a part of) the symmetry itself
            lam = coef(rng)
            for c, p in sub:
                terms.append((("sym", lam, c), p))
        else:
            for c, p in sub:
                terms.append((coef(rng), p))
    while len(terms) < k:
        r = rng.random()
        if r < 0.5 and B:
            q = rng.choice(multi) if multi and rng.random() < 0.6 else rng.choice(B)
            p = rng.choice(q)[1]
        elif r < 0.8:
            p = rng.choice(pool)
        else:
            p = rand_str(rng, N)
        terms.append((coef(rng), p))
    terms = terms[:6]
    rng.shuffle(terms)
    return terms

def gen_twirl(rng, count, maxn_weights, dyadic):
    lines = []
    while len(lines) < count:
        maxn = rng.choice(maxn_weights)
        gs = gen_coll(rng, maxn)
        g = gtext(gs)
        N = 2 * max(len(x) for x in gs)
        for _ in range(rng.choice([1, 2, 3])):
            if dyadic:
                raw = gen_M(rng, g, N, rand_coef)
                toks = []
                for c, p in raw:
                    if c[0] == "sym":                          # lam * (coefficient of the symmetry: +-1, +-i)
                        z = complex(c[2]); lam = c[1]
                        w = {1: (lam[0], lam[1]), -1: (-lam[0], -lam[1]), 1j: (-lam[1], lam[0]), -1j: (lam[1], -lam[0])}.get(z, lam)
                        toks.append(f"{ctok(*w)}*{p}")
                    else:
                        toks.append(f"{ctok(*c)}*{p}")
            else:
                raw = gen_M(rng, g, N, float_pair)
                toks = []
                for c, p in raw:
                    if c[0] == "sym":
                        z = complex(c[1][0], c[1][1]) * complex(c[2])
                        c = (z.real, z.imag)
                    toks.append(f"{ftok(*c)}*{p}")
                    if rng.random() < 0.15:
                        toks.append(f"{ftok(-c[0], -c[1])}*{p}")     # exact cancellation
                rng.shuffle(toks)
            lines.append(f"twirl {g} {','.join(toks)}")
    return lines[:count]

def gen_malformed(rng, count):
    lines = ["qbasis -", "twirl - -", "twirl - 1_0_1*XX", "twirl X -", "twirl X 1_0_1*X", "twirl X 1_0_1*XXX",
             "twirl X,ZZ 1_0_1*XX", "twirl X,ZZ 1_0_1*XXII,1_0_1*XX", "qbasis X,ZZ,YIY", "twirl XY,Z 1_0_1*XYZI,1_0_2*ZIII"]
    while len(lines) < count:
        gs = gen_coll(rng, 2)
        n = max(len(x) for x in gs)
        N = 2 * n
        m = rng.random()
        M = [(rand_coef(rng), rand_str(rng, N)) for _ in range(rng.randint(1, 4))]
        if m < 0.25:                                           # wrong number of qubits
            w = rng.choice([n, N - 1, N + 1, N + 2, 1])
            M = [(c, rand_str(rng, w)) for c, _ in M]
        elif m < 0.45:                                         # mixed lengths inside M
            i = rng.randrange(len(M))
            M[i] = (M[i][0], rand_str(rng, rng.choice([N - 1, N + 1, n, 1])))
        elif m < 0.55:
            M = []
        elif m < 0.7:
            gs = []
        elif m < 0.9:                                          # mixed lengths inside G (padding)
            gs = gs + [rand_str(rng, rng.randint(1, 3))]
            if rng.random() < 0.5:
                rng.shuffle(gs)
        else:                                                  # first term of M shorter: size taken from the first term
            M = [(rand_coef(rng), rand_str(rng, rng.choice([1, n])))] + M
        mt = ",".join(f"{ctok(*c)}*{p}" for c, p in M) or "-"
        lines.append(f"twirl {gtext(gs)} {mt}" if rng.random() < 0.75 else f"qbasis {gtext(gs)}")
    return list(dict.fromkeys(lines))

# ------------------------------------------------------------------ shrinking / tags
def shrink(line):
    t = line.split(" ")
    gs = t[1].split(",") if t[1] != "-" else []
    for i in range(len(gs)):                                   # drop a generator
        if len(gs) > 1:
            u = list(t); u[1] = ",".join(gs[:i] + gs[i + 1:])
            yield " ".join(u)
    if t[0] == "twirl" and len(t) == 3 and t[2] != "-":
        terms = t[2].split(",")
        for k in range(len(terms)):                            # drop a term of M
            if len(terms) > 1:
                u = list(t); u[2] = ",".join(terms[:k] + terms[k + 1:])
                yield " ".join(u)
        for k in range(len(terms)):                            # simplify a coefficient
            c, p = terms[k].split("*")
            if c != "1_0_1":
                u = list(t); u[2] = ",".join(terms[:k] + ["1_0_1*" + p] + terms[k + 1:])
                yield " ".join(u)

def _bucket(m):
    return "0" if m == 0 else "1-4" if m <= 4 else "5-16" if m <= 16 else "17-64" if m <= 64 else "65-256" if m <= 256 else ">256"

def basis_info(line, out):
    """(size, has a symmetry with >= 2 terms) of the implementation's basis for the collection of the line"""
    t = line.split(" ")
    if t[0] == "qbasis":
        if out.startswith(("!", "?")) or out in ("-", "bad-op"):
            return 0, False
        q = out.split("|")
        return len(q), any("," in x for x in q)
    B = impl_basis(t[1]) if len(t) > 1 else None
    if not B:
        return 0, False
    return len(B), any(len(q) >= 2 for q in B)

def tag(line, out):
    t = line.split(" ")
    gs = strs(t[1]) if len(t) > 1 else []
    n = max((len(g) for g in gs), default=0)
    if out.startswith("!") or out.startswith("?") or out == "bad-op":
        cls = out if out.startswith("!") else "odd"
    elif t[0] == "twirl":
        try:
            d = exact_dict(out)
            cls = "nonzero" if any(v != 0 for v in d.values()) else ("zero:" + ("empty" if out == "-" else "0*I"))
        except Exception:
            cls = "odd"
    else:
        cls = "basis"
    m, multi = basis_info(line, out)
    return f"{t[0]} n={n} {cls} basis={_bucket(m)}{' nonabelian' if multi else ''}"

def nontrivial(line, out):
    if out.startswith(("!", "?")) or out == "bad-op":
        return False
    m, multi = basis_info(line, out)
    if not multi:
        return False
    if line.startswith("twirl "):
        try:
            return any(v != 0 for v in exact_dict(out).values())
        except Exception:
            return False
    return True

def known_match(stream, line, why):
    return None

# ------------------------------------------------------------------ streams
def build_streams(rng, tier):
    th = tier == "thorough"
    _TIER[0] = tier
    h = S.handle
    kw = dict(nontrivial=nontrivial, shrink=shrink, tag=tag)
    auto = make_batch("auto")
    return [
        Stream("corpus", corpus_lines(PID), h, batch_oracle=auto, model=False, **kw),
        Stream("qbasis", gen_qbasis(rng, tier), h, oracle_qbasis, **kw),
        Stream("twirl-dyadic", gen_twirl(rng, 1400 if th else 260, [1, 2, 2, 3] if th else [1, 2, 2], True), h,
               batch_oracle=make_batch("dyadic"), model=False, **kw),
        Stream("twirl-float", gen_twirl(rng, 900 if th else 150, [1, 2, 2, 3] if th else [1, 2, 2], False), h,
               batch_oracle=make_batch("float"), model=False, **kw),
        Stream("malformed", gen_malformed(rng, 400 if th else 90), h, batch_oracle=auto, model=False, **kw),
        Stream("basis-and-twirl-on-one-collection-object-across-edits", gen_qhist(rng, 400 if th else 120), qhist_handle,
               oracle=lambda l, o: None if o == "ok" else o, model=False, tag=lambda l, o: "qhist:" + ("ok" if o == "ok" else "bad")),
    ]

RULE = ("corpus witnesses; qbasis (exact text vs the model + dense numpy oracle on the implementation's printed basis: every symmetry "
        "commutes with every g(x)1+1(x)g, pairwise trace-orthogonal with positive norm (dense Gram matrix; for bases of more than 1024 "
        "symmetries a seeded sample of 1024 plus disjoint Pauli supports of all), and the NUMBER of symmetries equals the dimension of "
        "the commutant of {g(x)1+1(x)g}, computed independently in the Pauli basis of the 2n-qubit operators: each equation of "
        "[X, g(x)1+1(x)g]=0 has at most two unknowns, so the nullity is obtained exactly block by block (pinned / sign-consistent) and "
        "cross-checked by numpy eigvalsh of N^T N per block of <=1500 strings): all collections of 1-2 strings on one qubit, all single "
        "strings and 40 sampled (thorough: all 256) pairs on two qubits (thorough: 200 triples on 2 qubits, all single strings and 60 "
        "pairs on 3 qubits), seeded collections from gens.collection kinds random/sparse/commuting/2local/path/union with <=4 (n=3: <=5) "
        "strings, 15% with a duplicate, 15% with an identity string, 15% with a truncated string so that the constructor pads; n<=2 "
        "quick, n<=3 thorough, completeness decided at every generated n; twirl-dyadic / twirl-float: the same collections, M on 2n "
        "qubits with <=6 terms, about half of the strings from the supports S(x)(L.S) of the implementation's symmetries (a quarter of "
        "the cases contain a multiple of part of a symmetry), repeated strings, zero coefficients; coefficients k/2^j (|k|<=255, j<=6) "
        "resp. generic doubles (uniform, gauss, 1e-13-scale, exactly cancelling pairs) sent as exact dyadic rationals; the "
        "implementation's result is compared with the model's exact rational twirl as {string: coefficient} at 1e-9 (dyadic: identical "
        "sets of strings and identical spelling of a zero result; errors textual) and the property is evaluated on the implementation "
        "with dense matrices at 1e-9*scale: output commutes with every g(x)1+1(x)g, residual trace-orthogonal to every symmetry of the "
        "implementation's basis, idempotent, linear on M + c*M2 (M2, c derived from a hash of the line), fixes <=12 sampled symmetries "
        "(all if <=12), and for n<=2 equals the orthogonal projection onto the commutant obtained from a dense eigendecomposition of "
        "sum_g ad(A_g)^† ad(A_g); malformed: wrong qubit count of M, empty M, mixed lengths, empty G, for both commands; "
        "non-trivial = the basis has a symmetry with >=2 terms (non-abelian situation) and, for twirl, the result is non-zero")

ASSUMPTIONS = [
    "COMPLETENESS of the basis is PROVED about the model for all n and all non-empty collections (Properties/C16Complete.lean): "
    "every 4^n x 4^n complex matrix commuting with all g(x)1+1(x)g is the combination sum_Q tr(Q†X)/tr(Q†Q) * Q of the returned "
    "symmetries (C16_complete), their number equals Module.finrank of the commutant (C16_count), the twirl is the unique "
    "orthogonal projection onto the commutant (C16_twirl_is_projection), and C16_full is the whole statement without hypothesis; "
    "the numpy/Pauli-basis null-space oracle (n<=2 quick / n<=3 thorough) still decides the count per input on the "
    "IMPLEMENTATION's printed basis, independently of the proof",
    "floats are not modelled: the model computes the twirl in exact rational form sum_Q tr(Q†M)/tr(Q†Q) * Q (the sqrt of the "
    "normalisation cancels algebraically); the thresholds 1e-12 of the source are modelled as exact comparisons with 0; the float "
    "realisation is compared with the model at 1e-9 and the projector clauses are evaluated on it at 1e-9*scale",
    "the order of components, symmetries and terms (networkx / set iteration order) is not part of the property: it is canonicalised "
    "by sorting on both sides",
    "orthogonality for bases of more than 1024 symmetries (n=3, nearly trivial G) uses a dense Gram matrix on a seeded sample of 1024 "
    "plus disjointness of the Pauli supports of all symmetries",
]

def main(tier):
    return standard_main(PID, tier, "other", THEOREMS, IMPORTS, build_streams, known_match=known_match, rule=RULE,
                         assumptions=ASSUMPTIONS)

def replay(path):
    r = json.load(open(path))
    line = r.get("line")
    if r.get("tier") in COMPLETENESS_MAXN:
        _TIER[0] = r["tier"]
    if line.startswith("qhist "):
        out = qhist_handle(line)
        print("line:", line); print("oracle:", "holds" if out == "ok" else out)
        return 0 if out == "ok" else 1
    out = S.handle(line)
    try:
        mo = run_model([line])[0]
    except Exception as e:
        mo = f"(model driver failed: {e})"
    why = make_batch("auto")([line], [out])[0]
    print("line:", line); print("implementation:", out); print("model:", mo); print("oracle:", why or "holds")
    return 1 if why else 0
