"""C01 (extra) — canonical stars of type A, where the second half of the classification theorem is PROVED
(lean/PauLieVerif/Properties/C01Star.lean): pure single-leg stars K_{1,k} (2^(k-1)*so(3), 3*2^(k-1) strings), paths in any
independent realisation (so(m+1), m(m+1)/2 strings), and type A in general (k single legs + long leg r: 2^(k-1)*so(r+3),
2^(k-1)*(r+3)(r+2)/2 strings).

Exposes `extra_streams(rng, tier)`, `EXTRA_THEOREMS`, `EXTRA_IMPORTS` for harness/props/c01.py (same interface as c01_names).

The streams realise such stars as random Pauli strings on up to 12 qubits (thorough: 20; no 4^n enumeration: the closed forms replace it),
shuffled and obfuscated by contraction moves (which keep the closure: `Closure.clo_contract`), and check on the IMPLEMENTATION
  (a) the reported algebra is the tabulated name and `get_dla_dim()` is the closed-form size of the closure;
  (b) the hypotheses of the bridge theorem `C01_from_C02_classify_typeA` on the implementation's own legs,
      evaluated by this file independently of the model: one centre, k single legs, at most one long leg, the
      anticommutation pattern of the star, GF(2)-independence of the vertices; and the guard of the proved half
      (`guards=ok complete lost=0`, model command `guards`, same legs as the implementation's).
Under (b) the theorem says `get_dla_dim()` = |commutator closure of the generators| — for these inputs proved, not sampled."""
from __future__ import annotations
from common import *
from engine import *
import gens as G
import oracle as O
import impl_classify

EXTRA_THEOREMS = ["PauLie.C01Star." + t for t in [
    "C01Star_inSpan", "C01Star_indepB", "C01Star_closure", "C01Star_unique", "C01Star_size", "C01Star_centre",
    "C01Star_blocks", "C01_star", "C01Path_closure", "C01Path_size", "C01Path_structure", "C01TypeA_closure",
    "C01TypeA_size", "C01_typeA", "C01_path", "C01_from_C02", "C01_from_C02_star", "C01_from_C02_typeA",
    "C01_from_C02_classify", "C01_from_C02_classify_typeA", "starB_sound", "typeAB_sound", "pathB_sound", "TypeA.form_inj"]]
EXTRA_IMPORTS = ["PauLieVerif.Properties.C01Star"]

# ---------------------------------------------------------------- expected values (the table, and the closed forms)

def normal_census(k, r):
    """k single legs + a long leg of r vertices; a "long leg" of one vertex is a single leg"""
    return (k + 1, 0) if r == 1 else (k, r)

def expected(k, r):
    """(canonical algebra text, size of the closure) for k >= 1 single legs and a long leg of r vertices"""
    k, r = normal_census(k, r)
    mult, size = 2 ** (k - 1), r + 3
    name = f"so({size})"
    return "[" + (name if mult == 1 else f"{mult}*{name}") + "]", mult * size * (size - 1) // 2

def fields(out: str) -> dict:
    d = {}
    for tok in out.split(" "):
        if "=" in tok:
            a, b = tok.split("=", 1)
            d[a] = b
    return d

def gf2_rank(vs):
    """rank over GF(2) of bit vectors given as (x, z) pairs of ints on n qubits (independent of the model's elimination)"""
    rows = [(x << 64) | z for x, z in vs]      # n <= 64
    rank = 0
    for bit in reversed(range(128)):
        piv = next((i for i in range(rank, len(rows)) if (rows[i] >> bit) & 1), None)
        if piv is None:
            continue
        rows[rank], rows[piv] = rows[piv], rows[rank]
        for i in range(len(rows)):
            if i != rank and (rows[i] >> bit) & 1:
                rows[i] ^= rows[rank]
        rank += 1
    return rank

def check_legs(morphs: str, k, r):
    """the hypotheses of the bridge theorem on the implementation's legs; None if they hold"""
    if ";" in morphs or morphs == "-":
        return f"expected one canonical graph (connected input), got {morphs}"
    legs = [leg.split(".") for leg in morphs.split("/")]
    if len(legs[0]) != 1:
        return f"centre leg is not a single vertex: {morphs}"
    c = legs[0][0]
    singles = [leg[0] for leg in legs[1:] if len(leg) == 1]
    longs = [leg for leg in legs[1:] if len(leg) >= 2]
    k, r = normal_census(k, r)
    if len(singles) != k or len(longs) != (1 if r else 0) or (r and len(longs[0]) != r):
        return f"legs {morphs}: expected {k} single legs and " + (f"a long leg of {r}" if r else "no long leg")
    ps = longs[0] if longs else []
    verts = [c] + singles + ps
    if len(set(verts)) != len(verts):
        return f"vertices not distinct: {morphs}"
    edges = {frozenset((c, s)) for s in singles}
    if ps:
        edges.add(frozenset((c, ps[0])))
        edges |= {frozenset((ps[i], ps[i + 1])) for i in range(len(ps) - 1)}
    e = {v: O.enc(v) for v in verts}
    for i in range(len(verts)):
        for j in range(i + 1, len(verts)):
            a, b = verts[i], verts[j]
            if bool(O.anti(e[a], e[b])) != (frozenset((a, b)) in edges):
                return f"anticommutation of {a},{b} is not that of the star {morphs}"
    if gf2_rank([e[v] for v in verts]) != len(verts):
        return f"the canonical vertices {morphs} are linearly dependent over GF(2)"
    return None

# census (k, r) of every generated protocol line (and of the lines shrunk from it)
CENSUS: dict[str, tuple[int, int]] = {}

def census_from_legs(morphs: str):
    """(k, r) read off the implementation's legs (used on replay, when the generator's census is not at hand: the bridge
    theorem only needs the legs to pass `check_legs`)"""
    legs = [leg.split(".") for leg in morphs.split(";")[0].split("/")] if morphs not in ("-", "") else [[]]
    k = sum(1 for leg in legs[1:] if len(leg) == 1)
    longs = [len(leg) for leg in legs[1:] if len(leg) >= 2]
    return k, (longs[0] if longs else 0)

def census_of(line, out):
    return CENSUS[line] if line in CENSUS else census_from_legs(fields(out).get("morphs", "-"))

def batch_oracle(lines, outs):
    res = [None] * len(lines)
    req, idx = [], []
    for i, (l, o) in enumerate(zip(lines, outs)):
        k, r = census_of(l, o)
        f = fields(o)
        if o.startswith("!") or "alg" not in f:
            res[i] = f"classification failed: {o[:120]}"
            continue
        alg, size = expected(k, r)
        gs = l.split(" ")[1]
        if f["alg"] != alg:
            res[i] = f"star with {k} single legs and a long leg of {r}: reported {f['alg']}, the table (and the proved closed form) says {alg}; input {gs}"
            continue
        if f["dim"] != str(size):
            res[i] = f"get_dla_dim() = {f['dim']} but the commutator closure has exactly {size} strings (theorem C01_typeA / C01_star); input {gs}"
            continue
        if f.get("deps", "-") != "-":
            res[i] = f"independent generators but dependents reported: {f['deps']}; input {gs}"
            continue
        why = check_legs(f.get("morphs", "-"), k, r)
        if why:
            res[i] = "hypotheses of the bridge theorem C01_from_C02 fail on the implementation's legs: " + why
            continue
        idx.append(i)
        req.append("guards " + gs)
    rep = run_model(req) if req else []
    for i, gd in zip(idx, rep):
        fg = fields(gd)
        f = fields(outs[i])
        if gd.startswith("!") or "guards" not in fg:
            res[i] = f"guarded model failed: {gd[:120]}"
        elif fg["guards"] != "ok" or fg.get("complete") != "T" or fg.get("lost") != "0":
            res[i] = f"guard of C02_closure_partial does not hold ({gd[:160]})"
        elif fg.get("morphs") != f["morphs"]:
            res[i] = f"the guarded run has other legs ({fg.get('morphs')}) than the implementation ({f['morphs']})"
    return res

# ---------------------------------------------------------------- generators

def realise_star(rng, k, r, maxn):
    legs = [1] * k + ([r] if r else [])
    m, edges = G.star_edges(legs)
    assert m <= maxn
    gs = G.realise(rng, m, edges)
    extra = rng.randint(0, maxn - m) if rng.random() < 0.3 else 0      # spectator qubits
    if extra:
        pos = sorted(rng.sample(range(m + extra), extra))
        out = []
        for s in gs:
            t = list(s)
            for p in pos:
                t.insert(p, "I")
            out.append("".join(t))
        gs = out
    mode = rng.random()
    if mode < 0.35:
        rng.shuffle(gs)
    elif mode < 0.75:
        gs = G.obfuscate(rng, gs, rng.randint(1, 4 * len(gs)))
        rng.shuffle(gs)
    return gs

def line(gs, k, r):
    l = G.line_of("classify", gs)
    CENSUS[l] = (k, r)
    return l

def shrink(l):
    """contraction moves cannot be undone, the census must stay: shrink by dropping a spectator qubit only"""
    gs = l.split(" ")[1].split(",")
    n = len(gs[0])
    for q in range(n):
        if n > 1 and all(g[q] == "I" for g in gs):
            c = "classify " + ",".join(g[:q] + g[q + 1:] for g in gs)
            CENSUS[c] = CENSUS[l]
            yield c

def extra_streams(rng, tier):
    th = tier == "thorough"
    maxn = 20 if th else 12
    stars, paths, typeA = [], [], []
    # pure single-leg stars: every k, several realisations each
    for k in range(1, maxn):
        for _ in range(40 if th else 8):
            stars.append(line(realise_star(rng, k, 0, maxn), k, 0))
    # paths on m vertices = one single leg + long leg of m-2
    for m in range(2, maxn + 1):
        for _ in range(40 if th else 8):
            paths.append(line(realise_star(rng, 1, m - 2, maxn), 1, m - 2))
    # type A in general
    for _ in range(3000 if th else 300):
        k = rng.randint(1, 8 if th else 6)
        r = rng.choice([0, 2, 2, 3, 3, 4, 5, 6, 7, 8] + ([10, 12] if th else []))
        if k + 1 + r > maxn:
            r = rng.choice([x for x in (0, 2, 3, 4, 5) if k + 1 + x <= maxn])
        typeA.append(line(realise_star(rng, k, r, maxn), k, r))
    kw = dict(batch_oracle=batch_oracle, shrink=shrink, canon=impl_classify.strip_meta,
              tag=lambda l, o: "closed-form:" + fields(o).get("alg", o)[:40],
              nontrivial=lambda l, o: len(l.split(" ")[1].split(",")) >= 3)
    h = impl_classify.handle
    return [Stream("closed-form:single-leg-stars", stars, h, **kw), Stream("closed-form:paths", paths, h, **kw),
            Stream("closed-form:type-A", typeA, h, **kw)]

RULE_EXTRA = ("canonical stars of type A realised as random Pauli strings on <= 12 qubits, thorough <= 20 (every k single legs; paths on "
              "2..n vertices; k single legs + long leg r), shuffled / obfuscated by contractions / spectator qubits: reported name = "
              "table, get_dla_dim = closed-form size of the closure (theorems C01_star, C01_path, C01_typeA), and the executable "
              "hypotheses of the bridge theorem C01_from_C02 (star pattern + GF(2) independence of the implementation's legs, guard)")
