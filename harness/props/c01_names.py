"""C01 (extra) — the library's own comparison of algebra names: `Classification.is_algebra`,
`_parse_algebra`, `get_isomorphism`, `contains_algebra`, `get_subalgebras`,
`PauliStringCollection.is_algebra` (model: Model/AlgebraNames.lean, theorems: Properties/C01Names.lean).

Exposes `extra_streams(rng, tier)`, `EXTRA_THEOREMS`, `EXTRA_IMPORTS` for harness/props/c01.py.

Oracle (independent of the model): whenever the implementation answers `is_algebra(text) == True`, the text
must read — by this file's own reading: `+`-separated items `[int*]name`, name one of u/su/so/sp(m) — as a sum
of names whose invariants (Lean-verified `invname`) are those of the reported algebra.  The one reported
summand for which this is known to fail, `2*so(2)` (dictionary entry `2*so(2) -> 2*su(2)`), cannot be produced
by the classifier; it is replayed on a `Classification` reporting that text (`C01Names_dictionary_refuted`)."""
from __future__ import annotations
import re, itertools
from common import *
from engine import *
import gens as G
import impl_algnames as IA
import impl_classify
from impl_graph import coll

EXTRA_THEOREMS = ["PauLie.C01Names." + t for t in [
    "C01Names_iso_tie", "C01Names_text_tie", "C01Names_sort_spec", "C01Names_parse_total", "C01Names_roundtrip",
    "C01Names_invOfName_perm", "C01Names_sound", "C01Names_sound_classifier", "C01Names_dictionary_refuted",
    "C01Names_coincidences", "C01Names_coincidences_missed", "C01Names_coincidences_missed_inv"]]
EXTRA_IMPORTS = ["PauLieVerif.Properties.C01Names"]

NAME = re.compile(r"(u|su|so|sp)\(([0-9]+)\)", re.ASCII)

def read_sum(text: str):
    """this file's reading of a text as a sum of names: {(type, size): multiplicity}, or None"""
    acc = {}
    for item in text.replace(" ", "").split("+"):
        k = 1
        if "*" in item:
            parts = item.split("*")
            if len(parts) != 2:
                return None
            try:
                k = int(parts[0])
            except ValueError:
                return None
            item = parts[1]
        m = NAME.fullmatch(item)
        if not m or len(m.group(2)) > 30:
            return None
        key = (m.group(1), int(m.group(2)))
        acc[key] = acc.get(key, 0) + k
    if any(v < 0 for v in acc.values()):
        return None
    return {k: v for k, v in acc.items() if v != 0}

def canon_alg(d) -> str:
    """`[2*so(3),u(1)]` as understood by the model's `invname`"""
    return "[" + ",".join((f"{t}({m})" if k == 1 else f"{k}*{t}({m})") for (t, m), k in sorted(d.items())) + "]"

def invnames(ds):
    return run_model([f"invname {canon_alg(d)}" for d in ds])

OBSERVED = {}

def sound_batch(pairs):
    """pairs: (reported text, query text, answer) -> why|None; answers other than T claim nothing"""
    res = [None] * len(pairs)
    todo = []
    for k, (rep, q, ans) in enumerate(pairs):
        if ans != "T":
            continue
        dr, dq = read_sum(rep), read_sum(q)
        if dr is None:
            continue      # the reported text is not a printed sum of names: outside the soundness statement
        if dq is None:
            # e.g. '4*so(5)*': the library's _parse_algebra reads items with split('*') and ignores what follows the name.
            # That is a leniency of is_algebra's text parser, not a statement about the reported algebra (C01); the model
            # reproduces it (correspondence) and C01Names_sound covers it through the model's own parse — no claim here.
            OBSERVED["is_algebra accepts a text this file cannot read as a sum of names"] = OBSERVED.get("is_algebra accepts a text this file cannot read as a sum of names", 0) + 1
            continue
            continue
        todo.append((k, dr, dq))
    if todo:
        a = invnames([x[1] for x in todo]); b = invnames([x[2] for x in todo])
        for (k, dr, dq), ia, ib in zip(todo, a, b):
            if ia != ib:
                res[k] = (f"is_algebra({pairs[k][1]!r}) is True for the reported algebra {pairs[k][0]!r}, but the invariants differ: "
                          f"reported [{ia}] query [{ib}]")
    return res

UNSOUND_REPORTED = "2*so(2)"     # the dictionary entry C19_isomorphism_dictionary / C01Names_dictionary_refuted

def oracle_isalg(lines, outs):
    """`isalg <G> <text>`: soundness against the algebra the implementation itself reports"""
    pairs = []
    for l, o in zip(lines, outs):
        t = l.split(" ")
        rep = guard(lambda: str(coll(t[1]).get_algebra()))
        pairs.append((rep, unhx(t[2]), o if not rep.startswith("!") else "!"))
    return sound_batch(pairs)

def oracle_isalgtext(lines, outs):
    """`isalgtext <reported> <text>`: soundness under the precondition of `C01Names_sound`
    (no reported summand `2*so(2)`); the unsound entry itself must still answer as the refutation theorem says"""
    pairs, res = [], []
    for l, o in zip(lines, outs):
        t = l.split(" ")
        rep, q = unhx(t[1]), unhx(t[2])
        if UNSOUND_REPORTED in rep.replace(" ", "").split("+"):
            pairs.append((rep, q, "skip"))
        else:
            pairs.append((rep, q, o))
    return sound_batch(pairs)

def oracle_contains(lines, outs):
    """`containsalg <G> <text>` (not diffed: the order of the summands is the implementation's):
    the answer is the model's `containsalgtext` on the text the implementation reported, and is Python's `in`"""
    res = [None] * len(lines)
    ml, idx = [], []
    for k, (l, o) in enumerate(zip(lines, outs)):
        t = l.split(" ")
        if o.startswith("!"):
            continue
        rep, ans = o.split(" ")
        if ans != ("T" if unhx(t[2]) in unhx(rep) else "F"):
            res[k] = f"contains_algebra({unhx(t[2])!r}) = {ans} on reported {unhx(rep)!r}"
        ml.append(f"containsalgtext {rep} {t[2]}"); idx.append((k, ans))
        # the reported text names the same multiset as the model's classifier
        ml.append(f"subalgstext {rep} None"); idx.append((k, None))
        ml.append(f"subalgs {t[1]} None"); idx.append((k, "sorted"))
    mo = run_model(ml) if ml else []
    for j in range(0, len(mo), 3):
        k, ans = idx[j]
        if mo[j] != ans:
            res[k] = res[k] or f"{lines[k]}: implementation {ans}, model on the same reported text {mo[j]}"
        if sorted(mo[j + 1].split(",")) != sorted(mo[j + 2].split(",")):
            res[k] = res[k] or f"{lines[k]}: implementation reports summands {mo[j + 1]}, model classifier {mo[j + 2]}"
    return res

def oracle_subalgs(line, out):
    t = line.split(" ")
    if out.startswith("!"):
        return None
    if t[0] == "subalgs":
        if t[2] == "None":
            exp = sorted(str(coll(t[1]).get_algebra()).split("+"))
        else:
            exp = unhx(t[2]).split("+")
    else:
        exp = (unhx(t[1]) if t[2] == "None" else unhx(t[2])).split("+")
    return None if out == IA.texts(exp) else f"{line}: implementation {out}, definition {IA.texts(exp)}"

def oracle_roundtrip(line, out):
    """`parsealg <printed well-formed sum>`: the items come back"""
    text = unhx(line.split(" ")[1])
    exp = IA.texts(text.split("+"))
    return None if out == exp else f"_parse_algebra({text!r}) = {out}, expected the items {exp}"

# ---------------------------------------------------------------- generators

TYPES = ["u", "su", "so", "sp"]

def rand_name(rng):
    r = rng.random()
    if r < 0.5:
        return rng.choice(["so(3)", "so(4)", "so(5)", "so(6)", "su(2)", "su(4)", "sp(1)", "sp(2)", "u(1)", "so(2)"])
    return f"{rng.choice(TYPES)}({rng.choice([1, 2, 3, 4, 5, 6, 7, 8, 10, 16, 32])})"

def rand_sum(rng, maxk=4):
    """a well-formed sum: distinct names, multiplicities >= 1 (what `get_algebra` can print, and more)"""
    names = []
    for _ in range(rng.randint(1, maxk)):
        n = rand_name(rng)
        if n not in names:
            names.append(n)
    return [(rng.choice([1, 1, 1, 2, 2, 3, 4, 8, 16]), n) for n in names]

def show_sum(items):
    return "+".join(n if k == 1 else f"{k}*{n}" for k, n in items)

RESPELL = {"so(3)": ["su(2)", "sp(1)"], "su(2)": ["so(3)", "sp(1)"], "sp(1)": ["su(2)", "so(3)"],
           "so(5)": ["sp(2)"], "sp(2)": ["so(5)"], "so(6)": ["su(4)"], "su(4)": ["so(6)"],
           "u(1)": ["so(2)"], "so(2)": ["u(1)"]}

def respell(rng, items):
    out = []
    for k, n in items:
        if n == "so(4)" and rng.random() < 0.7:
            out.append((2 * k, "su(2)"))
        elif n == "su(2)" and k % 2 == 0 and rng.random() < 0.4:
            out.append((k // 2, "so(4)"))
        elif n in RESPELL and rng.random() < 0.7:
            out.append((k, rng.choice(RESPELL[n])))
        else:
            out.append((k, n))
    return out

def near_miss(rng, items):
    items = list(items)
    i = rng.randrange(len(items))
    k, n = items[i]
    m = NAME.fullmatch(n)
    r = rng.random()
    if r < 0.3:
        items[i] = (max(1, k + rng.choice([-1, 1])), n)
    elif r < 0.6 and m:
        items[i] = (k, f"{m.group(1)}({max(1, int(m.group(2)) + rng.choice([-1, 1]))})")
    elif r < 0.8 and m:
        items[i] = (k, f"{rng.choice(TYPES)}({m.group(2)})")
    elif r < 0.9:
        items.append((1, rand_name(rng)))
    elif len(items) > 1:
        del items[i]
    return items

def spell_multiplicities(rng, items):
    """`2*x` as `x+x`, `3*x` as `2*x+x`, `1*x`, ..."""
    out = []
    for k, n in items:
        r = rng.random()
        if k >= 2 and r < 0.4:
            a = rng.randint(1, k - 1)
            out += [(a, n), (k - a, n)]
        elif k <= 4 and r < 0.6:
            out += [(1, n)] * k
        elif r < 0.7:
            out += [(k + 1, n), (-1, n)]
        else:
            out.append((k, n))
    rng.shuffle(out)
    return "+".join((n if (k == 1 and rng.random() < 0.8) else f"{k}*{n}") for k, n in out)

WS = [" ", " ", "  ", "\t", "\n", " ", " "]
def whitespace(rng, text):
    out = []
    for ch in text:
        if rng.random() < 0.15:
            out.append(rng.choice(WS))
        out.append(ch)
    if rng.random() < 0.3:
        out.append(rng.choice(WS))
    return "".join(out)

ALPHA = "sssuuupo()()**++0123456789 12 \t_-N"
def malformed(rng, base):
    r = rng.random()
    if r < 0.25:
        return "".join(rng.choice(ALPHA) for _ in range(rng.randint(0, 10)))
    t = list(base)
    for _ in range(rng.randint(1, 3)):
        op = rng.random()
        if op < 0.4 and t:
            del t[rng.randrange(len(t))]
        elif op < 0.8:
            t.insert(rng.randint(0, len(t)), rng.choice(ALPHA))
        elif t:
            t[rng.randrange(len(t))] = rng.choice(ALPHA)
    return "".join(t)

SPECIAL = ["", "None", "+", "*", "su", "so", "sp", "u(1)", "1*", "*so(3)", "2*3*so(3)", "so(3)*2", "2**so(3)", "0*so(3)",
           "-1*so(3)+2*so(3)", "1_0*u(1)", "٣*so(3)", "２*su(2)", "+2*so(3)", "so(3)+", "2.0*so(3)", "0x2*so(3)",
           " 2 * s o ( 3 ) ", "\t2\n*so(3)", "2*so (3)", "2\t*so(3)", "2*\tso(3)", "SO(3)", "so(03)", "02*so(3)", "--2*so(3)",
           "2*su(2)", "su(2)+su(2)", "su(2)+so(3)", "so(3)+so(3)", "sp(1)+su(2)", "4*su(2)", "2*so(4)", "1*so(4)"]

def parse_items(text):
    """items of a printed sum (the reported text of the implementation)"""
    out = []
    for it in text.split("+"):
        if "*" in it:
            k, n = it.split("*")
            out.append((int(k), n))
        else:
            out.append((1, it))
    return out

def queries_for(rng, reported: str, n: int):
    """query texts aimed at a reported text"""
    qs = []
    try:
        items = parse_items(reported) if reported else [(1, "u(1)")]
    except ValueError:
        items = [(1, "u(1)")]
    for _ in range(n):
        r = rng.random()
        its = list(items)
        if rng.random() < 0.5:
            rng.shuffle(its)
        if r < 0.15:
            q = show_sum(its)
        elif r < 0.35:
            q = show_sum(respell(rng, its))
        elif r < 0.5:
            q = show_sum(near_miss(rng, its))
        elif r < 0.65:
            q = spell_multiplicities(rng, its)
        elif r < 0.75:
            q = spell_multiplicities(rng, respell(rng, its))
        elif r < 0.85:
            q = whitespace(rng, show_sum(respell(rng, its) if rng.random() < 0.5 else its))
        elif r < 0.95:
            q = malformed(rng, show_sum(its))
        else:
            q = rng.choice(SPECIAL)
        qs.append(q)
    return qs

COINCIDENCE_PAIRS = [("so(2)", "u(1)"), ("so(3)", "su(2)"), ("so(3)", "sp(1)"), ("su(2)", "sp(1)"),
                     ("so(4)", "2*su(2)"), ("so(4)", "su(2)+su(2)"), ("so(5)", "sp(2)"), ("so(6)", "su(4)")]

def shrink_text_line(line):
    """shorten the last hex text by one character; drop a member of a collection argument"""
    t = line.split(" ")
    last = t[-1]
    if last not in ("-", "None"):
        cs = last.split(".")
        for i in range(len(cs)):
            c = cs[:i] + cs[i + 1:]
            yield " ".join(t[:-1] + [".".join(c) if c else "-"])
    if t[0] in ("isalg", "containsalg", "subalgs") and t[1] != "-":
        gs = t[1].split(",")
        for i in range(len(gs)):
            c = gs[:i] + gs[i + 1:]
            if c:
                yield " ".join([t[0], ",".join(c)] + t[2:])

def extra_streams(rng, tier):
    th = tier == "thorough"
    h = IA.handle
    # ---- collection level
    isalg, cont, sub = [], [], []
    for _ in range(2500 if th else 500):
        gs = G.collection(rng, 6 if th else 5, 10)
        arg = ",".join(gs) if gs else "-"
        rep = guard(lambda: str(coll(arg).get_algebra()))
        if rep.startswith("!"):
            rep = "u(1)"
        # the order of the summands in get_algebra() is the iteration order of a set of objects hashed by identity: it differs
        # from process to process; derive the query texts from a canonical order so that a seed always gives the same stream
        rep = "+".join(sorted(rep.split("+")))
        for q in queries_for(rng, rep, 6):
            isalg.append(f"isalg {arg} {hx(q)}")
        for q in queries_for(rng, rep, 2) + [rng.choice(rep.split("+")), rep[rng.randrange(len(rep) + 1):][:rng.randint(0, 8)]]:
            cont.append(f"containsalg {arg} {hx(q)}")
        sub.append(f"subalgs {arg} None")
        sub.append(f"subalgs {arg} {hx(rng.choice(queries_for(rng, rep, 1)))}")
    # ---- text level: any reported text
    text, parse, iso, subt, ctext = [], [], [], [], []
    for _ in range(4000 if th else 800):
        rs = rand_sum(rng)
        rep = show_sum(rs)
        if rng.random() < 0.05:
            rep = malformed(rng, rep)
        for q in queries_for(rng, rep, 4):
            text.append(f"isalgtext {hx(rep)} {hx(q)}")
            parse.append(f"parsealg {hx(q)}")
        for k, n in rs:
            iso.append(f"iso {hx(n if k == 1 else f'{k}*{n}')}")
        iso.append(f"iso {hx(rng.choice(queries_for(rng, rep, 1)))}")
        q = rng.choice(queries_for(rng, rep, 1))
        subt.append(f"subalgstext {hx(rep)} {hx(q) if rng.random() < 0.5 else 'None'}")
        ctext.append(f"containsalgtext {hx(rep)} {hx(q if rng.random() < .5 else rep[rng.randrange(len(rep) + 1):][:rng.randint(0, 6)])}")
    # ---- round trip on well-formed sums
    rt = [f"parsealg {hx(show_sum(rand_sum(rng, 6)))}" for _ in range(2000 if th else 400)]
    # ---- fixed table: coincidences in both directions, every dictionary key with multiplicities, specials
    table = []
    for a, b in COINCIDENCE_PAIRS:
        for k in (1, 2, 3):
            ka = a if k == 1 else (f"{k}*{a}" if "+" not in a else None)
            kb = b if k == 1 else (f"{k}*{b}" if ("+" not in b and "*" not in b) else (f"{2 * k}*su(2)" if b == "2*su(2)" else None))
            if ka and kb:
                table += [f"isalgtext {hx(ka)} {hx(kb)}", f"isalgtext {hx(kb)} {hx(ka)}"]
    for rep in ["2*so(2)", "4*so(2)", "so(2)", "so(3)", "2*so(3)", "so(4)", "2*so(4)", "so(5)", "so(6)", "su(4)", "u(1)", "so(3)+u(1)", "2*so(3)+so(5)", ""]:
        for q in SPECIAL + [rep]:
            table.append(f"isalgtext {hx(rep)} {hx(q)}")
        table.append(f"iso {hx(rep)}")
    for q in SPECIAL:
        table += [f"parsealg {hx(q)}", f"iso {hx(q)}"]
    big = "9" * 4300
    table += [f"parsealg {hx(big + '*a+1*a')}", f"parsealg {hx(big + '*a')}", f"parsealg {hx(big + '0*a')}",
              f"iso {hx(big + '*so(4)')}", f"iso {hx(big + '*so(3)')}"]
    tagT = lambda l, o: "names:" + l.split(" ")[0] + ":" + (o if o in ("T", "F") or o.startswith("!") else "")
    nt_isalg = lambda l, o: o == "T"
    kw = dict(shrink=shrink_text_line, tag=tagT)
    return [
        Stream("names:table", table, h, batch_oracle=oracle_isalgtext_mixed, **kw),
        Stream("names:is_algebra(collection)", isalg, h, batch_oracle=oracle_isalg, nontrivial=nt_isalg, **kw),
        Stream("names:is_algebra(text)", text, h, batch_oracle=oracle_isalgtext, nontrivial=nt_isalg, **kw),
        Stream("names:parse", parse, h, nontrivial=lambda l, o: not o.startswith("!") and "," in o, **kw),
        Stream("names:parse-roundtrip", rt, h, oracle_roundtrip, **kw),
        Stream("names:isomorphism", iso, h, nontrivial=lambda l, o: o != "None" and not o.startswith("!"), **kw),
        Stream("names:contains(collection)", cont, h, batch_oracle=oracle_contains, model=False,
               nontrivial=lambda l, o: o.endswith(" T"), **kw),
        Stream("names:contains(text)", ctext, h, lambda l, o: None if o == ("T" if unhx(l.split(" ")[2]) in unhx(l.split(" ")[1]) else "F") else f"{l}: {o}", **kw),
        Stream("names:subalgebras", sub + subt, h, oracle_subalgs, **kw),
    ]

def oracle_isalgtext_mixed(lines, outs):
    """the fixed table holds `isalgtext`, `iso`, `parsealg` lines; only the first kind has a soundness claim.
    The refutation witness is replayed: reported `2*so(2)`, query `2*su(2)` must be True (unsound entry)"""
    res = [None] * len(lines)
    idx = [k for k, l in enumerate(lines) if l.startswith("isalgtext ")]
    sub = oracle_isalgtext([lines[k] for k in idx], [outs[k] for k in idx])
    for k, w in zip(idx, sub):
        res[k] = w
    for k, l in enumerate(lines):
        if l == f"isalgtext {hx('2*so(2)')} {hx('2*su(2)')}" and outs[k] != "T":
            res[k] = f"the refutation witness of C01Names_dictionary_refuted no longer reproduces: is_algebra('2*su(2)') on reported '2*so(2)' = {outs[k]}"
    return res

RULE_EXTRA = ("algebra names: random collections x 6 query texts each (the reported name, isomorphic respellings, near misses, "
              "reordered sums, multiplicities spelt as sums / 1* / k+1 and -1, white space incl. tabs and Unicode spaces, malformed "
              "texts, specials) through PauliStringCollection.is_algebra; the same on arbitrary reported texts through a Classification "
              "reporting that text; _parse_algebra, get_isomorphism, contains_algebra, get_subalgebras; fixed table of the listed "
              "coincidences in both directions.  Oracle: an accepted text must read as a sum of names with the Lean-verified invariants "
              "of the reported algebra")
