"""C14 (extra) — collection-level graph helpers next to the C14 queries: `PauliString.get_commutants`,
`get_anti_commutants`, `get_nested`, `PauliStringCollection.get_anti_commutants`, `get_commutates`,
`get_anti_commutates`, `get_frame_potential`, `application.charges.non_commuting_charges`
(model: Model/GraphExtra.lean, theorems: Properties/C14Extra.lean).

Exposes `extra_streams(rng, tier)`, `EXTRA_THEOREMS`, `EXTRA_IMPORTS` for harness/props/c14.py.
Oracle: double loops over letter-wise (anti)commutation, union-find for the components — no model involved."""
from __future__ import annotations
import itertools
from common import *
from engine import *
import impl_graphextra as IG
from impl_graph import strs
from props.c14 import anti, mul, allstr, pad, rs, gen_coll

EXTRA_THEOREMS = ["PauLie.C14Extra." + t for t in [
    "C14Extra_ps_commutants", "C14Extra_ps_anticommutants", "C14Extra_ps_all", "C14Extra_ps_raises", "C14Extra_nested",
    "C14Extra_anticommutants", "C14Extra_anticommutants_all", "C14Extra_anticommutants_aliased",
    "C14Extra_anticommutants_aliased_differs", "C14Extra_commutates", "C14Extra_anticommutates",
    "C14Extra_isolates", "C14Extra_frame_potential", "C14Extra_charges"]]
EXTRA_IMPORTS = ["PauLieVerif.Properties.C14Extra"]

d = lambda s: s or "-"
CODE = {"I": 0, "Z": 1, "X": 2, "Y": 3}
def key(s):
    return [CODE[c] for c in s]
def show(l):
    return ",".join(d(x) for x in l) if l else "-"

def opt(arg, padit):
    if arg == "None":
        return None
    l = strs(arg)
    return pad(l) if padit else l

def oracle(line, out):
    t = line.split(" ")
    cmd = t[0]
    if cmd in ("pscomm", "psanti", "nested"):
        P = "" if t[1] == "-" else t[1]
        L = opt(t[2], False)
        S = allstr(len(P)) if L is None else L
        if any(len(g) != len(P) for g in S):
            exp = "!ValueError"
        elif cmd == "pscomm":
            exp = show([g for g in S if not anti(P, g)])
        elif cmd == "psanti":
            exp = show([g for g in S if anti(P, g)])
        else:
            prs = set()
            for g in S:
                if anti(P, g):
                    a = mul(g, P)
                    prs.add((g, a) if key(g) < key(a) else (a, g))
            exp = ",".join(sorted(f"{d(a)}~{d(b)}" for a, b in prs)) or "-"
    elif cmd == "anticommutants":
        G = pad(strs(t[1]))
        if not G:
            exp = "-"
        elif t[2] == "self":
            # aliasing of the collection's own cursor: only the first member is ever consulted
            exp = show([g for g in G if anti(G[0], g)])
        else:
            H = opt(t[2], True)
            S = allstr(len(G[0])) if H is None else H
            if S and len(S[0]) != len(G[0]):
                exp = "!ValueError"
            else:
                exp = show([h for h in S if all(anti(g, h) for g in G)])
    elif cmd in ("commutates", "anticommutates"):
        G = pad(strs(t[1]))
        P = "" if t[2] == "-" else t[2]
        H = opt(t[3], True)
        S = G if H is None else H
        if any(len(g) != len(P) for g in S):
            exp = "!ValueError"
        elif cmd == "commutates":
            exp = show([g for g in S if g != P and not anti(g, P)])
        else:
            exp = show([g for g in S if g != P and anti(g, P)])
    elif cmd == "frame":
        G = pad(strs(t[1]))
        n = len(G[0]) if G else 0
        al = allstr(n)
        parent = {v: v for v in al}
        def find(v):
            while parent[v] != v:
                parent[v] = parent[parent[v]]; v = parent[v]
            return v
        iso = 0
        for p in al:
            lone = True
            for g in G:
                if anti(p, g):
                    lone = False
                    parent[find(p)] = find(mul(p, g))
            iso += lone
        comps = len({find(v) for v in al})
        exp = f"comps={comps} iso={iso} fp={comps * iso}"
    elif cmd == "charges":
        G = pad(strs(t[1]))
        n = len(G[0]) if G else 0
        comm = [p for p in allstr(n) if all(not anti(p, g) for g in G)] if G else []
        want = sorted(d(c) for c in comm if any(anti(c, q) for q in comm))
        got = sorted(out.split(",")) if out != "-" else []
        if out.startswith("!") or got != want or len(set(got)) != len(got):
            return f"{line[:200]}: implementation [{out[:200]}], definition (as a set) [{','.join(want)[:200]}]"
        return None
    else:
        return None
    return None if out == exp else f"{line[:200]}: implementation [{out[:200]}] definition [{exp[:200]}]"

def rand_list(rng, G, n, allow_mixed=True):
    """a search list aimed at the collection G on n qubits"""
    r = rng.random()
    if r < 0.12:
        return "None"
    k = rng.randint(0, 6)
    L = [rs(rng, n, rng.choice([1, 1, 3])) for _ in range(k)]
    if G and rng.random() < 0.6:
        L += rng.sample(G, rng.randint(1, len(G)))
    if G and len(G) >= 2 and rng.random() < 0.4:
        a, b = rng.sample(G, 2)
        L.append(mul(*pad([a, b])))
    if L and rng.random() < 0.2:
        L.append(rng.choice(L))
    if allow_mixed and rng.random() < 0.08:
        L.append(rs(rng, n + rng.choice([1, -1]) if n > 1 else n + 1))
    rng.shuffle(L)
    return ",".join(d(x) for x in L) or "-"

def shrink(line):
    t = line.split(" ")
    for fi in range(1, len(t)):
        if t[fi] in ("None", "self", "-") or "," not in t[fi]:
            continue
        gs = t[fi].split(",")
        for i in range(len(gs)):
            yield " ".join(t[:fi] + [",".join(gs[:i] + gs[i + 1:])] + t[fi + 1:])

def extra_streams(rng, tier):
    th = tier == "thorough"
    P, C, F = [], [], []
    for _ in range(4000 if th else 900):
        n = rng.randint(1, 6)
        p = rs(rng, n, rng.choice([1, 1, 3]))
        big = n <= (4 if th else 3)
        l = rand_list(rng, [p], n) if (rng.random() < 0.9 or not big) else "None"
        if l == "None" and not big:
            l = "-"
        P += [f"pscomm {p} {l}", f"psanti {p} {l}", f"nested {p} {l}"]
    P += [f"nested {rs(rng, n)} None" for n in (1, 2, 2, 3, 3) for _ in range(3)]
    for _ in range(4000 if th else 900):
        g = gen_coll(rng, 6, 7)
        G = pad(strs(g))
        n = len(G[0]) if G else rng.randint(1, 3)
        h = rand_list(rng, G, n)
        if h == "None" and n > (4 if th else 3):
            h = "self"
        C.append(f"anticommutants {g} {h}")
        if rng.random() < 0.35:
            C.append(f"anticommutants {g} self")
        p = rng.choice(G) if (G and rng.random() < 0.6) else rs(rng, n if rng.random() < 0.93 else n + 1)
        h2 = rand_list(rng, G, n)
        C += [f"commutates {g} {d(p)} {h2}", f"anticommutates {g} {d(p)} {h2}"]
    for _ in range(700 if th else 160):
        g = gen_coll(rng, 4 if th else 3, 5)
        F += [f"frame {g}", f"charges {g}"]
    for _ in range(10 if th else 2):
        g = gen_coll(rng, 5 if th else 4, 4)
        F += [f"frame {g}", f"charges {g}"]
    # exhaustive tiny domain: all collections of <= 2 strings on 1 qubit and (sampled in quick) 2 qubits
    tiny = []
    for n in (1, 2):
        al = allstr(n)
        for k in range(0, 3):
            for combo in itertools.product(al, repeat=k):
                if n == 2 and k == 2 and rng.random() > (1.0 if th else 0.3):
                    continue
                c = ",".join(combo) or "-"
                tiny += [f"frame {c}", f"charges {c}", f"anticommutants {c} None", f"anticommutants {c} self",
                         f"anticommutants {c} {','.join(al)}"]
                for p in al[:2] + al[-1:]:
                    tiny += [f"commutates {c} {p} None", f"anticommutates {c} {p} None"]
        for p in al:
            tiny += [f"pscomm {p} None", f"psanti {p} None", f"nested {p} None", f"nested {p} {','.join(al)}"]
    h = IG.handle
    tag = lambda l, o: "x:" + l.split(" ")[0] + (":err" if o.startswith("!") else (":alias" if l.endswith(" self") else ""))
    nt = lambda l, o: o != "-" and not o.startswith("!") and "iso=0" not in o
    kw = dict(tag=tag, nontrivial=nt, shrink=shrink)
    return [
        Stream("extra:tiny-exhaustive", tiny, h, oracle, **kw),
        Stream("extra:string-level", P, h, oracle, **kw),
        Stream("extra:collection-level", C, h, oracle, **kw),
        Stream("extra:frame-potential-and-charges", F, h, oracle, **kw),
    ]

RULE_EXTRA = ("graph helpers: random strings / collections on 1..6 qubits with search lists aimed at them (members, products of members, "
              "duplicates, strings of another length, None = all 4^n strings for n<=3 (thorough 4), the collection object itself), frame "
              "potential and charges on n<=3 (a few at n=4; thorough 4/5), all collections of <=2 strings on 1 and 2 qubits.  Oracle: direct "
              "double loops / union-find over letter-wise (anti)commutation")
