"""C18 — in-place edits and views of a Pauli string stay mutually consistent."""
from __future__ import annotations
import json
from common import *
from engine import *
import impl_ps
from paulie.common.pauli_string_bitarray import PauliString

PID = "C18"
THEOREMS = ["PauLie.C18.C18_step", "PauLie.C18.C18_reachable", "PauLie.C18.C18_observe",
            "PauLie.C18.C18_observe_any", "PauLie.C18.C18_set_spec", "PauLie.C18.C18_fresh", "PauLie.C18.C18_enum"]
IMPORTS = ["PauLieVerif.Properties.C18"]

def rs(rng, n):
    return "".join(rng.choice("IXYZ") for _ in range(n))

def gen_hist(rng, maxlen, maxn):
    n = rng.choice([1, 1, 2, 3, 4, 5, 6, 8, 12]) if maxn >= 12 else rng.randint(1, maxn)
    s = rs(rng, n)
    ops = []
    cur = n
    for _ in range(rng.randint(1, maxlen)):
        r = rng.random()
        if r < 0.35:
            qn = rng.choice([1, 1, 1, 2, 3, max(1, cur)])
            start = rng.choice([0, cur - 1, cur, -1, -cur, -cur - 1, cur - qn, cur - qn + 1, rng.randint(-cur - 2, cur + 2)])
            if rng.random() < 0.5:
                ops.append(f"setps {start} {rs(rng, qn)}")
            else:
                txt = rs(rng, qn)
                if rng.random() < 0.2:   # sparse / malformed text as str operand
                    txt = rng.choice([f"X_{qn}", f"Z_{qn}s{qn + 1}", "Q", "X_", "", "Y_2"])
                ops.append(f"set {start} {hx(txt)}")
        elif r < 0.5:
            ops.append("inc")
        elif r < 0.6:
            ops.append(f"getsub {rng.randint(-cur - 1, cur + 1)} {rng.choice([1, 1, 2, 0, cur, -1])}")
        elif r < 0.67:
            ops.append("iter")
        elif r < 0.74 and cur < 14:
            q = rs(rng, rng.randint(0, 3)) or "-"
            ops.append(("tensor " if rng.random() < 0.7 else "rtensor ") + q)
            cur += 0 if q == "-" else len(q)
        elif r < 0.8 and cur < 14:
            m = rng.choice([cur, cur + 1, cur + 2, cur - 1])
            ops.append(f"expand {m}")
            cur = max(cur, m)
        elif r < 0.85:
            ops.append("copy")
        else:
            ops.append(f"obs {rs(rng, cur) if rng.random() < 0.85 else rs(rng, max(0, cur - 1)) or '-'}")
    ops.append(f"obs {rs(rng, cur)}")
    return "hist " + "|".join([s] + ops)

def oracle_hist(line, out):
    """After every step all three views and every observation must equal those of
    a string freshly built from the resulting text (evaluated on the implementation)."""
    steps = out.split(";")
    for st in steps:
        d = st.split("@")[-1]
        f = d.split("/")
        if len(f) != 4:
            return f"malformed dump {d}"
        txt, b, e, o = ["" if x == "-" else x for x in f]
        fresh = PauliString(pauli_str=txt)
        exp = impl_ps.dump(fresh)
        if exp != d:
            return f"views out of sync after a step: object shows {d}, fresh string from its text shows {exp}"
    # observation steps: replay on fresh objects
    parts = line[5:].split("|")
    for op, st in zip(parts[1:], steps[1:]):
        if op.startswith("obs ") and "@" in st:
            r, d = st.split("@")
            txt = d.split("/")[0]
            fresh_line = "hist " + txt + "|" + op
            fr = impl_ps.hist(fresh_line).split(";")[1].split("@")[0]
            if fr != r:
                return f"observation differs from that of a freshly built string: {r} vs {fr}"
    return oracle_side(line)

def oracle_side(line):
    """second pass over the history on the implementation with observations that are not part of the protocol reply:
    the hash (asked before AND after every edit, so that a memoised value would be seen), membership in a set of fresh
    strings, repr, and the text tensor/expand/copy must produce (concatenated / padded / same)."""
    parts = line[5:].split("|")
    try:
        s = impl_ps.mk(parts[0])
    except Exception:
        return None
    def fresh(x):
        return PauliString(pauli_str=str(x))
    def hash_ok(x, when):
        f = fresh(x)
        if hash(x) != hash(f) or x not in {f} or f not in {x}:
            return f"{when}: hash(P) differs from the hash of a string freshly built from its text {str(x)!r} (P == fresh is {x == f})"
        if repr(x) != repr(f):
            return f"{when}: repr differs from that of a fresh string: {repr(x)} vs {repr(f)}"
        return None
    why = hash_ok(s, "initially")
    if why:
        return why
    for k, op in enumerate(parts[1:]):
        t = op.split(" ")
        prev = str(s)
        expect = None
        try:
            if t[0] == "set":
                s.set_substring(int(t[1]), unhx(t[2]))
            elif t[0] == "setps":
                s.set_substring(int(t[1]), impl_ps.mk(t[2]))
            elif t[0] == "inc":
                s.inc()
            elif t[0] == "tensor":
                q = impl_ps.mk(t[1]); s = s.tensor(q); expect = prev + str(q)
            elif t[0] == "rtensor":
                q = impl_ps.mk(t[1]); s = q + s; expect = str(q) + prev
            elif t[0] == "expand":
                n = int(t[1])
                if n >= len(prev):
                    expect = prev + "I" * (n - len(prev))
                s = s.expand(n)
            elif t[0] == "copy":
                s = s.copy(); expect = prev
        except Exception:
            expect = None
        if expect is not None and str(s) != expect:
            return f"step {k + 1} ({op}): the result has text {str(s)!r}, expected {expect!r} (concatenated / padded / copied text of {prev!r})"
        why = hash_ok(s, f"after step {k + 1} ({op})")
        if why:
            return why
    return None

def oracle_genall(line, out):
    n = int(line.split(" ")[1])
    items = out.split(",")
    if n == 0:
        return None
    if len(items) != 4 ** n:
        return f"gen_all_pauli_strings({n}) yields {len(items)} strings"
    seen = set()
    for i, it in enumerate(items):
        s, idx = it.split(":")
        if idx != str(i) or len(s) != n or s in seen:
            return f"gen_all_pauli_strings({n}) item {i} is {it}"
        seen.add(s)
    return None

def aliasing_cases(rng, k):
    """tensor/expand/copy/__copy__/get_substring must return independent objects: edit either side in place
    (set_substring at every kind of position, inc) and observe ALL views (text, bits, both halves) of the other
    side; every object must still equal a string freshly built from its text (not expressible in the value model)."""
    import copy as _copy
    bad = []
    def fresh_dump(x):
        return impl_ps.dump(PauliString(pauli_str=str(x)))
    def edit(x, n):
        r = rng.random()
        if r < 0.7 and n > 0:
            x.set_substring(rng.randint(0, n - 1), rng.choice("XYZI") if rng.random() < 0.5 else PauliString(pauli_str=rng.choice("XYZI")))
        elif r < 0.85 and n > 0:
            x[rng.randint(0, n - 1)] = rng.choice("XYZ")
        else:
            x.inc()
    for _ in range(k):
        n = rng.randint(1, 6)
        a = PauliString(pauli_str=rs(rng, n)); b = PauliString(pauli_str=rs(rng, rng.randint(1, 3)))
        derived = {"tensor": a.tensor(b), "add": a + b, "expand": a.expand(n + 2), "expand-same": a.expand(n), "copy": a.copy(),
                   "__copy__": _copy.copy(a), "get_substring": a.get_substring(0, n), "create_instance": a.create_instance(pauli_str=str(a))}
        for name, d in derived.items():
            before_d, before_a = impl_ps.dump(d), impl_ps.dump(a)
            # edit the source, observe the derived object
            for _e in range(rng.randint(1, 3)):
                edit(a, n)
            if impl_ps.dump(d) != before_d:
                bad.append(f"{name}: result changed from {before_d} to {impl_ps.dump(d)} after editing the operand in place")
            if impl_ps.dump(a) != fresh_dump(a):
                bad.append(f"{name}: operand views out of sync after editing it: {impl_ps.dump(a)} vs fresh {fresh_dump(a)}")
            # edit the derived object, observe the source
            before_a = impl_ps.dump(a)
            for _e in range(rng.randint(1, 3)):
                edit(d, len(d))
            if impl_ps.dump(a) != before_a:
                bad.append(f"{name}: operand changed from {before_a} to {impl_ps.dump(a)} after editing the result in place")
            if impl_ps.dump(d) != fresh_dump(d):
                bad.append(f"{name}: result views out of sync after editing it: {impl_ps.dump(d)} vs fresh {fresh_dump(d)}")
    # producers without an operand (factory functions, the enumeration, products): two calls give two independent objects
    from paulie.common.pauli_string_factory import get_identity, get_single, get_last, get_pauli_string
    for _ in range(max(1, k // 4)):
        n = rng.randint(1, 4)
        i, lab, j = rng.randrange(n), rng.choice("XYZ"), rng.randrange(4 ** n)
        u, v = PauliString(pauli_str=rs(rng, n)), PauliString(pauli_str=rs(rng, n))
        txt = rs(rng, n)
        producers = {f"get_identity({n})": lambda: get_identity(n), f"get_single({n},{i},{lab})": lambda: get_single(n, i, lab),
                     f"get_last({n})": lambda: get_last(n), f"PauliString(n={n})": lambda: PauliString(n=n),
                     f"gen_all_pauli_strings()[{j}] at n={n}": lambda: list(PauliString(n=n).gen_all_pauli_strings())[j],
                     f"get_pauli_string('{txt}')": lambda: get_pauli_string(txt),
                     f"{u}@{v}": lambda: u @ v, f"{u}.multiply({v})": lambda: u.multiply(v),
                     f"{u}.get_commutants()[0]": lambda: u.get_commutants()[0]}
        for name, f in producers.items():
            first, x = f(), f()
            d0 = impl_ps.dump(x)
            if impl_ps.dump(first) != d0 or d0 != fresh_dump(x):
                bad.append(f"{name}: two calls give {impl_ps.dump(first)} and {d0} (fresh build of the text: {fresh_dump(x)})")
                continue
            for _e in range(rng.randint(1, 3)):
                edit(x, n)
            if impl_ps.dump(first) != d0:
                bad.append(f"{name}: an object handed out earlier changed from {d0} to {impl_ps.dump(first)} after editing another result in place")
            later = impl_ps.dump(f())
            if later != d0:
                bad.append(f"{name}: a later call gives {later} after an earlier result was edited in place (before: {d0})")
    return bad

# ---- strings made by the OTHER constructors (text together with a larger length, the factory with n, create_instance), and
# traversals that stop early before the next traversal: every observation equals that of a string freshly built from the text
def ctor_handle(line):
    from paulie.common.pauli_string_factory import get_pauli_string
    try:
        _, kind, n, t, q = line.split(" ")
        n = int(n); t = "" if t == "-" else t; q = "" if q == "-" else q
        exp = t + "I" * (n - len(t))
        if kind == "ctor": p = PauliString(n=n, pauli_str=t)
        elif kind == "factory": p = get_pauli_string(t, n=n)
        elif kind == "instance": p = PauliString(pauli_str="X").create_instance(n=n, pauli_str=t)
        elif kind == "sparse":
            # the same letters in sparse notation with an explicit size
            items = "".join(f"{ch}_{i + 1}" for i, ch in enumerate(t) if ch != "I") or "I"
            p = PauliString(pauli_str=f"{items}s{n}")
        else: return "bad-op"
        f = PauliString(pauli_str=exp)
        def look(x):
            Q = PauliString(pauli_str=q)
            return (impl_ps.dump(x) + f" idx={guard(lambda: str(x.get_index()))} didx={guard(lambda: str(x.get_diagonal_index()))} "
                    + guard(lambda: impl_ps.pair_of(x, Q)) + " r:" + guard(lambda: impl_ps.pair_of(Q, x)) + f" eq={x == f} hash={hash(x) == hash(f)}")
        a, b = look(p), look(f)
        if a != b:
            return f"{kind}: string made from text {t!r} with n={n} observed as [{a}], a string built from {exp!r} as [{b}]"
        # traversals that stop early, then complete ones
        for x in (p, f):
            it = iter(x); next(it, None); next(it, None)
            "X" in [str(c) for c in zip(x, range(1))]
        la, lb = [str(c) for c in p], [str(c) for c in f]
        if la != list(exp) or lb != list(exp) or [str(c) for c in p] != list(exp):
            return f"{kind}: after an unfinished traversal, iterating {exp!r} yields {la} / {lb}"
        # editing beyond the original text length
        if n > 0:
            p[n - 1] = "Y"; f[n - 1] = "Y"
            if impl_ps.dump(p) != impl_ps.dump(f):
                return f"{kind}: after p[{n - 1}]='Y' the string made with n={n} is {impl_ps.dump(p)}, the fresh one {impl_ps.dump(f)}"
        return "ok"
    except Exception as e:
        return exc_name(e)

def gen_ctor(rng, k):
    out = []
    for _ in range(k):
        L = rng.randint(0, 5); n = L + rng.randint(0, 4)
        if n == 0:
            n = 1
        out.append(f"ctor {rng.choice(['ctor', 'ctor', 'factory', 'instance', 'sparse'])} {n} {rs(rng, L) or '-'} {rs(rng, n) or '-'}")
    return out

def shrink_hist(line):
    parts = line[5:].split("|")
    for i in range(1, len(parts)):
        yield "hist " + "|".join(parts[:i] + parts[i + 1:])

def build_streams(rng, tier):
    th = tier == "thorough"
    hs = [gen_hist(rng, 400 if th else 40, 12) for _ in range(4000 if th else 1500)]
    ga = [f"genall {n}" for n in range(0, 7 if th else 6)]
    h = impl_ps.handle
    def tag(l, o):
        return "indexError" if "!IndexError" in o else ("valueError" if "!ValueError" in o else "clean")
    sts = [
        Stream("corpus", corpus_lines(PID), h, lambda l, o: (oracle_hist if l.startswith("hist") else oracle_genall)(l, o)),
        Stream("edit-histories", hs, h, oracle_hist, tag=tag, shrink=shrink_hist,
               nontrivial=lambda l, o: l.count("|") >= 2),
        Stream("enumeration", ga, h, oracle_genall),
        Stream("other-constructors-and-unfinished-traversals", gen_ctor(rng, 3000 if th else 800), ctor_handle,
               oracle=lambda l, o: None if o == "ok" else o, model=False, tag=lambda l, o: "ctor:" + l.split(" ")[1] + (":ok" if o == "ok" else ":bad")),
    ]
    return sts

RULE = ("seeded random edit histories (set_substring with str and PauliString operands at boundary/negative/out-of-range "
        "positions, inc, get_substring, iteration, tensor, expand, copy, observation bundles) on strings of length 1..14; "
        "after every step the three bit views are dumped on both sides; gen_all_pauli_strings exhaustive n<=5 (thorough 6); "
        "non-trivial = at least two edits; distinct = distinct histories")

def main(tier):
    res_extra = aliasing_cases(random.Random(seed()), 400)
    def bs(rng, tier):
        return build_streams(rng, tier)
    rc = standard_main(PID, tier, "proof", THEOREMS, IMPORTS, bs, rule=RULE,
        assumptions=["value model: object independence of tensor/expand/copy results is checked on the implementation only "
                     "(8 kinds of derived objects, both sides edited in place, all views of the other side observed, 400 x 8 cases per run; 9 producers "
                     "without operand - factory functions, enumeration, products, commutants - called before and after an in-place edit of one result, 100 x 9 cases)",
                     "re-entrant iteration over one object (shared cursor `nextpos`) is runtime behaviour outside the model",
                     "hash is a function of `bits` (hash(str(bits))) and so covered by the equality of views"])
    if res_extra:
        print(f"VIOLATION property={PID} replay=/verif/replay/C18_alias.json {res_extra[0]}")
        os.makedirs(REPLAY, exist_ok=True)
        json.dump({"property": PID, "kind": "aliasing", "why": res_extra}, open(os.path.join(REPLAY, "C18_alias.json"), "w"))
        return 1
    return rc

def replay(path):
    r = json.load(open(path))
    line = r.get("line")
    if line.startswith("ctor "):
        out = ctor_handle(line)
        print("line:", line); print("oracle:", "holds" if out == "ok" else out)
        return 0 if out == "ok" else 1
    out = impl_ps.handle(line)
    why = (oracle_hist if line.startswith("hist") else oracle_genall)(line, out)
    print("line:", line); print("implementation:", out); print("model:", run_model([line])[0]); print("oracle:", why or "holds")
    return 1 if why else 0
