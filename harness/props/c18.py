"""C18 — in-place edits and views of a Pauli string stay mutually consistent."""
from __future__ import annotations
import json
from common import *
from engine import *
import impl_ps
from paulie.common.pauli_string_bitarray import PauliString

PID = "C18"
THEOREMS = ["PauLie.C18.C18_step", "PauLie.C18.C18_reachable", "PauLie.C18.C18_observe",
            "PauLie.C18.C18_observe_any", "PauLie.C18.C18_set_spec", "PauLie.C18.C18_fresh", "PauLie.C18.C18_enum"]
IMPORTS = ["PauLieVerif.Properties.C18"]

def rs(rng, n):
    return "".join(rng.choice("IXYZ") for _ in range(n))

def gen_hist(rng, maxlen, maxn):
    n = rng.choice([1, 1, 2, 3, 4, 5, 6, 8, 12]) if maxn >= 12 else rng.randint(1, maxn)
    s = rs(rng, n)
    ops = []
    cur = n
    for _ in range(rng.randint(1, maxlen)):
        r = rng.random()
        if r < 0.35:
            qn = rng.choice([1, 1, 1, 2, 3, max(1, cur)])
            start = rng.choice([0, cur - 1, cur, -1, -cur, -cur - 1, cur - qn, cur - qn + 1, rng.randint(-cur - 2, cur + 2)])
            if rng.random() < 0.5:
                ops.append(f"setps {start} {rs(rng, qn)}")
            else:
                txt = rs(rng, qn)
                if rng.random() < 0.2:   # sparse / malformed text as str operand
                    txt = rng.choice([f"X_{qn}", f"Z_{qn}s{qn + 1}", "Q", "X_", "", "Y_2"])
                ops.append(f"set {start} {hx(txt)}")
        elif r < 0.5:
            ops.append("inc")
        elif r < 0.6:
            ops.append(f"getsub {rng.randint(-cur - 1, cur + 1)} {rng.choice([1, 1, 2, 0, cur, -1])}")
        elif r < 0.67:
            ops.append("iter")
        elif r < 0.74 and cur < 14:
            q = rs(rng, rng.randint(0, 3)) or "-"
            ops.append(("tensor " if rng.random() < 0.7 else "rtensor ") + q)
            cur += 0 if q == "-" else len(q)
        elif r < 0.8 and cur < 14:
            m = rng.choice([cur, cur + 1, cur + 2, cur - 1])
            ops.append(f"expand {m}")
            cur = max(cur, m)
        elif r < 0.85:
            ops.append("copy")
        else:
            ops.append(f"obs {rs(rng, cur) if rng.random() < 0.85 else rs(rng, max(0, cur - 1)) or '-'}")
    ops.append(f"obs {rs(rng, cur)}")
    return "hist " + "|".join([s] + ops)

def oracle_hist(line, out):
    """After every step all three views and every observation must equal those of
    a string freshly built from the resulting text (evaluated on the implementation)."""
    steps = out.split(";")
    for st in steps:
        d = st.split("@")[-1]
        f = d.split("/")
        if len(f) != 4:
            return f"malformed dump {d}"
        txt, b, e, o = ["" if x == "-" else x for x in f]
        fresh = PauliString(pauli_str=txt)
        exp = impl_ps.dump(fresh)
        if exp != d:
            return f"views out of sync after a step: object shows {d}, fresh string from its text shows {exp}"
    # observation steps: replay on fresh objects
    parts = line[5:].split("|")
    for op, st in zip(parts[1:], steps[1:]):
        if op.startswith("obs ") and "@" in st:
            r, d = st.split("@")
            txt = d.split("/")[0]
            fresh_line = "hist " + txt + "|" + op
            fr = impl_ps.hist(fresh_line).split(";")[1].split("@")[0]
            if fr != r:
                return f"observation differs from that of a freshly built string: {r} vs {fr}"
    return None

def oracle_genall(line, out):
    n = int(line.split(" ")[1])
    items = out.split(",")
    if n == 0:
        return None
    if len(items) != 4 ** n:
        return f"gen_all_pauli_strings({n}) yields {len(items)} strings"
    seen = set()
    for i, it in enumerate(items):
        s, idx = it.split(":")
        if idx != str(i) or len(s) != n or s in seen:
            return f"gen_all_pauli_strings({n}) item {i} is {it}"
        seen.add(s)
    return None

def aliasing_cases(rng, k):
    """tensor/expand/copy must return independent objects: mutate the source
    afterwards and observe the result (not expressible in the value model)."""
    bad = []
    for _ in range(k):
        n = rng.randint(1, 6)
        a = PauliString(pauli_str=rs(rng, n)); b = PauliString(pauli_str=rs(rng, rng.randint(1, 3)))
        t, e, c = a.tensor(b), a.expand(n + 2), a.copy()
        st, se, sc = str(t), str(e), str(c)
        a.set_substring(0, rng.choice("XYZI")); a.inc(); b.inc()
        if (str(t), str(e), str(c)) != (st, se, sc):
            bad.append(f"result of tensor/expand/copy changed after mutating the operand ({st},{se},{sc})")
        c2 = a.copy(); c2.inc()
        if c2 is a or str(c2) == str(a) and n > 0 and False:
            bad.append("copy aliases")
    return bad

def shrink_hist(line):
    parts = line[5:].split("|")
    for i in range(1, len(parts)):
        yield "hist " + "|".join(parts[:i] + parts[i + 1:])

def build_streams(rng, tier):
    th = tier == "thorough"
    hs = [gen_hist(rng, 400 if th else 40, 12) for _ in range(4000 if th else 1500)]
    ga = [f"genall {n}" for n in range(0, 7 if th else 6)]
    h = impl_ps.handle
    def tag(l, o):
        return "indexError" if "!IndexError" in o else ("valueError" if "!ValueError" in o else "clean")
    sts = [
        Stream("corpus", corpus_lines(PID), h, lambda l, o: (oracle_hist if l.startswith("hist") else oracle_genall)(l, o)),
        Stream("edit-histories", hs, h, oracle_hist, tag=tag, shrink=shrink_hist,
               nontrivial=lambda l, o: l.count("|") >= 2),
        Stream("enumeration", ga, h, oracle_genall),
    ]
    return sts

RULE = ("seeded random edit histories (set_substring with str and PauliString operands at boundary/negative/out-of-range "
        "positions, inc, get_substring, iteration, tensor, expand, copy, observation bundles) on strings of length 1..14; "
        "after every step the three bit views are dumped on both sides; gen_all_pauli_strings exhaustive n<=5 (thorough 6); "
        "non-trivial = at least two edits; distinct = distinct histories")

def main(tier):
    res_extra = aliasing_cases(random.Random(seed()), 300)
    def bs(rng, tier):
        return build_streams(rng, tier)
    rc = standard_main(PID, tier, "proof", THEOREMS, IMPORTS, bs, rule=RULE,
        assumptions=["value model: object independence of tensor/expand/copy results is checked on the implementation only "
                     "(mutate the operand afterwards, 300 cases per run)",
                     "re-entrant iteration over one object (shared cursor `nextpos`) is runtime behaviour outside the model",
                     "hash is a function of `bits` (hash(str(bits))) and so covered by the equality of views"])
    if res_extra:
        print(f"VIOLATION property={PID} replay=/verif/replay/C18_alias.json {res_extra[0]}")
        os.makedirs(REPLAY, exist_ok=True)
        json.dump({"property": PID, "kind": "aliasing", "why": res_extra}, open(os.path.join(REPLAY, "C18_alias.json"), "w"))
        return 1
    return rc

def replay(path):
    r = json.load(open(path))
    line = r.get("line")
    out = impl_ps.handle(line)
    why = (oracle_hist if line.startswith("hist") else oracle_genall)(line, out)
    print("line:", line); print("implementation:", out); print("model:", run_model([line])[0]); print("oracle:", why or "holds")
    return 1 if why else 0
