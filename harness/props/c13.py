"""C13 — Pauli decomposition reconstructs the matrix, with one index convention."""
from __future__ import annotations
import itertools, json, math
from fractions import Fraction
import numpy as np
from common import *
from engine import *
import impl_decomp as impl
from paulie.common.pauli_string_bitarray import PauliString

PID = "C13"
THEOREMS = [
    "PauLie.C13.C13_coeff", "PauLie.C13.C13_recon", "PauLie.C13.C13_diag", "PauLie.C13.C13_weights",
    "PauLie.C13.C13_influence", "PauLie.C13.C13_probs", "PauLie.C13.C13_guards", "PauLie.C13.C13_guards_diagonal",
    "PauLie.C13.C13_lookup_guard", "PauLie.C13.C13_layout", "PauLie.C13.C13_loop_is_recursive_transform",
]
IMPORTS = ["PauLieVerif.Properties.C13"]

# ---------------------------------------------------------------- independent oracle
_S = {"I": np.array([[1, 0], [0, 1]], dtype=complex), "X": np.array([[0, 1], [1, 0]], dtype=complex),
      "Y": np.array([[0, -1j], [1j, 0]]), "Z": np.array([[1, 0], [0, -1]], dtype=complex)}
_LET = "IXYZ"
_S4 = np.stack([_S[l] for l in _LET])

def dense(s):
    m = np.array([[1]], dtype=complex)
    for ch in s:
        m = np.kron(m, _S[ch])
    return m

def all_strings(n):
    return ["".join(t) for t in itertools.product(_LET, repeat=n)]

_IDX = {}
def index_map(n):
    """position in the weight vector of every string of length n, *as the string itself says*
    (PauliString.get_index); checked to be a bijection onto range(4^n)"""
    if n not in _IDX:
        idx = [PauliString(pauli_str=s).get_index() for s in all_strings(n)]
        assert sorted(idx) == list(range(4 ** n)), "get_index is not a bijection"
        _IDX[n] = np.array(idx)
    return _IDX[n]

_EIN = "abcdefghijklmnopqrstuvwxyzABCDEFGHIJKLMNOPQRSTUVWXYZ"
def coeffs(A, n):
    """tr(M(P) A)/2^n for all P (product order over IXYZ), by tensor contraction site by site."""
    r, c, p = _EIN[:n], _EIN[n:2 * n], _EIN[2 * n:3 * n]
    # tr(M(P) A) = sum_{x,y} M(P)[x,y] A[y,x];  A tensor axes: rows r.., cols c..
    spec = r + c + "," + ",".join(p[k] + c[k] + r[k] for k in range(n)) + "->" + p
    T = np.einsum(spec, A.reshape([2] * (2 * n)).astype(complex), *([_S4] * n), optimize=True)
    return T.reshape(-1) / (2 ** n)

def rebuild(cvec, n):
    """sum_P c[P] M(P) (c in product order over IXYZ)"""
    r, c, p = _EIN[:n], _EIN[n:2 * n], _EIN[2 * n:3 * n]
    spec = p + "," + ",".join(p[k] + r[k] + c[k] for k in range(n)) + "->" + r + c
    return np.einsum(spec, cvec.reshape([4] * n), *([_S4] * n), optimize=True).reshape(2 ** n, 2 ** n)

def parse_vec(out):
    if out == "-":
        return np.zeros(0, dtype=complex)
    return np.array([complex(float(a), float(b)) for a, b in impl.parse_entries(out)], dtype=complex)

def arr_of(sh, dt):
    ent = impl.parse_entries(dt)
    return np.array([complex(float(a), float(b)) for a, b in ent], dtype=complex).reshape(impl.parse_shape(sh))

def valid_matrix_shape(shape):
    return len(shape) == 2 and shape[0] == shape[1] and shape[0] >= 2 and (shape[0] & (shape[0] - 1)) == 0

def valid_diag_shape(shape):
    return len(shape) == 1 and shape[0] >= 2 and (shape[0] & (shape[0] - 1)) == 0

def tol_of(A):
    return 1e-9 * max(1.0, float(np.max(np.abs(A))) if A.size else 1.0)

def oracle_decomp(line, out):
    line, _lay = impl.split_layout(line)
    _, sh, dt = line.split(" ")
    shape = impl.parse_shape(sh)
    if not valid_matrix_shape(shape):
        return None if out == "!ValueError" else f"matrix_decomposition on shape {shape} must raise ValueError, got {out[:60]}"
    if out.startswith("!"):
        return f"matrix_decomposition raised {out} on a valid {shape} matrix"
    A = arr_of(sh, dt)
    n = shape[0].bit_length() - 1
    w = parse_vec(out)
    if len(w) != 4 ** n:
        return f"weight vector has length {len(w)}, expected {4 ** n}"
    wp = w[index_map(n)]                       # w[P.get_index()] in product order
    tol = tol_of(A)
    exp = coeffs(A, n)
    k = int(np.argmax(np.abs(wp - exp)))
    if abs(wp[k] - exp[k]) > tol:
        return f"w[{all_strings(n)[k]}] = {wp[k]} but tr(M(P)A)/2^n = {exp[k]}"
    R = rebuild(wp, n)
    if np.max(np.abs(R - A)) > tol * 4 ** n:
        return f"sum_P w[P] M(P) differs from A by {np.max(np.abs(R - A))}"
    return None

def oracle_dlook(line, out):
    line, _lay = impl.split_layout(line)
    cmd, ps, sh, dt = line.split(" ")
    diag = cmd == "dlookd"
    shape = impl.parse_shape(sh)
    ok = valid_diag_shape(shape) if diag else valid_matrix_shape(shape)
    if not ok:
        return None if out == "!ValueError" else f"{cmd} on shape {shape} must raise ValueError, got {out[:60]}"
    if out.startswith("!") and "," not in out and len(ps.split(",")) != 1:
        return f"{cmd} raised {out} on a valid input"
    A = arr_of(sh, dt)
    if diag:
        A = np.diag(A)
    n = shape[0].bit_length() - 1
    strs = [] if ps == "-" else ps.split(",")
    res = out.split(",") if out != "-" else []
    tol = tol_of(A)
    vals = {}
    for s, r in zip(strs, res):
        if len(s) != n:
            L = 2 ** n if diag else 4 ** n
            if L in (2 ** len(s), 4 ** len(s)):
                continue      # e.g. a 2-letter key and a 4-vector: the vector is read as a diagonal one (dispatch on length); not this property
            if r != "!ValueError":
                return f"lookup of {s} (length {len(s)}) in a {L}-vector must raise ValueError, got {r}"
            continue
        if r.startswith("!"):
            return f"lookup of {s} raised {r}"
        v = parse_vec(r)[0]
        e = np.trace(dense(s) @ A) / 2 ** n
        if abs(v - e) > tol:
            return f"weight looked up by {s} is {v}, tr(M(P)A)/2^n = {e}"
        vals[s] = v
    if set(vals) == set(all_strings(n)):
        R = sum(vals[s] * dense(s) for s in vals)
        if np.max(np.abs(R - A)) > tol * 4 ** n:
            return "sum_P w[P] M(P) != A (weights as looked up by the strings)"
    if diag:
        # the diagonal variant agrees with the general one on the diagonal matrix
        other = impl.dlook(ps, f"{shape[0]}x{shape[0]}", impl.show_vec(A), layout=_lay if _lay in ("C", "F", "R") else "C")
        a, b = out.split(","), other.split(",")
        for s, x, y in zip(strs, a, b):
            if x.startswith("!") or y.startswith("!"):
                if x != y:
                    return f"diagonal/general lookups of {s} differ: {x} vs {y}"
            elif abs(parse_vec(x)[0] - parse_vec(y)[0]) > tol:
                return f"diagonal variant gives {x} for {s}, general decomposition of diag(d) gives {y}"
    return None

def oracle_decompd(line, out):
    line, _lay = impl.split_layout(line)
    _, sh, dt = line.split(" ")
    shape = impl.parse_shape(sh)
    if not valid_diag_shape(shape):
        return None if out == "!ValueError" else f"matrix_decomposition_diagonal on shape {shape} must raise ValueError, got {out[:60]}"
    if out.startswith("!"):
        return f"matrix_decomposition_diagonal raised {out} on a valid input"
    d = arr_of(sh, dt)
    n = shape[0].bit_length() - 1
    w = parse_vec(out)
    if len(w) != 2 ** n:
        return f"diagonal weight vector has length {len(w)}"
    A = np.diag(d)
    tol = tol_of(A)
    full = coeffs(A, n)[np.argsort(index_map(n))]          # expected general weight vector, by position
    for s, pos in zip(all_strings(n), index_map(n)):
        di = PauliString(pauli_str=s).get_diagonal_index()
        e = full[pos]
        v = w[di] if di > -1 else 0.0
        if abs(v - e) > tol:
            return f"diagonal variant: {s} -> {v}, general decomposition of diag(d) -> {e}"
    return None

def letter_count(s):
    return sum(ch != "I" for ch in s)

def oracle_pweights(line, out):
    _, n, ip = line.split(" ")
    n, ip = int(n), int(ip)
    if n < 0:
        return None if out.startswith("!") else "negative qubit number answered"
    if out.startswith("!"):
        return f"get_pauli_weights({n},{ip}) raised {out}"
    w = [int(x) for x in out.split(",")]
    if len(w) != 4 ** n:
        return f"weight table has {len(w)} entries"
    if ip != 0:
        return None            # the property speaks about the default identity position only
    if n == 0:
        return None if w == [0] else "weight table of zero qubits is not [0]"
    for s, pos in zip(all_strings(n), index_map(n)):
        if w[pos] != letter_count(s):
            return f"weights[{pos}] = {w[pos]} but the string with that index is {s}"
    return None

def oracle_weight(line, out):
    line, _lay = impl.split_layout(line)
    _, p, dt = line.split(" ")
    s = "" if p == "-" else p
    b = parse_vec(dt)
    n = len(s)
    if len(b) not in (2 ** n, 4 ** n) or n == 0:
        return None if out == "!ValueError" else f"get_weight_in_matrix({p}, len {len(b)}) must raise ValueError, got {out}"
    if out.startswith("!"):
        return f"get_weight_in_matrix({p}, len {len(b)}) raised {out}"
    v = parse_vec(out)[0]
    P = PauliString(pauli_str=s)
    if len(b) == 4 ** n:
        e = b[P.get_index()]
    else:
        e = b[int(s.replace("I", "0").replace("Z", "1"), 2)] if set(s) <= set("IZ") else 0.0
    return None if v == e else f"get_weight_in_matrix({p}) = {v}, expected entry {e}"

def _float_of(txt):
    return float(impl.frac(txt))

def oracle_stats_batch(lines, outs):
    """entropy / influence against their defining sums (independent coefficients), and
    against the model's exact |c_P|^2 and influence at tolerance"""
    lines = [impl.split_layout(l)[0] for l in lines]
    ml = []
    for l in lines:
        _, sh, dt = l.split(" ")
        n = max(impl.parse_shape(sh)[0].bit_length() - 1, 0) if impl.parse_shape(sh) else 0
        ws = ",".join(str(letter_count(s)) for s in sorted(all_strings(n), key=lambda s: PauliString(pauli_str=s).get_index())) if n >= 1 else "0"
        ml.append(f"infl {sh} {dt} {ws}")
    mo = run_model(ml)
    res = []
    for l, out, m in zip(lines, outs, mo):
        _, sh, dt = l.split(" ")
        shape = impl.parse_shape(sh)
        if not valid_matrix_shape(shape):
            res.append(None if out == "!ValueError" and m == "!ValueError" else f"stats on shape {shape}: implementation {out}, model {m}")
            continue
        if out.startswith("!"):
            res.append(f"entropy/influence raised {out}"); continue
        f = dict(x.split("=") for x in out.split(" "))
        H, I = _float_of(f["H"]), _float_of(f["I"])
        A = arr_of(sh, dt)
        n = shape[0].bit_length() - 1
        c = coeffs(A, n)
        p = np.abs(c) ** 2
        strs = all_strings(n)
        I0 = float(sum(letter_count(s) * q for s, q in zip(strs, p)))
        nz = p[p > 1e-12]
        H0 = float(-np.sum(nz * np.log2(nz)))
        scale = max(1.0, float(np.sum(p)) * n, abs(H0))
        if abs(I - I0) > 1e-9 * scale:
            res.append(f"influence {I} != sum_P |P| |c_P|^2 = {I0}"); continue
        if abs(H - H0) > 1e-9 * scale:
            res.append(f"entropy {H} != -sum p log2 p = {H0}"); continue
        if m.startswith("!") or abs(_float_of(m) - I) > 1e-9 * scale:
            res.append(f"influence {I} differs from the model's exact value {m}"); continue
        res.append(None)
    return res

# ---------------------------------------------------------------- generators

def dy(rng, kmax=64, smax=4):
    s = rng.randint(0, smax)
    return Fraction(rng.randint(-kmax, kmax), 2 ** s)

def show_entry(a, b):
    return f"{impl.show_frac(Fraction(a))}:{impl.show_frac(Fraction(b))}"

def show_data(ent):
    return ",".join(show_entry(a, b) for a, b in ent) if ent else "-"

def pauli_entries(s):
    m = dense(s)
    return [[(Fraction(int(z.real)), Fraction(int(z.imag))) for z in row] for row in m]

def gen_matrix(rng, n, kind):
    """-> rows of (re, im) Fractions"""
    N = 2 ** n
    Z = (Fraction(0), Fraction(0))
    if kind == "dense":
        return [[(dy(rng), dy(rng)) for _ in range(N)] for _ in range(N)]
    if kind == "real":
        return [[(dy(rng), Fraction(0)) for _ in range(N)] for _ in range(N)]
    if kind == "int":
        return [[(Fraction(rng.randint(-9, 9)), Fraction(0)) for _ in range(N)] for _ in range(N)]
    if kind == "sparse":
        m = [[Z] * N for _ in range(N)]
        for _ in range(rng.randint(1, max(1, N))):
            m[rng.randrange(N)][rng.randrange(N)] = (dy(rng), dy(rng))
        return m
    if kind == "hermitian":
        m = [[Z] * N for _ in range(N)]
        for i in range(N):
            m[i][i] = (dy(rng), Fraction(0))
            for j in range(i + 1, N):
                a, b = dy(rng), dy(rng)
                m[i][j] = (a, b); m[j][i] = (a, -b)
        return m
    if kind == "pauli":
        s = "".join(rng.choice(_LET) for _ in range(n))
        a, b = dy(rng), dy(rng)
        return [[(a * x - b * y, a * y + b * x) for x, y in row] for row in pauli_entries(s)]
    if kind == "pauli-sum":
        m = [[Z] * N for _ in range(N)]
        for _ in range(rng.randint(2, 4)):
            s = "".join(rng.choice(_LET) for _ in range(n))
            a, b = dy(rng, 8, 2), dy(rng, 8, 2)
            for i, row in enumerate(pauli_entries(s)):
                for j, (x, y) in enumerate(row):
                    m[i][j] = (m[i][j][0] + a * x - b * y, m[i][j][1] + a * y + b * x)
        return m
    if kind == "diagonal":
        m = [[Z] * N for _ in range(N)]
        for i in range(N):
            m[i][i] = (dy(rng), dy(rng))
        return m
    if kind == "unit":     # one matrix unit E_ij
        m = [[Z] * N for _ in range(N)]
        m[rng.randrange(N)][rng.randrange(N)] = (Fraction(1), Fraction(0))
        return m
    raise ValueError(kind)

KINDS = ["dense", "real", "int", "sparse", "hermitian", "pauli", "pauli-sum", "diagonal", "unit"]

def mat_line(cmd, rows, pre=""):
    N = len(rows)
    flat = [e for row in rows for e in row]
    return f"{cmd} {pre}{N}x{N} {show_data(flat)}"

def float_entry(rng):
    x = rng.choice([rng.uniform(-1, 1), rng.gauss(0, 10), rng.uniform(-1e3, 1e3), 0.0, rng.random() * 1e-3])
    return Fraction(*float(x).as_integer_ratio())

def shrink_line(line):
    """zero single entries; replace entries by 1; take the leading quadrant (the layout token is kept)"""
    base, lay = impl.split_layout(line)
    if lay != "C":
        for c in shrink_line(base):
            yield c + " layout=" + lay
        return
    t = line.split(" ")
    cmd = t[0]
    if cmd not in ("decomp", "decompd", "dlook", "dlookd", "stats"):
        return
    k = 2 if cmd in ("dlook", "dlookd") else 1
    sh, dt = t[k], t[k + 1]
    shape = impl.parse_shape(sh)
    ent = dt.split(",") if dt != "-" else []
    if len(shape) == 2 and shape[0] == shape[1] and shape[0] >= 4 and cmd in ("decomp", "stats"):
        N = shape[0]; h = N // 2
        for (r0, c0) in [(0, 0), (h, h), (0, h), (h, 0)]:
            sub = [ent[(r0 + i) * N + c0 + j] for i in range(h) for j in range(h)]
            yield " ".join(t[:k] + [f"{h}x{h}", ",".join(sub)] + t[k + 2:])
    for i, e in enumerate(ent):
        if e != "0:0":
            yield " ".join(t[:k] + [sh, ",".join(ent[:i] + ["0:0"] + ent[i + 1:])] + t[k + 2:])
    for i, e in enumerate(ent):
        if e not in ("0:0", "1:0"):
            yield " ".join(t[:k] + [sh, ",".join(ent[:i] + ["1:0"] + ent[i + 1:])] + t[k + 2:])

def nontrivial(line, out):
    return not out.startswith("!") and any(ch in "123456789" for ch in impl.split_layout(line)[0].split(" ", 1)[1])

LAYOUTS2 = ["C", "F", "T", "S", "O", "N", "R", "E", "F,R", "T,S", "S,N", "F,E", "O,R"]     # 2-D arrays
LAYOUTS1 = ["C", "S", "O", "N", "R", "E", "S,N", "O,R"]                                       # 1-D arrays


# ---- lookup keys that are NOT freshly parsed: one cursor object stepped through all strings with inc(), and strings edited in
# place; "w[P] is the entry the string P itself looks up" must hold for them as for a fresh string of the same text
def walk_handle(line):
    import numpy as np, random as _r
    from paulie.common.pauli_string_bitarray import PauliString
    from paulie.application.matrix_decomposition import matrix_decomposition, matrix_decomposition_diagonal
    try:
        _, n, sd = line.split(" ")
        n = int(n); r = _r.Random(f"walk:{n}:{sd}")
        N = 2 ** n
        A = np.array([[complex(r.randint(-8, 8) / 4, r.randint(-8, 8) / 4) if r.random() < 0.7 else 0 for _ in range(N)] for _ in range(N)])
        d = np.array([complex(r.randint(-8, 8) / 4, r.randint(-8, 8) / 4) for _ in range(N)])
        w, wd, wdg = matrix_decomposition(A), matrix_decomposition_diagonal(d), matrix_decomposition(np.diag(d))
        S = {"I": np.eye(2, dtype=complex), "X": np.array([[0, 1], [1, 0]], dtype=complex),
             "Y": np.array([[0, -1j], [1j, 0]]), "Z": np.array([[1, 0], [0, -1]], dtype=complex)}
        def M(t):
            m = np.array([[1]], dtype=complex)
            for ch in t:
                m = np.kron(m, S[ch])
            return m
        cur = PauliString(n=n)
        for i in range(4 ** n):
            t = str(cur)
            exp = np.trace(M(t) @ A) / N
            got = cur.get_weight_in_matrix(w)
            if abs(got - exp) > 1e-9:
                return f"cursor after {i} inc() steps reads {t}: it looks up {got} in the decomposition, tr(M(P)A)/2^n = {exp}"
            expd = np.trace(M(t) @ np.diag(d)) / N
            gd, gg = cur.get_weight_in_matrix(wd), cur.get_weight_in_matrix(wdg)
            if abs(gd - expd) > 1e-9 or abs(gg - expd) > 1e-9:
                return f"cursor after {i} inc() steps reads {t}: diagonal variant gives {gd}, general one {gg}, tr(M(P)diag d)/2^n = {expd}"
            if i % 3 == 2 and n >= 1:                     # an in-place edit and back
                old = t[i % n]
                cur[i % n] = "Y" if old != "Y" else "Z"
                t2 = str(cur)
                g2 = cur.get_weight_in_matrix(w)
                if abs(g2 - np.trace(M(t2) @ A) / N) > 1e-9 or abs(cur.get_weight_in_matrix(wd) - np.trace(M(t2) @ np.diag(d)) / N) > 1e-9:
                    return f"string edited in place to {t2} looks up a wrong weight"
                cur[i % n] = old
            cur.inc()
        return "ok"
    except Exception as e:
        return exc_name(e)

def build_streams(rng, tier):
    thorough = tier == "thorough"
    h = impl.handle
    kinds = {}
    def tagk(l, o):
        return ("error " + o) if o.startswith("!") else kinds.get(l, l.split(" ")[0])

    # ---- exact: dyadic matrices, full weight vector
    dec = []
    per_n = {1: 300, 2: 300, 3: 200, 4: 80, 5: 9} if not thorough else {1: 1500, 2: 1500, 3: 800, 4: 300, 5: 30}
    for n, cnt in per_n.items():
        for k in range(cnt):
            kind = KINDS[k % len(KINDS)]
            l = mat_line("decomp", gen_matrix(rng, n, kind))
            kinds[l] = f"decomp n={n} {kind}"
            dec.append(l)
    # the same kinds at magnitudes far from 1 (entries scaled by 2^-30 .. 2^-70 and 2^+40, and matrices mixing O(1) entries with
    # tiny ones): the decomposition is linear, so every coefficient — however small — is exact in dyadic arithmetic
    for n, cnt in ({1: 40, 2: 40, 3: 20} if not thorough else {1: 300, 2: 300, 3: 150, 4: 40}).items():
        for k in range(cnt):
            rows = gen_matrix(rng, n, KINDS[k % len(KINDS)])
            sc = Fraction(2) ** rng.choice([-30, -34, -40, -55, -70, 40])
            if k % 4 == 3:      # mixed magnitudes: one O(1) Pauli matrix plus a tiny matrix
                big = pauli_entries("".join(rng.choice(_LET) for _ in range(n)))
                sc = Fraction(2) ** rng.choice([-30, -34, -38])
                rows = [[(big[i][j][0] + rows[i][j][0] * sc, big[i][j][1] + rows[i][j][1] * sc) for j in range(2 ** n)] for i in range(2 ** n)]
                if any(Fraction(float(x)) != x for row in rows for e in row for x in e):
                    continue                                   # not representable as doubles
            else:
                rows = [[(a * sc, b * sc) for a, b in row] for row in rows]
            l = mat_line("decomp", rows); kinds[l] = f"decomp n={n} scaled"; dec.append(l)
    # every single Pauli matrix, n <= 2 (3 in thorough), and every matrix unit n <= 2
    for n in range(1, 4 if thorough else 3):
        for s in all_strings(n):
            l = mat_line("decomp", pauli_entries(s)); kinds[l] = f"decomp n={n} every-pauli"; dec.append(l)
    for n in (1, 2):
        N = 2 ** n
        for i in range(N):
            for j in range(N):
                m = [[(Fraction(int((a, b) == (i, j))), Fraction(0)) for b in range(N)] for a in range(N)]
                l = mat_line("decomp", m); kinds[l] = f"decomp n={n} every-unit"; dec.append(l)

    # ---- exact: every string as lookup key, n <= 3
    look = []
    per_n = {1: 150, 2: 150, 3: 100} if not thorough else {1: 600, 2: 600, 3: 400, 4: 40}
    for n, cnt in per_n.items():
        keys = all_strings(n)
        for k in range(cnt):
            kind = KINDS[k % len(KINDS)]
            ks = list(keys)
            if k % 5 == 0:      # some keys of the wrong length
                ks += ["".join(rng.choice(_LET) for _ in range(rng.choice([max(n - 1, 1), n + 1])))]
            rng.shuffle(ks)
            l = mat_line("dlook", gen_matrix(rng, n, kind), pre=",".join(ks) + " ")
            kinds[l] = f"dlook n={n} {kind}"
            look.append(l)

    # ---- exact: diagonal variant
    dg = []
    per_n = {1: 80, 2: 80, 3: 60, 4: 30, 5: 10} if not thorough else {1: 300, 2: 300, 3: 300, 4: 200, 5: 100, 6: 40}
    for n, cnt in per_n.items():
        N = 2 ** n
        for k in range(cnt):
            mode = k % 4
            if mode == 0:
                d = [(dy(rng), dy(rng)) for _ in range(N)]
            elif mode == 1:
                d = [(dy(rng), Fraction(0)) for _ in range(N)]
            elif mode == 2:
                d = [(Fraction(0), Fraction(0))] * N
                d = list(d); d[rng.randrange(N)] = (dy(rng), dy(rng))
            else:
                s = "".join(rng.choice("IZ") for _ in range(n))
                d = [(Fraction(int(dense(s)[i, i].real)), Fraction(0)) for i in range(N)]
            if n <= 3 and k % 2 == 0:
                ks = all_strings(n); rng.shuffle(ks)
                l = f"dlookd {','.join(ks)} {N} {show_data(d)}"
            else:
                l = f"decompd {N} {show_data(d)}"
            kinds[l] = f"{l.split(' ')[0]} n={n}"
            dg.append(l)

    # ---- the same logical matrices in different memory layouts
    lay = []
    for n, cnt in ({1: 8, 2: 10, 3: 6, 4: 2} if not thorough else {1: 30, 2: 40, 3: 30, 4: 10, 5: 2}).items():
        N = 2 ** n
        for k in range(cnt):
            kind = ["dense", "real", "int", "sparse", "unit", "pauli", "pauli-sum", "hermitian"][k % 8]
            rows = gen_matrix(rng, n, kind)
            keys = all_strings(n) if n <= 2 else rng.sample(all_strings(n), 12)
            for L in LAYOUTS2:
                l = mat_line("decomp", rows) + " layout=" + L
                kinds[l] = f"layout={L} decomp"; lay.append(l)
                if n <= 3 and k % 2 == 0:
                    l = mat_line("dlook", rows, pre=",".join(keys) + " ") + " layout=" + L
                    kinds[l] = f"layout={L} dlook"; lay.append(l)
            d = [(dy(rng), dy(rng) if k % 2 else Fraction(0)) for _ in range(N)]
            b = [(dy(rng), dy(rng)) for _ in range(4 ** n if k % 2 else N)]
            for L in LAYOUTS1:
                l = f"decompd {N} {show_data(d)} layout={L}"; kinds[l] = f"layout={L} decompd"; lay.append(l)
                if n <= 3:
                    l = f"dlookd {','.join(keys)} {N} {show_data(d)} layout={L}"; kinds[l] = f"layout={L} dlookd"; lay.append(l)
                    l = f"weight {rng.choice(keys)} {show_data(b)} layout={L}"; kinds[l] = f"layout={L} weight"; lay.append(l)
    # every matrix unit E_ij (the transpose is visible on each off-diagonal one), n = 1, 2, in every layout
    for n in (1, 2):
        N = 2 ** n
        for i in range(N):
            for j in range(N):
                m = [[(Fraction(int((a, b) == (i, j))), Fraction(0)) for b in range(N)] for a in range(N)]
                for L in LAYOUTS2[1:]:
                    l = mat_line("decomp", m) + " layout=" + L; kinds[l] = f"layout={L} decomp"; lay.append(l)
    # malformed shapes in non-default layouts
    for sh in [(), (1,), (3,), (1, 1), (0, 0), (2, 3), (3, 3), (6, 6), (2, 2, 2), (4, 1)]:
        size = 1
        for x in sh:
            size *= x
        ent = [(Fraction(rng.randint(-5, 5)), Fraction(rng.randint(-5, 5))) for _ in range(size)]
        for L in ["F", "S", "N", "R"]:
            for cmd in ("decomp", "decompd"):
                l = f"{cmd} {'x'.join(map(str, sh)) or '-'} {show_data(ent)} layout={L}"; kinds[l] = f"layout={L} guard"; lay.append(l)

    # ---- weight table
    pw = [f"pweights {n} {ip}" for n in range(0, 7 if thorough else 6) for ip in ((2, 0, 1, 3, -1, 4, 7, 0) if n % 2 == 0 else (0, 3, 0, 1, 2, -1, 4, 7, 0))] + ["pweights -1 0", "pweights -3 2"]
    # (a non-default identity position is asked BEFORE the default one for every other n, and the default one again at the
    #  end: a table remembered across calls must not leak from one convention into the other; this stream runs first)

    # ---- lookups in vectors of right and wrong length
    wl = []
    for _ in range(4000 if thorough else 800):
        n = rng.randint(0, 3)
        s = "".join(rng.choice(_LET if rng.random() < 0.6 else "IZ") for _ in range(n))
        L = rng.choice([2 ** n, 4 ** n, 2 ** n, 4 ** n, 0, 1, 2 ** n + 1, 4 ** n - 1, 2 ** (n + 1), 4 ** (n + 1), rng.randint(0, 70)])
        b = [(Fraction(rng.randint(-9, 9)), Fraction(rng.randint(-9, 9), 2)) for _ in range(L)]
        wl.append(f"weight {s or '-'} {show_data(b)}")

    # ---- guards
    gd = []
    shapes = [(), (1,), (2,), (3,), (4,), (5,), (6,), (0,), (8,), (1, 1), (0, 0), (2, 2), (2, 3), (3, 2), (3, 3), (4, 4), (5, 5), (6, 6),
              (7, 7), (8, 8), (12, 12), (2, 4), (4, 2), (1, 2), (2, 1), (0, 2), (1, 4), (4, 1), (2, 2, 2), (1, 1, 1), (4, 4, 1), (1, 2, 2),
              (2, 2, 1), (16,), (3, 1), (10, 10), (9, 9)]
    for sh in shapes:
        for rep in range(3 if not thorough else 8):
            size = 1
            for x in sh:
                size *= x
            ent = [(Fraction(rng.randint(-5, 5)), Fraction(rng.randint(-5, 5) if rep else 0)) for _ in range(size)]
            shs = "x".join(map(str, sh)) or "-"
            for cmd in ("decomp", "decompd"):
                gd.append(f"{cmd} {shs} {show_data(ent)}")
            if rep == 0:
                gd.append(f"dlook X,ZZ,I {shs} {show_data(ent)}")
                nw = sh[0] ** 2 if valid_matrix_shape(sh) else 4
                gd.append(f"infl {shs} {show_data(ent)} {','.join(['0'] + ['1'] * (nw - 1))}")

    # ---- influence, exact where the arithmetic is exact (Hermitian dyadic: real coefficients)
    inf = []
    for n, cnt in ({1: 60, 2: 60, 3: 30} if not thorough else {1: 300, 2: 300, 3: 200, 4: 40}).items():
        for k in range(cnt):
            rows = gen_matrix(rng, n, ["hermitian", "real", "int"][k % 3])
            mode = k % 6
            if mode == 4:
                ws = [rng.randint(0, 5)]
            elif mode == 5:
                ws = [rng.randint(0, 3) for _ in range(rng.choice([0, 2, 3, 4 ** n - 1, 4 ** n + 1]))]
            else:
                ws = [rng.randint(-2, 6) for _ in range(4 ** n)] if k % 2 else [int(x) for x in impl.pweights(n, 0).split(",")]
            l = mat_line("infl", rows) + " " + (",".join(map(str, ws)) or "-")
            # 'real'/'int' non-symmetric matrices can have imaginary coefficients: hypot is then not exact
            coef = coeffs(arr_of(*l.split(" ")[1:3]), n)
            if np.any((coef.real != 0) & (coef.imag != 0)):
                continue
            inf.append(l if k % 4 == 0 else l + " layout=" + LAYOUTS2[k % len(LAYOUTS2)])

    # ---- generic floating point, implementation against the oracle only
    gen = []
    for n, cnt in ({1: 60, 2: 60, 3: 40, 4: 30, 5: 12, 6: 6} if not thorough else {1: 300, 2: 300, 3: 300, 4: 200, 5: 80, 6: 40}).items():
        N = 2 ** n
        for k in range(cnt):
            mode = k % 3
            rows = [[(float_entry(rng), float_entry(rng) if mode != 1 else Fraction(0)) for _ in range(N)] for _ in range(N)]
            if mode == 2:   # Hermitian
                for i in range(N):
                    rows[i][i] = (rows[i][i][0], Fraction(0))
                    for j in range(i + 1, N):
                        rows[j][i] = (rows[i][j][0], -rows[i][j][1])
            gen.append(mat_line("decomp", rows) + ("" if k % 3 == 0 else " layout=" + LAYOUTS2[(k // 3 + k) % len(LAYOUTS2)]))
    st = []
    for n, cnt in ({1: 40, 2: 40, 3: 30, 4: 10} if not thorough else {1: 200, 2: 200, 3: 200, 4: 100, 5: 20}).items():
        N = 2 ** n
        for k in range(cnt):
            if k % 3 == 0:
                rows = gen_matrix(rng, n, KINDS[(k // 3) % len(KINDS)])
            elif k % 3 == 1:   # a normalised Hermitian observable: a single Pauli string or a short real sum
                rows = gen_matrix(rng, n, "pauli-sum")
            else:
                rows = [[(float_entry(rng), float_entry(rng)) for _ in range(N)] for _ in range(N)]
            st.append(mat_line("stats", rows) + ("" if k % 2 == 0 else " layout=" + LAYOUTS2[(k // 2) % len(LAYOUTS2)]))
    st += ["stats 1x1 1:0", "stats 3x3 " + show_data([(Fraction(1), Fraction(0))] * 9), "stats 2 1:0,1:0"]

    def orc(l, o):
        c = l.split(" ")[0]
        return {"decomp": oracle_decomp, "decompd": oracle_decompd, "dlook": oracle_dlook, "dlookd": oracle_dlook,
                "pweights": oracle_pweights, "weight": oracle_weight}.get(c, lambda l, o: None)(l, o)
    def orc_guard(l, o):
        if l.startswith("infl"):
            l = impl.split_layout(l)[0]
            return None if (o == "!ValueError") == (not valid_matrix_shape(impl.parse_shape(l.split(" ")[1]))) else f"average_pauli_weight guard: {o}"
        return orc(l, o)
    return [
        Stream("weight-table", pw, h, oracle_pweights, tag=lambda l, o: "ip=" + l.split(" ")[2]),
        Stream("lookup-keys-stepped-by-inc-or-edited-in-place", [f"walk {n} {j}" for n in (1, 2, 2, 3, 3) for j in range(3 if tier == "thorough" else 2)],
               walk_handle, oracle=lambda l, o: None if o == "ok" else o, model=False, tag=lambda l, o: "walk"),
        Stream("corpus", corpus_lines(PID), h, orc, shrink=shrink_line),
        Stream("dyadic-decomposition-n<=4", dec, h, oracle_decomp, nontrivial=nontrivial, shrink=shrink_line, tag=tagk),
        Stream("every-string-as-lookup-key-n<=3", look, h, oracle_dlook, nontrivial=nontrivial, shrink=shrink_line, tag=tagk),
        Stream("diagonal-variant", dg, h, orc, nontrivial=nontrivial, shrink=shrink_line, tag=tagk),
        Stream("same-matrix-different-memory-layout", lay, h, orc_guard, nontrivial=nontrivial, shrink=shrink_line, tag=tagk),
        Stream("lookup-right-and-wrong-length", wl, h, oracle_weight,
               tag=lambda l, o: "weight " + ("valueError" if o == "!ValueError" else "error " + o if o.startswith("!") else "answered")),
        Stream("guards", gd, h, orc_guard, tag=lambda l, o: "guard " + ("valueError" if o == "!ValueError" else "error " + o if o.startswith("!") else "answered")),
        Stream("influence-exact", inf, h, None, nontrivial=nontrivial,
               tag=lambda l, o: "infl " + ("error " + o if o.startswith("!") else "answered")),
        Stream("generic-float-n<=6", gen, h, oracle_decomp, nontrivial=nontrivial, shrink=shrink_line, model=False,
               tag=lambda l, o: "generic n=" + str(impl.parse_shape(l.split(" ")[1])[0].bit_length() - 1) + " layout=" + impl.split_layout(l)[1]),
        Stream("entropy-influence", st, impl.handle, nontrivial=nontrivial, shrink=shrink_line, model=False, batch_oracle=oracle_stats_batch,
               tag=lambda l, o: "stats " + ("error" if o.startswith("!") else "answered")),
    ]

RULE = ("dyadic Gaussian-rational matrices (dense, real, integer, sparse, Hermitian, single Pauli, short Pauli sums, diagonal, matrix units; "
        "every Pauli matrix and every matrix unit for n<=2) for n<=4 (thorough n<=5) compared exactly with the model and checked by the "
        "oracle (coefficients by tensor contraction, reconstruction); every string of length n<=3 as lookup key (plus keys of wrong length); "
        "diagonal variant n<=5/6 against the general decomposition of diag(d); weight table n<=5/6 for identity_pos in {0,1,2,3,-1,4,7}; "
        "the same logical matrices / diagonals / weight vectors held in 13 (2-D) resp. 8 (1-D) memory layouts (C, Fortran, transposed view, strided and "
        "offset windows of larger arrays, negative strides, read-only, big-endian, combinations) incl. every matrix unit n<=2, judged by the logical matrix; "
        "lookups into vectors of right/wrong length; 37 malformed shapes for both entry points; influence compared exactly where the "
        "floating-point evaluation is exact; full-precision float matrices n<=6 and entropy/influence against the oracle at 1e-9. "
        "A case is non-trivial if it is answered and the data contain a non-zero entry; distinct = distinct protocol lines")

def main(tier):
    return standard_main(PID, tier, "proof", THEOREMS, IMPORTS, build_streams, rule=RULE,
        assumptions=["theorems are about the Lean model (Model/Decomp.lean) over exact Gaussian rationals Q(i); floating-point rounding, "
                     "np.abs, log2 and the 1e-12 cut-off of quantum_fourier_entropy are not modelled (entropy is checked by the oracle only)",
                     "the for-loops are modelled in place (slice reads / slice assignments on the whole array); slices that would reach beyond "
                     "the end never occur on guarded input and are modelled by truncation, not by numpy's broadcasting error",
                     "the model is tied to the Python code by exact comparison on dyadic inputs (all arithmetic exact in binary64) and by the "
                     "oracle at tolerance on generic floats",
                     "numpy: reshape/fancy indexing/astype/slice assignment as documented; the model sees the logical matrix only — independence of "
                     "the ndarray's memory layout / dtype / writeability is established by the layout stream (sampled), not by a theorem",
                     "lists of lists are not accepted by the API (AttributeError on .ndim) and complex64 input is lossy: neither is exercised"])

def replay(path):
    r = json.load(open(path))
    line = r.get("line")
    out = impl.handle(line)
    c = line.split(" ")[0]
    if c == "stats":
        why = oracle_stats_batch([line], [out])[0]
    else:
        why = {"decomp": oracle_decomp, "decompd": oracle_decompd, "dlook": oracle_dlook, "dlookd": oracle_dlook,
               "pweights": oracle_pweights, "weight": oracle_weight}.get(c, lambda l, o: None)(line, out)
    print("line:", line[:300]); print("implementation:", out[:300])
    if c != "stats":
        print("model:", run_model([line])[0][:300])
    print("oracle:", why or "holds")
    return 1 if why else 0
