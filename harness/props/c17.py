"""C17 — text forms, sparse notation and k-local expansion denote the right strings."""
from __future__ import annotations
import json, re
from common import *
from engine import *
import impl_ps, impl_graph

PID = "C17"
THEOREMS = ["PauLie.C17.C17_roundtrip", "PauLie.C17.C17_roundtrip_ps", "PauLie.C17.C17_sparse",
            "PauLie.C17.C17_reject", "PauLie.C17.C17_only_valueError", "PauLie.C17.C17_letters",
            "PauLie.C17.C17_size_pad", "PauLie.Tie.alphabet_tie", "PauLie.Tie.int_tie", "PauLie.Tie.codec_tie",
            "PauLie.C17.C17_klocal", "PauLie.C17.C17_klocal_length", "PauLie.C17.C17_klocal_nodup",
            "PauLie.C17.C17_klocal_mem", "PauLie.C17.C17_klocal_letters", "PauLie.C17.C17_klocal_order",
            "PauLie.C17.C17_klocal_count", "PauLie.C17.C17_klocal_short", "PauLie.C17.C17_klocal_empty",
            "PauLie.C17.C17_klocal_none"]
IMPORTS = ["PauLieVerif.Properties.C17", "PauLieVerif.Properties.C17KLocal", "PauLieVerif.Proofs.Tie"]

_ITEM = re.compile(r"([IXYZ])(?:_([0-9]+))?")
def reference(text: str):
    """Strict reading of the notation (ASCII digits only).  Returns the dense
    string or None (= must be rejected with ValueError)."""
    size = None
    if "s" in text:
        i = text.index("s")
        tail = text[i + 1:]
        if not re.fullmatch(r"[0-9]+", tail) or len(tail) > 4300:   # CPython int() digit limit (C17_*_digit_limit)
            return None
        size = int(tail)
        text = text[:i]
    out, pos = "", 0
    while pos < len(text):
        m = _ITEM.match(text, pos)
        if not m:
            return None
        if m.group(2) is not None:
            if len(m.group(2)) > 4300:
                return None
            p = int(m.group(2))
            if p <= len(out):
                return None
            out += "I" * (p - len(out) - 1) + m.group(1)
        else:
            out += m.group(1)
        pos = m.end()
    if size is not None:
        if size < len(out):
            return None
        out += "I" * (size - len(out))
    return out

def liberal_only(text: str) -> bool:
    """Is every out-of-alphabet character of `text` one of Python int()'s
    liberalities (non-ASCII decimal digit where a digit may stand; whitespace,
    sign, single underscore inside the size suffix)?"""
    import unicodedata
    body, tail = (text.split("s", 1) + [None])[:2] if "s" in text else (text, None)
    for ch in body:
        if ch in "IXYZ_0123456789":
            continue
        if unicodedata.category(ch) == "Nd":
            continue
        return False
    if tail is not None:
        for ch in tail:
            if ch in "0123456789+-_" or ch.isspace() or unicodedata.category(ch) == "Nd":
                continue
            return False
    return True

def oracle_parse(line, out):
    t = line.split(" ")
    text = unhx(t[1])
    ref = reference(text)
    if t[0] == "parsen" and ref is not None:
        n = int(t[2])
        if n > len(ref):
            ref = ref + "I" * (n - len(ref))
    if out.startswith("!"):
        if out != "!ValueError":
            return f"text {text!r} rejected with {out[1:]} instead of ValueError"
        if ref is not None:
            return f"well-formed text {text!r} rejected (expected {ref})"
        return None
    got = "" if out == "-" else out
    if any(c not in "IXYZ" for c in got):
        return f"accepted text {text!r} yields letters outside IXYZ: {got!r}"
    if ref is None:
        return f"LIBERAL-INT text {text!r} is outside the notation but accepted as {got!r}" if liberal_only(text) \
            else f"ill-formed text {text!r} accepted as {got!r}"
    if got != ref:
        return f"text {text!r} denotes {ref!r} but parsed to {got!r}"
    return None

def known_match(stream, line, why):
    return None   # the int() liberalities were repaired in /repo (fix: commit); nothing is known to fail

def oracle_klocal(line, out):
    t = line.split(" ")
    if t[0] == "coll":
        gens = impl_graph.strs(t[1])
        m = max((len(g) for g in gens), default=0)
        exp = ",".join((g + "I" * (m - len(g))) or "-" for g in gens) or "-"
        return None if out == exp else f"collection of {gens} holds {out}, expected {exp}"
    n, gens = int(t[1]), impl_graph.strs(t[2])
    if not gens:
        return None if out == "!ValueError" else f"k-local expansion of the empty list gives {out}"
    m = max(len(g) for g in gens)
    if n < m:
        return None if out == "!ValueError" else f"k-local expansion to n={n} < {m} gives {out}"
    exp, seen = [], set()
    for g in gens:
        g = g + "I" * (m - len(g))
        for k in range(n - m + 1):
            s = "I" * k + g + "I" * (n - m - k)
            if s not in seen:
                seen.add(s); exp.append(s)
    exp = ",".join(x or "-" for x in exp) or "-"
    return None if out == exp else f"k-local expansion of {gens} to {n} gives {out}, expected {exp}"

DIGITS = ["0123456789", "٠١٢٣٤٥٦٧٨٩", "０１２３４５６７８９", "𝟎𝟏𝟐𝟑𝟒𝟓𝟔𝟕𝟖𝟗"]
def gen_text(rng):
    items, L = [], 0
    for _ in range(rng.randint(0, 6)):
        g = rng.choice("IXYZ")
        if rng.random() < 0.55:
            p = L + rng.randint(1, 4)
            items.append(f"{g}_{p}"); L = p
        else:
            items.append(g); L += 1
    t = "".join(items)
    if rng.random() < 0.4:
        t += f"s{L + rng.randint(0, 3)}"
    return t

def mutate(rng, t):
    r = rng.random()
    pool = "IXYZ_s0123456789 +-QxyziA\t٣５²½ \x00.," + rng.choice(DIGITS)
    pos = rng.randint(0, len(t))
    if r < 0.3 and t:
        pos = min(pos, len(t) - 1)
        return t[:pos] + t[pos + 1:]
    if r < 0.65:
        return t[:pos] + rng.choice(pool) + t[pos:]
    if r < 0.9 and t:
        pos = min(pos, len(t) - 1)
        return t[:pos] + rng.choice(pool) + t[pos + 1:]
    # decrease a position / shrink the size
    return re.sub(r"[0-9]+", lambda m: str(max(0, int(m.group(0)) - rng.randint(1, 3))), t, count=1)

def rs(rng, n):
    return "".join(rng.choice("IXYZ") for _ in range(n))

# ---- printing after in-place edits: "printing a Pauli string and constructing from the printed text is the identity" must
# hold for strings that were printed BEFORE being edited as well (a cached text must not survive an edit)
_PAIR = {(0, 0): "I", (1, 0): "X", (1, 1): "Y", (0, 1): "Z"}
def edited_text(line):
    from paulie.common.pauli_string_bitarray import PauliString
    from paulie.common.pauli_string_factory import get_pauli_string
    try:
        _, text, ops = line.split(" ")
        P = PauliString(pauli_str=text)
        str(P); repr(P)                                   # print first
        for k, op in enumerate(ops.split(";")):
            t = op.split(":")
            if t[0] == "set": P.set_substring(int(t[1]), t[2])
            elif t[0] == "item": P[int(t[1])] = t[2]
            elif t[0] == "inc": P.inc()
            elif t[0] == "setps": P.set_substring(int(t[1]), PauliString(pauli_str=t[2]))
            b = P.bits.tolist()
            letters = "".join(_PAIR[(b[2 * i], b[2 * i + 1])] for i in range(len(b) // 2))
            if str(P) != letters:
                return f"after {op} (step {k + 1}) str(P) = {str(P)!r} but the letters stored in P are {letters!r}"
            if not (PauliString(pauli_str=str(P)) == P):
                return f"after {op} (step {k + 1}) constructing from the printed text {str(P)!r} does not give back P ({letters!r})"
            if repr(P) != f"PauliString({letters})" and letters not in repr(P):
                return f"after {op} (step {k + 1}) repr(P) = {repr(P)!r} does not show {letters!r}"
            g = get_pauli_string([P])
            if [str(x) for x in g] != [letters]:
                return f"after {op} (step {k + 1}) get_pauli_string([P]) = {[str(x) for x in g]} for P = {letters!r}"
        return "ok"
    except Exception as e:
        return exc_name(e)

def gen_edited(rng):
    n = rng.randint(1, 8)
    text = "".join(rng.choice("IXYZ") for _ in range(n))
    ops = []
    for _ in range(rng.randint(1, 5)):
        r = rng.random()
        i = rng.randrange(n)
        if r < 0.35: ops.append(f"item:{i}:{rng.choice('IXYZ')}")
        elif r < 0.65: ops.append(f"set:{i}:{''.join(rng.choice('IXYZ') for _ in range(rng.randint(1, n - i)))}")
        elif r < 0.85: ops.append(f"setps:{i}:{rng.choice('IXYZ')}")
        else: ops.append("inc")
    return f"edtext {text} {';'.join(ops)}"

def build_streams(rng, tier):
    th = tier == "thorough"
    N = 300000 if th else 30000
    dense, valid, mutated = [], [], []
    for _ in range(N // 10):
        dense.append("parse " + hx(rs(rng, rng.randint(0, 40))))
    for _ in range(N * 5 // 10):
        t = gen_text(rng)
        if rng.random() < 0.15:
            valid.append(f"parsen {hx(t)} {rng.randint(0, 12)}")
        else:
            valid.append("parse " + hx(t))
    for _ in range(N * 4 // 10):
        t = gen_text(rng)
        for _ in range(rng.randint(1, 2)):
            t = mutate(rng, t)
        mutated.append("parse " + hx(t))
    special = ["", "s", "s0", "s3", "Xs", "Xs 3", "Xs+3", "Xs1_0", "Xs-1", "X_", "X_1", "X__1", "X_1_2", "_1", "1", "X_0", "X_1X_1",
               "X_2Y_2", "X_2Y_1", "Xs3s4", "X_٣", "Xs٣", "X_1s1", "X_2s1", "Y_10s10", "sX", "X s3", "X_3 ", " X", "X_+3", "X_1_",
               "Is" + "0" * 4299 + "1", "Is" + "0" * 4300 + "1", "Xs1__0", "Xs_1", "Xs1_", "X_１", "XsI", "ZZ_2", "ZZ_3"]
    int_cases = ["pyint " + hx(s) for s in ["1_0", "_1", "1_", "1__0", "+ 1", "+1", "-0", " 1 ", "١٢", "1٢", "+", "", "0x1", "1.0", "\x1c5", " 5 ",
                 "5\n", "٣", "²", "1" * 4300, "1" * 4301, "1_" * 4000 + "1", "-١_٢"]]
    kl = []
    for _ in range(6000 if th else 1500):
        k = rng.randint(1, 4)
        gens = [rs(rng, rng.randint(1, 3)) for _ in range(k)]
        if rng.random() < 0.3:
            gens.append(rng.choice(gens))
        if rng.random() < 0.2:   # make translates collide
            gens = [g.strip("I") or "I" for g in gens] + ["I" + gens[0]]
        m = max(len(g) for g in gens)
        n = rng.choice([m, m + 1, m + 2, m + 3, rng.randint(max(0, m - 1), 12)])
        kl.append(f"klocal {n} {','.join(gens)}")
        if rng.random() < 0.2:
            kl.append(f"coll {','.join(gens)}")
    kl += ["klocal 3 -", "coll -", "klocal 1 XX", "klocal 0 -"]
    hp, hg = impl_ps.handle, impl_graph.handle
    def tag(l, o):
        return "rejected" if o.startswith("!") else "accepted"
    return [
        Stream("corpus", corpus_lines(PID), lambda l: (hg if l.split(" ")[0] in ("klocal", "coll") else hp)(l),
               lambda l, o: (oracle_klocal if l.split(" ")[0] in ("klocal", "coll") else (None if l.startswith("pyint") else oracle_parse(l, o)))),
        Stream("special-texts", ["parse " + hx(s) for s in special], hp, oracle_parse, tag=tag),
        Stream("int-semantics", int_cases, hp),
        Stream("dense-roundtrip", dense, hp, oracle_parse, tag=tag, nontrivial=lambda l, o: len(l) > 8),
        Stream("grammar-directed", valid, hp, oracle_parse, tag=tag, nontrivial=lambda l, o: "5f" in l),
        Stream("mutated", mutated, hp, oracle_parse, tag=tag),
        Stream("k-local", kl, hg, oracle_klocal, tag=tag),
        Stream("k-local-after-in-place-edits-of-handed-out-strings", [f"pol {j} {l}" for j, l in enumerate(kl[:200 if th else 60]) if l.startswith("klocal")],
               polluted_klocal, lambda l, o: oracle_klocal(l.split(" ", 2)[2], o), model=False, tag=lambda l, o: "polluted:" + tag(l, o)),
        Stream("k-local:generators-in-sparse-notation", gen_sparse_klocal(rng, 1500 if th else 400), sparse_klocal_handle, sparse_klocal_oracle,
               model=False, tag=lambda l, o: "sparse-klocal:" + tag(l, o)),
        Stream("print-after-in-place-edit", [gen_edited(rng) for _ in range(6000 if tier == "thorough" else 1500)], edited_text,
               oracle=lambda l, o: None if o == "ok" else o, model=False, tag=lambda l, o: "edited:" + ("ok" if o == "ok" else "bad")),
    ]

RULE = ("grammar-directed sparse/dense/mixed texts with optional size (50%), dense round trips (10%), 1-2 character "
        "mutations incl. non-ASCII digits, whitespace, signs, foreign letters (40%), a fixed list of boundary texts, int() "
        "semantics probes; k-local expansion of random generator lists (duplicates, colliding translates, n below/at/above "
        "the longest). Oracle = independent strict reference parser / direct translate enumeration. non-trivial: sparse items present")

# ---- expansions built AFTER strings handed out by the factory (identities, single-letter strings, earlier expansions)
# were edited in place: the paddings must still be identities
def polluted_klocal(line):
    import pollute
    from paulie.common.pauli_string_factory import get_pauli_string
    _, seed, rest = line.split(" ", 2)
    t = rest.split(" ")
    try:
        n = int(t[1])
        for m in range(1, min(n, 12) + 1):
            pollute.pollute(m, f"{seed}:{m}")
        try:
            earlier = get_pauli_string(impl_graph.strs(t[2]), n=n)
            for p in earlier:
                p[0] = "Y" if str(p)[0] != "Y" else "X"
        except Exception:
            pass
    except Exception as e:
        return exc_name(e)
    return impl_graph.handle(rest)

# ---- generator lists with members in SPARSE notation ("X_4", "Y_2Z_3", "Z_1s3"): the expansion is that of the dense strings
# they denote (right-padded to the longest DENOTED string, not to the longest text)
def sparse_klocal_handle(line):
    from paulie.common.pauli_string_factory import get_pauli_string
    _, n, gens = line.split(" ")
    try:
        return plist(get_pauli_string(gens.split(","), n=int(n)))
    except Exception as e:
        return exc_name(e)

def sparse_klocal_oracle(line, out):
    _, n, gens = line.split(" ")
    dense = [reference(g) for g in gens.split(",")]
    if any(d is None for d in dense):
        return None
    return oracle_klocal(f"klocal {n} {','.join(d or '-' for d in dense)}", out)

def gen_sparse_klocal(rng, k):
    out = []
    for _ in range(k):
        gens = []
        for _ in range(rng.randint(1, 3)):
            L = rng.randint(1, 4)
            d = "".join(rng.choice("IXYZ") for _ in range(L))
            items = "".join(f"{ch}_{i + 1}" for i, ch in enumerate(d) if ch != "I")
            r = rng.random()
            if r < 0.4 or not items: gens.append(d)
            elif r < 0.7: gens.append(items)
            else: gens.append(items + f"s{L + rng.randint(0, 1)}")
        dense = [reference(g) or "" for g in gens]
        m = max(len(x) for x in dense)
        out.append(f"sklocal {rng.choice([m, m + 1, m + 2, m + 3])} {','.join(gens)}")
    return out

def main(tier):
    return standard_main(PID, tier, "proof", THEOREMS, IMPORTS, build_streams, known_match=known_match, rule=RULE,
        assumptions=["Python int() is modelled (Unicode Nd digit blocks, strip set, sign, underscores, 4300-digit limit); the tables are "
                     "regenerated from the running interpreter and tied by PauLie.Tie.int_tie",
                     "positions/sizes above ~10^6 are not exercised (memory)"])

def replay(path):
    r = json.load(open(path))
    line = r.get("line")
    if line.startswith("pol "):
        out = polluted_klocal(line); why = oracle_klocal(line.split(" ", 2)[2], out)
        print("line:", line); print("implementation:", out); print("oracle:", why or "holds")
        return 1 if why else 0
    if line.startswith("sklocal "):
        out = sparse_klocal_handle(line); why = sparse_klocal_oracle(line, out)
        print("line:", line); print("implementation:", out); print("oracle:", why or "holds")
        return 1 if why else 0
    if line.startswith("edtext "):
        out = edited_text(line)
        print("line:", line); print("oracle:", "holds" if out == "ok" else out)
        return 0 if out == "ok" else 1
    kl = line.split(" ")[0] in ("klocal", "coll")
    out = (impl_graph.handle if kl else impl_ps.handle)(line)
    why = (oracle_klocal if kl else oracle_parse)(line, out)
    print("line:", line, repr(unhx(line.split(' ')[1])) if not kl else ""); print("implementation:", out)
    print("model:", run_model([line])[0]); print("oracle:", why or "holds")
    return 1 if why and not known_match("", line, why) else 0
