"""C03 — classification is invariant under re-presentations of the same algebra, and the same
across repeated calls, processes and hash seeds.

Metamorphic check ON THE IMPLEMENTATION of the seven transformations of the property, for small n
(where the Lean-verified closure additionally decides which side is wrong) and for n = 8..16 (24)
where the closure cannot be enumerated; repeated calls in one process; PYTHONHASHSEED sweep in fresh
interpreters; correspondence of every individual `classify` call (n <= 12) with the Lean model, for
which order/duplication invariance is proved (`PauLie.C03.classify_perm`, `classify_dup`)."""
from __future__ import annotations
import subprocess, sys
from classify_checks import *
import impl_c03
from impl_c03 import KINDS, transform

PID = "C03"
THEOREMS = [
    "PauLie.C03.classify_perm", "PauLie.C03.classify_dup", "PauLie.C03.classify_same_members",
    "PauLie.C03.getSubgraphs_perm", "PauLie.C03.getSubgraphs_same_members", "PauLie.C03.algebra_perm",
    "PauLie.C03.C03_spec_invariance", "PauLie.C03.C03_spec_image", "PauLie.C03.C03_spec_card",
    "PauLie.C03.C03_qubit_perm", "PauLie.C03.C03_qubit_swap", "PauLie.C03.C03_relabel", "PauLie.C03.C03_relabel_site",
    "PauLie.C03.C03_append_identity", "PauLie.C03.C03_contract", "PauLie.C03.C03_add_product",
    "PauLie.C03.C03_spec_same_members", "PauLie.C03.C03_from_C01", "PauLie.C03.C03_from_C01_dim_centre", "PauLie.C03.C03_fix_sound",
    "PauLie.C03.C03_full_closure_map", "PauLie.C03.C03_full_invOfClosure_map", "PauLie.C03.C03_full_invariant",
    "PauLie.C03.C03_from_C01_full", "PauLie.C03.C03_full_instances", "PauLie.C03.C03_invOfClosure_not_graphInvariant",
    "PauLie.C03.C03_full_perm", "PauLie.C03.closedInvariant_invOfClosure", "PauLie.C03.C03_closureList_closed",
    "PauLie.C03.C03_full_same_closure", "PauLie.C03.C03_from_C01_closed",
] + CLOSURE_THEOREMS
IMPORTS = ["PauLieVerif.Properties.C03", "PauLieVerif.Properties.C03Full"] + CLOSURE_IMPORTS

MODEL_MAXN = 12
OBS = {}          # observations for the evidence (filled by the sweep)

# ---------------------------------------------------------------- inputs

def embed(rng, gs, n):
    """the same strings on n >= len qubits: identity columns inserted at random positions"""
    m = len(gs[0])
    pos = sorted(rng.sample(range(n), m))
    out = []
    for g in gs:
        t = ["I"] * n
        for p, ch in zip(pos, g):
            t[p] = ch
        out.append("".join(t))
    return out

def large_collection(rng, n):
    """a collection on exactly n qubits: one structured block, completed either by identity columns or by
    further blocks on the remaining qubits (a direct sum)"""
    kind = rng.choice(["random", "sparse", "star", "star+", "star+", "path", "union", "2local", "commuting"])
    gs = G.collection(rng, n, 12, kind)
    while len(gs[0]) < n:
        rest = n - len(gs[0])
        if rng.random() < 0.4:
            gs = embed(rng, gs, n)
        else:
            b = G.collection(rng, rest, 8, rng.choice(["random", "star", "star+", "path", "commuting", "2local"]))
            na, nb = len(gs[0]), len(b[0])
            gs = [x + "I" * nb for x in gs] + ["I" * na + y for y in b]
            rng.shuffle(gs)
    return gs

def gen_inputs(rng, tier):
    th = tier == "thorough"
    small, large = [], []
    for _ in range(3000 if th else 260):
        small.append(G.collection(rng, rng.choice([2, 3, 4, 5, 6]), 10))
    top = 24 if th else 16
    for _ in range(2400 if th else 200):
        large.append(large_collection(rng, rng.randint(8, top)))
    return small, large

def meta_lines(rng, colls):
    out = []
    for gs in colls:
        for kind in KINDS:
            out.append(G.line_of("meta " + kind + " " + str(rng.randrange(10 ** 6)), gs))
    return out

def meta_parts(line):
    t = line.split(" ")
    return t[1], int(t[2]), O.pad(impl_graph.strs(t[3]))

# ---------------------------------------------------------------- oracles

def nf_equal(pairs):
    """pairs of canonical algebra texts -> list of (equal?, inv_a, inv_b) through the Lean `invname` normal form"""
    flat = [x for p in pairs for x in p]
    inv = lean_invname(flat) if flat else []
    return [(inv[2 * k] == inv[2 * k + 1] and inv[2 * k] != "bad-op", inv[2 * k], inv[2 * k + 1]) for k in range(len(pairs))]

def meta_batch_oracle(closure_maxn):
    def bo(lines, outs):
        res = [None] * len(lines)
        idx, pairs = [], []
        for k, o in enumerate(outs):
            if o == "n/a":
                continue
            f = fields(o)
            a, b = f.get("a", o), f.get("b", o)
            if o.startswith("!") or a.startswith("!") or b.startswith("!") or "a" not in f:
                res[k] = f"classification raised on one side: {o[:160]}"
                continue
            idx.append(k); pairs.append((a, b))
        eq = nf_equal(pairs)
        san_idx, san_colls = [], []
        for k, (same, ia, ib) in zip(idx, eq):
            kind, seed, gs = meta_parts(lines[k])
            f = fields(outs[k])
            g2txt = f["G'"]
            g2 = g2txt.split(",")
            n = len(gs[0])
            if not same:
                why = (f"{kind}: reported algebra changes from {f['a']} to {f['b']} (normal forms [{ia}] vs [{ib}]) "
                       f"between G={','.join(gs)} and its re-presentation G'={g2txt}")
                if max(n, len(g2[0])) <= 6:
                    c1, c2 = [x.replace(" flag=T", "") for x in lean_inv([gs, g2])]
                    why += (f"; verified closure: G has [{c1}] ({'agrees' if c1 == ia else 'DISAGREES'} with the report), "
                            f"G' has [{c2}] ({'agrees' if c2 == ib else 'DISAGREES'} with the report)")
                    if c1 != c2:
                        why = "ORACLE-DISAGREEMENT the transformation changed the closure invariants: " + why
                res[k] = why
                continue
            if f["a"] == f["b"] and f.get("isalg") == "F":
                res[k] = (f"{kind}: is_algebra('{f['a']}') is False on the re-presentation G'={g2txt} although get_algebra() "
                          f"reports the same multiset of summands")
                continue
            if max(n, len(g2[0])) <= closure_maxn:
                san_idx.append(k); san_colls += [gs, g2]
        if san_colls:
            inv = lean_inv(san_colls)
            for j, k in enumerate(san_idx):
                if inv[2 * j] != inv[2 * j + 1]:
                    res[k] = (f"ORACLE-DISAGREEMENT transformation {lines[k].split(' ')[1]} changed the invariants of the verified closure: "
                              f"{inv[2 * j]} vs {inv[2 * j + 1]}")
        return res
    return bo

def repeat_oracle(line, out):
    f = fields(out)
    vals = [f.get(k) for k in ("first", "cached", "after-readonly-queries", "reclassified", "fresh")]
    if out.startswith("!") or None in vals:
        return f"repeat failed: {out[:160]}"
    if any(v.startswith("!") for v in vals):
        return f"classification raised: {out[:200]}"
    if len(set(vals)) != 1:
        return f"reports differ between calls in one process: {out[:300]}"
    return None

# ---------------------------------------------------------------- PYTHONHASHSEED sweep

def run_sweep(lines, seeds):
    """fresh interpreter per seed; returns {seed: [record per line]}"""
    worker = os.path.join(VERIF, "harness", "c03_worker.py")
    procs = {}
    payload = "\n".join(lines) + "\n"
    for s in seeds:
        env = dict(os.environ, PYTHONHASHSEED=str(s), PAULIE_REPO=REPO, PYTHONDONTWRITEBYTECODE="1")
        procs[s] = subprocess.Popen([sys.executable, worker], stdin=subprocess.PIPE, stdout=subprocess.PIPE,
                                    stderr=subprocess.PIPE, text=True, env=env)
    out = {}
    import threading
    def comm(s):
        o, e = procs[s].communicate(payload, timeout=3000)
        recs = [json.loads(l) for l in o.splitlines() if l.startswith("{")]
        if procs[s].returncode != 0 or len(recs) != len(lines):
            raise RuntimeError(f"sweep worker seed={s} failed rc={procs[s].returncode}: {e[-400:]}")
        out[s] = recs
    errs = []
    def safe(s):
        try:
            comm(s)
        except Exception as ex:
            errs.append(ex)
    # at most 8 interpreters at a time are actually busy reading; all were started above
    ths = [threading.Thread(target=safe, args=(s,)) for s in seeds]
    for t in ths: t.start()
    for t in ths: t.join()
    if errs:
        raise errs[0]
    return out

def sweep_streams(lines, seeds, kw):
    res = run_sweep(lines, seeds)
    ref = {l: impl_classify.handle(l) for l in lines}      # this process (PYTHONHASHSEED of ./check)
    pos = {l: i for i, l in enumerate(lines)}
    n = len(lines)
    def vary(key, f=lambda x: x):
        return sum(1 for i in range(n) if len({json.dumps(f(res[s][i].get(key))) for s in seeds}) > 1)
    OBS["hashseed_sweep"] = {
        "seeds": list(seeds), "inputs": n,
        "inputs_whose_raw_get_algebra_string_differs_across_seeds (summand order only unless a stream fails)": vary("raw"),
        "inputs_whose_morph_iteration_order_differs": vary("morph_order"),
        "inputs_whose_subgraph_member_order_differs (set iteration in _convert)": vary("subgraph_order"),
        "inputs_whose_canonical_legs_differ": vary("canon", lambda c: fields(c or "").get("morphs")),
        "inputs_whose_sorted_dependents_differ": vary("canon", lambda c: fields(c or "").get("deps")),
        "inputs_whose_sorted_canonical_vertices_differ": vary("canon", lambda c: fields(c or "").get("verts")),
        "inputs_whose_algebra_multiset_differs": vary("canon", lambda c: fields(c or "").get("alg")),
    }
    ex = next((i for i in range(n) if len({res[s][i].get("raw") for s in seeds}) > 1), None)
    if ex is not None:
        OBS["hashseed_sweep"]["example_raw_strings"] = {"line": lines[ex], **{f"seed {s}": res[s][ex].get("raw") for s in seeds[:6]}}
    streams = []
    for s in seeds:
        def impl(l, s=s):
            return res[s][pos[l]]["canon"]
        def oracle(l, o, s=s):
            a, b = fields(o).get("alg"), fields(ref[l]).get("alg")
            if a is None or b is None or a.startswith("!") or b.startswith("!"):
                return None if o == ref[l] else f"PYTHONHASHSEED={s}: {o[:120]} but this process: {ref[l][:120]}"
            if a != b:
                return f"PYTHONHASHSEED={s} reports {a}, this process (PYTHONHASHSEED={os.environ.get('PYTHONHASHSEED')}) reports {b}"
            return None
        streams.append(Stream(f"hashseed={s}", lines, impl, oracle=oracle, canon=impl_classify.strip_meta,
                              tag=kw["tag"], nontrivial=kw["nontrivial"]))
    return streams


# ---------------------------------------------------------------- known finding: a dependent single leg is kept

def f2_dependent(strs):
    """are the Pauli strings (as vectors of F2^(2n), phases ignored) linearly dependent?"""
    basis = {}
    for s in strs:
        x, z = O.enc(s)
        v = (x << len(s)) | z
        while v:
            h = v.bit_length() - 1
            if h not in basis:
                basis[h] = v
                break
            v ^= basis[h]
        if v == 0:
            return True
    return False

def dependent_single_legs(classify_out):
    """decidable on the implementation's own output: some reported canonical graph has single legs (legs of
    length one at the centre) that are linearly dependent over F2.  An even number of them then multiplies to
    the identity (an odd number cannot: the product would commute with the centre), so one single leg is the
    product of an odd number >= 3 of the others, hence lies in the commutator closure of the others and the
    centre (nest s1,c,s2,s3,c,...): the graph has a redundant vertex and 2^(k-1) copies are over-counted."""
    m = fields(classify_out).get("morphs", "-")
    if m in ("-", ""):
        return False
    for morph in m.split(";"):
        legs = [leg.split(".") for leg in morph.split("/")]
        singles = [leg[0] for leg in legs[1:] if len(leg) == 1]
        if len(singles) >= 4 and f2_dependent(singles):
            return True
    return False

def known_match(stream, line, why):
    if not line.startswith("meta ") or "reported algebra changes" not in (why or ""):
        return None
    kind, seed, gs = meta_parts(line)
    g2 = transform(kind, seed, gs)
    for g in (gs, g2):
        if g and dependent_single_legs(impl_classify.handle(G.line_of("classify", g))):
            return "dependent-single-leg-kept"
    return None

# ---------------------------------------------------------------- streams

def shrink_meta(line):
    t = line.split(" ")
    for cand in shrink_classify("classify " + t[3]):
        yield " ".join(t[:3] + [cand.split(" ")[1]])

def tag_meta(l, o):
    kind, _, gs = meta_parts(l)
    n = len(gs[0]) if gs else 0
    return f"{kind} n={'<=6' if n <= 6 else '7-12' if n <= 12 else '13-16' if n <= 16 else '>16'}" + (" n/a" if o == "n/a" else "")

def impl_any(line):
    return impl_c03.handle(line) if line.split(" ")[0] in ("meta", "repeat") else impl_classify.handle(line)

# ---- the same generators through every constructor and argument type (str list, object list, collection, padded or not,
# objects assembled in place, the generator function itself): one expansion, one algebra
def present_lines(rng, tier):
    out = []
    for _ in range(600 if tier == "thorough" else 150):
        k = rng.randint(1, 3)
        gens = [G.rs(rng, rng.randint(1, 3)) for _ in range(k)]
        if rng.random() < 0.5:
            gens = [g.rstrip("I") or g[:1] for g in gens]          # mixed lengths: shorter members are right-padded
        m = max(len(g) for g in gens)
        out.append(f"present {m + rng.randint(0, 3)} {','.join(gens)}")
    return out

def present_oracle(line, out):
    if out.startswith("!"):
        return f"presentation check raised {out}"
    views = dict(x.split("=", 1) for x in out.split(" "))
    ref = views["padded-str-list"]
    bad = {k: v for k, v in views.items() if v != ref}
    if bad:
        k, v = next(iter(bad.items()))
        return (f"generators {line.split(' ')[2]} expanded to n={line.split(' ')[1]}: handed over as {k} the library reports {v.split('#')[0]} "
                f"on {v.split('#')[-1]}, as padded text list {ref.split('#')[0]} on {ref.split('#')[-1]}")
    return None

def assembled_meta(line):
    """the `meta` command with both collections built from objects assembled through the in-place API"""
    import pollute, random as _r
    r = _r.Random("asm:" + line)
    old = impl_c03.mk
    impl_c03.mk = lambda gs: impl_c03.PauliStringCollection([pollute.assembled_string(s, r) for s in gs])
    try:
        return impl_c03.handle(line)
    finally:
        impl_c03.mk = old

def build_streams(rng, tier):
    th = tier == "thorough"
    h = impl_classify.handle
    kw = dict(canon=impl_classify.strip_meta, tag=tag_classify, nontrivial=nontrivial_classify, shrink=shrink_classify)
    small, large = gen_inputs(rng, tier)
    corpus = corpus_lines(PID)
    m_small, m_large = meta_lines(rng, small), meta_lines(rng, large)
    m_corpus = [l for l in corpus if l.startswith("meta ")]
    # every individual presentation (G and G') with n <= 12 goes through the model
    cl = [l for l in corpus if l.startswith("classify ")]
    seen = set(cl)
    for ml in m_corpus + m_small + m_large:
        kind, seed, gs = meta_parts(ml)
        for g in (gs, transform(kind, seed, gs)):
            if g and len(g[0]) <= MODEL_MAXN:
                l = G.line_of("classify", g)
                if l not in seen:
                    seen.add(l); cl.append(l)
    reps = [G.line_of("repeat", gs) for gs in small + large]
    mkw = dict(model=False, tag=tag_meta, nontrivial=lambda l, o: o != "n/a", shrink=shrink_meta)
    sweep_in = [G.line_of("classify", gs) for gs in (small + large) if len(gs[0]) <= MODEL_MAXN]
    rng.shuffle(sweep_in)
    sweep_in = list(dict.fromkeys(sweep_in))[: (300 if th else 120)]
    seeds = list(range(32)) if th else [0, 1, 2, 3]
    streams = [
        Stream("corpus-meta", m_corpus, impl_c03.handle, batch_oracle=meta_batch_oracle(5), **mkw),
        Stream("metamorphic n<=6 (7 transformations)", m_small, impl_c03.handle,
               batch_oracle=meta_batch_oracle(5 if th else 4), **mkw),
        Stream("metamorphic n=8..%d (7 transformations)" % (24 if th else 16), m_large, impl_c03.handle,
               batch_oracle=meta_batch_oracle(0), **mkw),
        Stream("repeated-calls", reps + [l for l in corpus if l.startswith("repeat ")], impl_c03.handle, oracle=repeat_oracle,
               model=False, tag=lambda l, o: "repeat", nontrivial=lambda l, o: True),
        Stream("classify-correspondence n<=12 (every G and G')", cl, h, **kw),
        Stream("one-algebra-through-every-constructor-and-argument-type", present_lines(rng, tier), impl_c03.handle, oracle=present_oracle,
               model=False, tag=lambda l, o: "present:" + ("err" if o.startswith("!") else "ok")),
        Stream("metamorphic:generators-assembled-through-the-in-place-API", m_small[:: (3 if th else 6)], assembled_meta, batch_oracle=meta_batch_oracle(5 if th else 4),
               **{k: v for k, v in mkw.items() if k != "shrink"}),
    ]
    streams += sweep_streams(sweep_in, seeds, kw)
    return streams

RULE = ("inputs: structured generator (random dense/sparse, canonical stars by census, obfuscated stars with dependents/duplicates/identity, "
        "paths, commuting sets, disjoint unions, 2-local translates) on n=2..6 and on n=8..16 qubits (thorough: ..24). For every input and "
        "every one of the seven transformations of the property (reorder; duplicate members; qubit permutation; independent X/Y/Z "
        "relabelling per qubit; appended identity qubits; a generator replaced by its product with an anticommuting generator; the product "
        "of two anticommuting generators added) the implementation classifies G and G'; verdict: the two reports are equal as normal-form "
        "multisets of summands (Lean `invname`: so(3)=su(2)=sp(1), so(4)=2su(2), so(5)=sp(2), so(6)=su(4), so(2)=u(1)); at n<=6 a "
        "disagreement is additionally attributed to a side by the Lean-verified closure, and at n<=4 (thorough 5) the verified closure "
        "confirms that the transformation kept the invariants. Repeated calls: first/cached/re-classified/fresh collection in one "
        "process. PYTHONHASHSEED sweep: the same >=100 inputs in fresh interpreters (4 seeds quick, 32 thorough); verdict on the algebra "
        "multiset; canonical legs/dependents/vertices are also diffed against the Lean model for every seed. non-trivial: transformation applicable")

ASSUMPTIONS = [
    "proved for ALL n and ALL inputs (model): the classifier's result depends only on the SET of members of the collection "
    "(order / duplication invariance: classify_perm, classify_dup, classify_same_members); the tie model<->code is the per-call "
    "correspondence stream (every G and G' at n<=12, every hash seed)",
    "proved for ALL n (specification): the commutator closure is carried to the closure of the image by every additive, form-preserving, "
    "injective map (instances: swap of two qubits, symplectic relabelling at one qubit, appended identity qubits), with equal size, centre "
    "and anticommutation structure; contraction and added products leave the closure unchanged; hence a C03 failure is a C01 failure on one side",
    "NOT proved: that the classifier (pipeline of MorphFactory) itself returns isomorphic algebras for two presentations whose closures are "
    "isomorphic - that is C01's unproved part; beyond enumerable n it is decided here metamorphically, per input, on the implementation",
    "runtime behaviour the model cannot exhibit (identity-hash order of the set of morphs, str-hash order of networkx components) is observed "
    "through the subprocess sweep only",
]

def main(tier):
    res = Result(PID, tier, "other")
    res.cov["rule"] = RULE
    res.assumptions = list(ASSUMPTIONS)
    res.cov["explanation"] = ("partial proof + metamorphic per-input decision: " + RULE + " | not proved for all inputs: " + "; ".join(ASSUMPTIONS))
    try:
        broken, info = prepare(res, THEOREMS, IMPORTS)
        rng = random.Random(seed() * 1000003 + int(PID[1:]))
        streams = build_streams(rng, tier)
        res.cov["observations"] = OBS
        run_streams(res, streams, broken, known_match)
    except Exception as e:
        traceback.print_exc()
        res.notes.append("infrastructure error: " + repr(e))
        res.finish()
        return 2
    return res.finish()

def replay(path):
    r = json.load(open(path)); line = r.get("line")
    print("line:", line)
    if not line:
        print(json.dumps(r, indent=1)[:2000]); return 1
    op = line.split(" ")[0]
    if op == "present":
        out = impl_c03.handle(line); why = present_oracle(line, out)
        print("implementation:", out); print("oracle:", why or "holds")
        return 1 if why else 0
    if op == "meta":
        out = (assembled_meta if "assembled" in str(r.get("stream", "")) else impl_c03.handle)(line); why = meta_batch_oracle(5)([line], [out])[0]
        print("implementation:", out)
        kind, seed, gs = meta_parts(line)
        for g in (gs, transform(kind, seed, gs)):
            if g and len(g[0]) <= MODEL_MAXN:
                print("model:", G.line_of("classify", g), "->", impl_classify.strip_meta(run_model([G.line_of("classify", g)])[0]))
    elif op == "repeat":
        out = impl_c03.handle(line); why = repeat_oracle(line, out)
        print("implementation:", out)
    else:
        out = impl_classify.handle(line)
        print("implementation (this process):", out)
        seeds = list(range(8))
        res = run_sweep([line], seeds)
        why = None
        for s in seeds:
            print(f"PYTHONHASHSEED={s}:", res[s][0]["canon"], "| raw:", res[s][0].get("raw"))
            if fields(res[s][0]["canon"]).get("alg") != fields(out).get("alg"):
                why = f"algebra differs for PYTHONHASHSEED={s}"
        m = impl_classify.strip_meta(run_model([line])[0])
        print("model:", m)
        if m != out:
            print("model and implementation differ")
            why = why or "correspondence"
    print("oracle:", why or "holds")
    return 1 if why else 0
