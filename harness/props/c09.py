"""C09 — the reported dimension equals the size of the commutator closure (and the dimension of the named algebra)."""
from __future__ import annotations
from classify_checks import *

PID = "C09"
THEOREMS = CLOSURE_THEOREMS + ["PauLie.C09.C09_name_dim", "PauLie.C09.mergeSummands_dim", "PauLie.Tie.census_tie",
    "PauLie.C01Comp.C01Comp_subgraphs", "PauLie.C01Comp.C01_componentwise", "PauLie.C01Comp.C01_componentwise_typeA",
    "PauLie.C09Cert.C09_cert_classify", "PauLie.C09Cert.C09_cert", "PauLie.C09Cert.C01_cert_dim", "PauLie.C09Cert.C09_cert_reply",
    "PauLie.C09Cert.certComp_sound", "PauLie.C09Cert.certLegs_sound", "PauLie.C09Cert.transfer_card_ker"]
IMPORTS = CLOSURE_IMPORTS + ["PauLieVerif.Properties.C09", "PauLieVerif.Proofs.TieCensus", "PauLieVerif.Properties.C01Comp",
    "PauLieVerif.Properties.C09Cert"]

# ---------------------------------------------------------------- the Lean-verified dimension certificate (any n)
# `cert <G>` (Model/Cert.lean): `cert=ok ... dim=d` means Cert.certDim G = true, for which C09Cert.C09_cert proves that d is the
# number of Pauli strings in the commutator closure of G - no enumeration, any number of qubits.  `cert=declined` claims nothing.
KIND = {}          # protocol line -> generator kind (for the certified-fraction histogram)
CERT = {}          # protocol line -> "ok:<cases>" | "declined:<reasons>"
CERT_STATS = {}    # kind -> [certified, declined]
CROSS = [0, 0, 0]   # n<=6: certified and compared with the enumeration, declined, disagreements

def cert_of(lines):
    outs = run_model(["cert " + l.split(" ", 1)[1] for l in lines])
    res = []
    for l, o in zip(lines, outs):
        f = fields(o)
        ok = f.get("cert") == "ok"
        d = int(f["dim"]) if f.get("dim", "").isdigit() else None
        CERT[l] = ("ok:" + ",".join(sorted(set(f.get("case", "-").split(","))))) if ok else \
                  ("declined:" + ",".join(sorted(set(x.split(":")[0] for x in f.get("reason", o[:40]).split(",")))))
        res.append((ok, d, o))
    return res

def cert_cross_check(lines, sizes):
    """n<=6: wherever the certificate says ok its dimension must be the brute-force closure size (sizes: index -> size)"""
    idx = sorted(sizes)
    out = {}
    for k, (ok, d, o) in zip(idx, cert_of([lines[k] for k in idx])):
        CROSS[0 if ok else 1] += 1
        if ok and d != sizes[k]:
            CROSS[2] += 1
            out[k] = f"CERTIFICATE-DISAGREEMENT: {o} but the commutator closure of {lines[k].split(' ', 1)[1]} has {sizes[k]} elements"
    if len(idx) >= 50:
        print(f"C09 certificate vs enumeration (n<=6): {CROSS[0]} certified inputs compared, {CROSS[2]} disagreements, {CROSS[1]} declined")
    return out

def cert_oracle(lines, outs):
    """get_dla_dim() of the implementation against the certified closure size; a declined certificate is not a violation
    (then only dimension == dimension of the reported name is checked); n<=6 additionally against the enumeration"""
    res = [None] * len(lines)
    certs = cert_of(lines)
    algs = [fields(o).get("alg", "[]") if not o.startswith("!") else "[]" for o in outs]
    algs = [a if a.startswith("[") else "[]" for a in algs]
    inv_n = lean_invname(algs)
    colls = [inputs_of(l) for l in lines]
    small = [k for k in range(len(lines)) if (len(colls[k][0]) if colls[k] else 0) <= 6]
    inv_c = dict(zip(small, lean_inv([colls[k] for k in small])))
    for k, o in enumerate(outs):
        f = fields(o)
        ok, d, co = certs[k]
        st = CERT_STATS.setdefault(KIND.get(lines[k], "other"), [0, 0])
        st[0 if ok else 1] += 1
        if o.startswith("!") or not f.get("dim", "!").isdigit():
            res[k] = f"no dimension reported: {o[:120]}"
            continue
        dim = int(f["dim"])
        if ok and d != dim:
            res[k] = (f"get_dla_dim()={dim} but the commutator closure of {','.join(colls[k])[:200]} has {d} elements "
                      f"(Lean-verified certificate {co.split(' dim=')[0]}, theorem C09Cert.C09_cert)")
            continue
        if inv_n[k] != "bad-op" and int(fields(inv_n[k])["size"]) != dim:
            res[k] = f"get_dla_dim()={dim} but the algebra it names, {algs[k]}, has dimension {fields(inv_n[k])['size']}"
            continue
        if k in inv_c:
            size = int(fields(inv_c[k])["size"])
            if ok and d != size:
                res[k] = f"CERTIFICATE-DISAGREEMENT: {co} but the commutator closure of {','.join(colls[k])} has {size} elements"
            elif size != dim:
                res[k] = f"get_dla_dim()={dim} but the commutator closure of {','.join(colls[k])} has {size} elements"
    if len(lines) >= 50:
        tot = [sum(v[0] for v in CERT_STATS.values()), sum(v[1] for v in CERT_STATS.values())]
        print(f"C09 certificate: {tot[0]}/{tot[0] + tot[1]} inputs certified; per kind " +
              " ".join(f"{k}={v[0]}/{v[0] + v[1]}" for k, v in sorted(CERT_STATS.items())))
    return res

CERT_KINDS = ["random", "sparse", "star", "star+", "star-dep", "clo-dep", "path", "commuting", "union", "2local", "chain+",
              "eq-summands", "bstar"]

def big_collection(rng, maxn, kind):
    """shapes that only fit on many qubits: stars with many single legs (copy count 2^(k-1), k up to 12), B-type stars with up to
    six single legs and five legs of length two (sp(32), su(128), so(256) names); shuffled / obfuscated by contractions"""
    if kind == "wide-star":
        singles = rng.randint(5, max(5, min(12, maxn - 4)))
        legs = [1] * singles + ([rng.randint(2, max(2, min(6, maxn - 1 - singles)))] if rng.random() < 0.6 else [])
        m, edges = G.star_edges(legs)
        gs = G.realise(rng, m, edges)
    else:
        opts = [(k, t, r) for k in range(1, 7) for t in range(1, 6) for r in (0, 3, 4)
                if (t >= 2 or r) and t + k + (2 if r else 0) <= maxn and (k >= 4 or t >= 4)]
        k, t, r = rng.choice(opts)
        gs = G.compact_bstar(rng, k, t, r)
    if rng.random() < 0.6:
        gs = G.obfuscate(rng, gs, rng.randint(1, 3 * len(gs)))
    rng.shuffle(gs)
    return gs

def cert_lines(rng, tier):
    th = tier == "thorough"
    out = []
    kinds = CERT_KINDS + ["wide-star", "big-bstar"]
    for j in range(2700 if th else 540):
        kind = kinds[j % len(kinds)]
        maxn = rng.choice([8, 12, 16, 20, 24]) if th else rng.choice([7, 10, 13, 16])
        if kind in ("wide-star", "big-bstar"):
            maxn = max(maxn, 12)
        gs = big_collection(rng, maxn, kind) if kind in ("wide-star", "big-bstar") else G.collection(rng, maxn, 24 if th else 20, kind)
        l = G.line_of("classify", gs)
        KIND[l] = kind
        out.append(l)
    return out

def tag_cert(l, o):
    return "cert:" + KIND.get(l, "other") + ":" + CERT.get(l, "?")

def batch_oracle(lines, outs):
    colls = [inputs_of(l) for l in lines]
    res = [None] * len(lines)
    algs = [fields(o).get("alg", "[]") if not o.startswith("!") else "[]" for o in outs]
    algs = [a if a.startswith("[") else "[]" for a in algs]
    small = [k for k in range(len(lines)) if (len(colls[k][0]) if colls[k] else 0) <= 6]
    inv_c = dict(zip(small, lean_inv([colls[k] for k in small])))
    inv_n = lean_invname(algs)
    for k, o in enumerate(outs):
        f = fields(o)
        if o.startswith("!") or not f.get("dim", "!").isdigit():
            res[k] = f"no dimension reported: {o[:120]}"
            continue
        dim = int(f["dim"])
        if inv_n[k] != "bad-op":
            named = int(fields(inv_n[k])["size"])
            if named != dim:
                res[k] = f"get_dla_dim()={dim} but the algebra it names, {algs[k]}, has dimension {named}"
                continue
        if k in inv_c:
            size = int(fields(inv_c[k])["size"])
            if size != dim:
                res[k] = f"get_dla_dim()={dim} but the commutator closure of {','.join(colls[k])} has {size} elements"
                continue
            gs = O.pad(colls[k])
            if len(O.closure([O.enc(s) for s in gs])) != size:
                res[k] = "ORACLE-DISAGREEMENT on closure size"
    # the certificate against the enumeration, wherever both speak (n<=6)
    sizes = {k: int(fields(inv_c[k])["size"]) for k in inv_c if res[k] is None}
    for k, why in cert_cross_check(lines, sizes).items():
        res[k] = why
    return res

def build_streams(rng, tier):
    th = tier == "thorough"
    h, cm = impl_classify.handle, impl_classify.strip_meta
    kw = dict(batch_oracle=batch_oracle, canon=cm, tag=tag_classify, nontrivial=nontrivial_classify, shrink=shrink_classify)
    big = [G.line_of("classify", G.collection(rng, 14 if th else 10, 20)) for _ in range(2000 if th else 400)]
    lines = classify_lines(rng, tier)
    return [
        Stream("corpus", corpus_lines(PID), h, **kw),
        Stream("exhaustive-small", exhaustive_small_lines(), h, **kw),
        Stream("structured+random", lines, h, **kw),
        Stream("name-consistency-any-n", big, h, **kw),
        Stream("dimension-certified-at-any-n", cert_lines(rng, tier), h, **dict(kw, batch_oracle=cert_oracle, tag=tag_cert)),
        history_stream("C09", rng, tier),
        assembled_stream(lines[:500 if th else 120] + big[:200 if th else 50], **kw),
    ]

RULE = ("same generator as C01 (n<=5, thorough 6) with closure size from the Lean-verified checker; a second stream on up to 10 (thorough 14) "
        "qubits checks dimension == dimension of the reported name only; a third stream on up to 16 (thorough 24) qubits, all generator kinds, "
        "compares get_dla_dim() with the closure size certified by the Lean-verified certificate `cert` (C09Cert.C09_cert: no enumeration, "
        "any n); declined certificates are counted in the tags `cert:<kind>:declined:<reason>` and fall back to the name check; wherever "
        "certificate and enumeration both speak (n<=6, all streams) they must agree. non-trivial: has dependents or several legs/components")

def main(tier):
    return standard_main(PID, tier, "other", THEOREMS, IMPORTS, build_streams, rule=RULE,
        assumptions=["closure size from closureList (proved to enumerate exactly the commutator closure, for all n); evaluated per input n<=6",
                     "n>6: closure size from the certificate Cert.certDim (proved: C09Cert.C09_cert), evaluated per input; inputs on which the "
                     "certificate declines (see tags cert:*:declined:*) are only checked for dimension == dimension of the reported name"])

def replay(path):
    r = json.load(open(path)); line = r.get("line")
    sp = replay_special(PID, line, batch_oracle)
    if sp is not None:
        return sp
    out = impl_classify.handle(line); why = batch_oracle([line], [out])[0] or cert_oracle([line], [out])[0]
    print("line:", line); print("implementation:", out); print("model:", run_model([line])[0]); print("oracle:", why or "holds")
    return 1 if why else 0
