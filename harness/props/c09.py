"""C09 — the reported dimension equals the size of the commutator closure (and the dimension of the named algebra)."""
from __future__ import annotations
from classify_checks import *

PID = "C09"
THEOREMS = CLOSURE_THEOREMS + ["PauLie.C09.C09_name_dim", "PauLie.C09.mergeSummands_dim", "PauLie.Tie.census_tie",
    "PauLie.C01Comp.C01Comp_subgraphs", "PauLie.C01Comp.C01_componentwise", "PauLie.C01Comp.C01_componentwise_typeA"]
IMPORTS = CLOSURE_IMPORTS + ["PauLieVerif.Properties.C09", "PauLieVerif.Proofs.TieCensus", "PauLieVerif.Properties.C01Comp"]

def batch_oracle(lines, outs):
    colls = [inputs_of(l) for l in lines]
    res = [None] * len(lines)
    algs = [fields(o).get("alg", "[]") if not o.startswith("!") else "[]" for o in outs]
    algs = [a if a.startswith("[") else "[]" for a in algs]
    small = [k for k in range(len(lines)) if (len(colls[k][0]) if colls[k] else 0) <= 6]
    inv_c = dict(zip(small, lean_inv([colls[k] for k in small])))
    inv_n = lean_invname(algs)
    for k, o in enumerate(outs):
        f = fields(o)
        if o.startswith("!") or not f.get("dim", "!").isdigit():
            res[k] = f"no dimension reported: {o[:120]}"
            continue
        dim = int(f["dim"])
        if inv_n[k] != "bad-op":
            named = int(fields(inv_n[k])["size"])
            if named != dim:
                res[k] = f"get_dla_dim()={dim} but the algebra it names, {algs[k]}, has dimension {named}"
                continue
        if k in inv_c:
            size = int(fields(inv_c[k])["size"])
            if size != dim:
                res[k] = f"get_dla_dim()={dim} but the commutator closure of {','.join(colls[k])} has {size} elements"
                continue
            gs = O.pad(colls[k])
            if len(O.closure([O.enc(s) for s in gs])) != size:
                res[k] = "ORACLE-DISAGREEMENT on closure size"
    return res

def build_streams(rng, tier):
    th = tier == "thorough"
    h, cm = impl_classify.handle, impl_classify.strip_meta
    kw = dict(batch_oracle=batch_oracle, canon=cm, tag=tag_classify, nontrivial=nontrivial_classify, shrink=shrink_classify)
    big = [G.line_of("classify", G.collection(rng, 14 if th else 10, 20)) for _ in range(2000 if th else 400)]
    lines = classify_lines(rng, tier)
    return [
        Stream("corpus", corpus_lines(PID), h, **kw),
        Stream("exhaustive-small", exhaustive_small_lines(), h, **kw),
        Stream("structured+random", lines, h, **kw),
        Stream("name-consistency-any-n", big, h, **kw),
        history_stream("C09", rng, tier),
        assembled_stream(lines[:500 if th else 120] + big[:200 if th else 50], **kw),
    ]

RULE = ("same generator as C01 (n<=5, thorough 6) with closure size from the Lean-verified checker; a second stream on up to 10 (thorough 14) "
        "qubits checks dimension == dimension of the reported name only. non-trivial: has dependents or several legs/components")

def main(tier):
    return standard_main(PID, tier, "other", THEOREMS, IMPORTS, build_streams, rule=RULE,
        assumptions=["closure size from closureList (proved to enumerate exactly the commutator closure, for all n); evaluated per input n<=6"])

def replay(path):
    r = json.load(open(path)); line = r.get("line")
    sp = replay_special(PID, line, batch_oracle)
    if sp is not None:
        return sp
    out = impl_classify.handle(line); why = batch_oracle([line], [out])[0]
    print("line:", line); print("implementation:", out); print("model:", run_model([line])[0]); print("oracle:", why or "holds")
    return 1 if why else 0
