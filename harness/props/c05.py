"""C05 — a compiled sequence really produces the target by nested commutators."""
from __future__ import annotations
from compiler_checks import *
import oracle as O

PID = "C05"
THEOREMS = ["PauLie.C05.validSeq_iff", "PauLie.C05.validSeq_sound", "PauLie.C05.nestedPublic_matrix",
            "PauLie.C05.nestedCommutatorResult_matrix", "PauLie.C05.orientation", "PauLie.C05.C05_refuted", "PauLie.C05.C05_refuted_zero",
            "PauLie.C05.C05_refuted_detail", "PauLie.C05.observed_YIY", "PauLie.C05.observed_IIX", "PauLie.C07.universalSet_ok"] + SEARCH_THEOREMS_C05
IMPORTS = ["PauLieVerif.Properties.C05", "PauLieVerif.Properties.C05Search", "PauLieVerif.Properties.C05Valid"]

# the literals of Properties/C05.lean (Compiler.observedReturns): the implementation must still return exactly these
WITNESSES = ["witness 3 2 YIY", "witness 3 2 IIX"]

def rs(rng, n):
    return "".join(rng.choice("IXYZ") for _ in range(n))

def why_of(line, kind, detail, out):
    N, k, t = parse_compile_line(line)
    return (f"kind={kind}; branch={branch(k, t)}; model-return={model_branch(line)}; compile_target({t}, k_left={k}) returned {out[4:][:160]} which the verified "
            f"validator rejects [{detail}]")

def batch_oracle_compile(lines, outs):
    IMPL.update(zip(lines, outs))
    modelx(lines)
    js = judge(lines, outs)
    res = []
    for l, o, (kind, detail) in zip(lines, outs, js):
        if kind == "ok" or kind.startswith("raise:"):      # a raise is C06's business
            res.append(None)
        else:
            res.append(why_of(l, kind, detail, o))
    return res

def known_match(stream, line, why):
    if line.startswith("ccompile "):
        return ccompile_known(PID, line, why)
    if not line.startswith("compile ") or not why.startswith("kind="):
        return None
    N, k, t = parse_compile_line(line)
    kind = why[5:].split(";")[0]
    return signature(PID, N, k, t, kind, line)

def sym_nested(pub):
    """independent symbolic evaluation on (x,z) bitmasks: [A_1,[A_2,[...,A_n]]] -> text"""
    cur, n = O.enc(pub[-1]), len(pub[-1])
    for op in reversed(pub[:-1]):
        if len(op) != n:
            return "!ValueError"
        a = O.enc(op)
        if not O.anti(a, cur):
            return "None"
        cur = O.mul(a, cur)
    return O.dec(cur, n) or "-"

# ---- oracle of the correspondence commands: dense matrices (independent of model and library)
def oracle_corr(line, out):
    t = line.split(" ")
    if t[0] in ("nested", "pnested"):
        seq = [] if t[1] == "-" else t[1].split(",")
        if not seq:
            return None if out == "None" else f"{t[0]} of the empty sequence is {out}"
        pub = seq if t[0] == "pnested" else [*reversed(seq[1:]), seq[0]]
        exp = sym_nested(pub)
        if out != exp:
            return f"{t[0]}({t[1]}) = {out}, symbolic evaluation gives {exp}"
        if len({len(s) for s in seq}) != 1:
            return None
        n = len(seq[0])
        if n > 4 or n == 0:
            return None
        pub = seq if t[0] == "pnested" else [*reversed(seq[1:]), seq[0]]
        C = dense_nested(pub)
        if out == "None":
            return None if np.allclose(C, 0) else f"{t[0]}({t[1]}) = None but the matrix commutator is non-zero"
        if out.startswith("!"):
            return f"{t[0]}({t[1]}) raised {out}"
        v = dense_verdict(out, pub)
        return None if v == "target" else f"{t[0]}({t[1]}) = {out} but the matrix commutator is {v}"
    if t[0] == "orient":
        seq = [] if t[1] == "-" else t[1].split(",")
        exp = ([*reversed(seq[1:]), seq[0]] if seq else [])
        return None if out == (",".join(exp) or "-") else f"orient({t[1]}) = {out}, expected {','.join(exp)}"
    if t[0] == "valid":
        N, k, tgt = int(t[1]), int(t[2]), t[3]
        seq = [] if t[4] == "-" else t[4].split(",")
        f = fields(out)
        if 2 <= k < N <= 4 and seq and all(len(s) == N for s in seq) and len(tgt) == N:
            U = set(impl_compiler.handle(f"uset {N} {k}").split(","))
            exp = all(s in U for s in seq) and dense_verdict(tgt, seq) == "target"
            if (f.get("valid") == "T") != exp:
                return f"valid({N},{k},{tgt},{t[4]}) = {f.get('valid')} but matrices/universal set say {exp}"
        return None
    return None

def corr_lines(rng, tier):
    th = tier == "thorough"
    out = []
    for _ in range(6000 if th else 1500):
        N = rng.choice([2, 3, 3, 4, 4, 5, 6, 8])
        k = rng.randint(1, N - 1)
        U = impl_compiler.handle(f"uset {N} {k}").split(",")
        m = rng.choice([1, 2, 2, 3, 4, 5, 6, 8, 10])
        mode = rng.random()
        if mode < 0.55:      # a walk that never commutes: non-zero nested commutator inside the set
            seq = [rng.choice(U)]
            cur = impl_compiler.mk(seq[0])
            for _ in range(m - 1):
                cands = [u for u in U if not (impl_compiler.mk(u) | cur)]
                if not cands:
                    break
                u = rng.choice(cands); seq.append(u); cur = impl_compiler.mk(u) @ cur
            internal = seq
        elif mode < 0.8:
            internal = [rng.choice(U) if rng.random() < 0.7 else rs(rng, N) for _ in range(m)]
        else:
            internal = [rs(rng, N) for _ in range(m)]
        pub = [*reversed(internal[1:]), internal[0]]
        cmd = rng.choice(["nested", "pnested", "orient", "valid", "valid"])
        if cmd == "nested":
            out.append("nested " + ",".join(internal))
        elif cmd == "pnested":
            out.append("pnested " + ",".join(pub))
        elif cmd == "orient":
            out.append("orient " + ",".join(internal))
        else:
            r = impl_compiler.handle("pnested " + ",".join(pub))
            tgt = r if (r not in ("None",) and not r.startswith("!") and rng.random() < 0.8) else rs(rng, N)
            out.append(f"valid {N} {k} {tgt} {','.join(pub)}")
    return out

def malformed_lines(rng, tier):
    out = ["nested -", "pnested -", "orient -", "valid 3 2 XII -", "valid 3 3 XII XII", "valid 3 0 XII XII",
           "valid 2 1 XI XI", "valid 3 2 XI XII", "valid 3 2 XII XI", "nested XI,X", "pnested X,XI", "nested X", "pnested XY"]
    for _ in range(600 if tier == "thorough" else 200):
        m = rng.randint(1, 5)
        seq = [rs(rng, rng.choice([1, 2, 3, 3, 3])) for _ in range(m)]
        cmd = rng.choice(["nested", "pnested", "orient"])
        out.append(f"{cmd} {','.join(seq)}")
        N = rng.randint(-1, 5); k = rng.randint(-1, 5)
        out.append(f"valid {N} {k} {rs(rng, rng.randint(1, 4))} {','.join(seq)}")
    return out

def build_streams(rng, tier):
    h = impl_compiler.handle
    corpus = corpus_lines(PID)
    ex, smp = compile_lines(rng, tier)
    modelx(ex + smp + [l for l in corpus if l.startswith("compile ")])
    def tag(l, o):
        return (model_branch(l) + ":returned") if o.startswith("seq=") else o
    def tagc(l, o):
        t = l.split(" ")[0]
        return t + ":" + ("None" if o == "None" else ("err" if o.startswith("!") else ("T" if "valid=T" in o else ("F" if "valid=F" in o else "str"))))
    kw = dict(batch_oracle=batch_oracle_compile, shrink=shrink_compile, tag=tag, model=True,
              nontrivial=lambda l, o: o.startswith("seq=") and "," in o)
    return [
        Stream("corpus-model", [l for l in corpus if not l.startswith("compile ")], h, oracle_corr, tag=tagc),
        Stream("corpus-compile", [l for l in corpus if l.startswith("compile ")], h, **kw),
        Stream("refutation-witness-replay", WITNESSES, h, None, tag=tag),
        Stream("nested/orient/valid-correspondence", corr_lines(rng, tier), h, oracle_corr, tag=tagc,
               nontrivial=lambda l, o: o not in ("None", "-") and not o.startswith("!")),
        Stream("malformed", malformed_lines(rng, tier), h, oracle_corr, tag=tagc),
        Stream("compile-exhaustive", ex, h, **kw),
        Stream("compile-sampled", smp, h, **kw),
        Stream(ASSEMBLED_TARGETS, (ex[::7] + smp[::3])[:400 if tier == "thorough" else 120], handle_assembled_target, **kw),
        Stream("class-API-object-reuse", ccompile_lines(rng, tier), h, batch_oracle=ccompile_oracle(PID), shrink=shrink_ccompile, model=True,
               tag=lambda l, o: "reuse:" + ("returned" if all(x.startswith("seq=") for x in o.split("|")) else "some-raise"),
               nontrivial=lambda l, o: True),
        Stream("listed-failures-reproduced-by-model", listed_lines(tier), listed_kind, None, tag=lambda l, o: "listed:" + o),
        Stream("search-helpers", helper_lines(rng, tier), h, None, tag=lambda l, o: l.split(" ")[0] + ":" + ("raise" if o.startswith("!") else ("empty" if o in ("-", "None") else "result")),
               nontrivial=lambda l, o: not o.startswith("!")),
    ]

RULE = ("CLASS API with object reuse (stream class-API-object-reuse): one OptimalPauliCompiler object compiles 2-4 targets in a row (repeats, consecutive "
        "targets sharing the right block, N<=5, thorough also 6); every reply is judged like a compile_target reply AND must equal what a fresh compiler "
        "(and the model, a pure function) answers. EXACT correspondence of compile_target with the Lean model of the whole search (Model/CompilerSearch.lean: same sequence or same exception "
        "type raised by the same function) on every compile line below; the committed list of failing targets (N<=4 quick, N<=5 thorough) must be "
        "what the model produces, kind by kind (stream listed-failures-reproduced-by-model); a failure at N>=6 is a known finding only if the model "
        "does exactly what the implementation did and the verified validator gives the same kind on the model's output; the search helpers "
        "(left_map_over_a, subsystem_compiler, factor_w_orders, _candidate_decompositions, _bfs_case3 with caps, _case3_best_reordering on blocks "
        "where each of its four phases succeeds, the interleaving generators with their caps) compared one by one. "
        "compile_target run on ALL 4^N-1 targets for N<=4 (thorough N<=5), every 2<=k<N, plus seeded samples at N=5 (quick) and 6<=N<=8 "
        "(W=I / V=I / generic targets); EVERY returned sequence is judged by the Lean validator validSeq (compiled model) and, for N<=4, "
        "cross-checked with a dense numpy nested commutator and the universal set as printed by the implementation. Correspondence of "
        "_nested_commutator_result / public nested evaluation / _sequence_to_paulie_orientation / validator on non-commuting walks inside the "
        "universal set, random and malformed sequences (dense oracle n<=4). non-trivial: a returned sequence with >=2 elements")

def main(tier):
    return standard_main(PID, tier, "other", THEOREMS, IMPORTS, build_streams, known_match=known_match, rule=RULE,
        assumptions=["the search procedures of the compiler (subsystem_compiler, left_map_over_a, _case3_best_reordering, _bfs_case3, compile, compile_target) "
                     "are modelled exactly (tie: correspondence on all targets N<=4/5 and the samples to N=8); the property is decided per returned sequence by the "
                     "validator whose meaning (non-empty, inside the universal set, nested matrix commutator = c*M(target), c != 0) is proved in Lean for all N, k",
                     "proved for all inputs about the model (all N, 2<=k<N, every well-formed target): a sequence returned through a VERIFIED return of compile (W=I; "
                     "the three candidates of V!=I; all four phases of _case3_best_reordering) is Valid — non-empty, every element INSIDE the universal set (hence "
                     "well formed of length N), nested matrix commutator = c*M(target), c != 0 (C05_verified_return_valid). Reason: subsystem_compiler(W) stays inside "
                     "the set when W has at most one X/Z factor, and otherwise drops the first factor of W (loop `while i >= 1`), so that a bit of W is clear in every "
                     "element (C05_subsystem_dichotomy); a non-vanishing nested commutator is the product of its elements (C05_nested_is_product), so the self-check "
                     "fails in every arrangement. Consequently every invalid output leaves through one of the three returns WITHOUT self-check (last return of V!=I, "
                     "_bfs_case3, last return of V=I): C05_failures_only_unverified. NOT proved: anything positive about those three returns",
                     "the verified candidates 1, 2 of the V!=I branch and phases 2-4 of _case3_best_reordering never produce the returned sequence on ANY of the 16380 "
                     "(k, target) pairs with N=6 nor on any target with N<=5 (model census): inside compile they are exercised only on their failing path; their "
                     "succeeding paths are tied by the search-helpers stream",
                     "the property is FALSE on the current tree (C05_refuted); the failing targets are recorded findings (complete list for N<=5, "
                     "(branch, kind) signatures above)"])

def replay(path):
    r = json.load(open(path)); line = r.get("line")
    out = (handle_assembled_target if ASSEMBLED_TARGETS in str(r.get("stream", "")) else impl_compiler.handle)(line)
    print("line:", line); print("implementation:", out)
    div = 0
    if line.startswith("ccompile "):
        m = run_model([line])[0]
        print("model (= fresh compiler per target):", m)
        div = 1 if m != out else 0
        why = ccompile_oracle(PID)([line], [out])[0]
    elif line.startswith("compile "):
        div = replay_compile(line, out)
        why = batch_oracle_compile([line], [out])[0]
    else:
        print("model:", run_model([line])[0])
        why = oracle_corr(line, out) or (None if run_model([line])[0] == out else "model and implementation differ")
    print("oracle:", why or "holds")
    if why and known_match("replay", line, why) and known_lookup(PID, known_match("replay", line, why)):
        print("known finding:", known_match("replay", line, why))
        return div
    return 1 if (why or div) else 0
