"""C12 — linear combinations behave as the matrices they denote."""
from __future__ import annotations
import itertools, json, math, re
from fractions import Fraction
import numpy as np
from common import *
from engine import *
import impl_linear
from impl_linear import coef_exact

PID = "C12"
THEOREMS = [
    "PauLie.C12.C12_mk", "PauLie.C12.C12_matmul", "PauLie.C12.C12_add", "PauLie.C12.C12_smul", "PauLie.C12.C12_h",
    "PauLie.C12.C12_trace", "PauLie.C12.C12_simplify", "PauLie.C12.C12_independent", "PauLie.C12.C12_eq",
    "PauLie.C12.C12_isZero", "PauLie.C12.C12_getMatrix", "PauLie.C12.C12_getMatrix_empty",
    "PauLie.C12.C12_matmul_length", "PauLie.C12.C12_kron", "PauLie.C12.C12_quadratic", "PauLie.C12.C12_str_partial",
]
IMPORTS = [] if os.environ.get("C12_NOPROOF") else ["PauLieVerif.Properties.C12"]
if os.environ.get("C12_NOPROOF"): THEOREMS = []

# ------------------------------------------------------------------ independent oracle
_S = {"I": np.array([[1, 0], [0, 1]], dtype=complex), "X": np.array([[0, 1], [1, 0]], dtype=complex),
      "Y": np.array([[0, -1j], [1j, 0]]), "Z": np.array([[1, 0], [0, -1]], dtype=complex)}

def dense(s):
    m = np.array([[1]], dtype=complex)
    for ch in s:
        m = np.kron(m, _S[ch])
    return m

def parse_terms(s):
    """[(complex, str)] of a protocol combination (input or output syntax)"""
    if s == "-":
        return []
    out = []
    for t in s.split(","):
        c, p = t.split("*")
        re_, im_ = coef_exact(c)
        out.append((complex(float(re_), float(im_)), "" if p == "-" else p))
    return out

def parse_coef(tok):
    re_, im_ = coef_exact(tok)
    return complex(float(re_), float(im_))

def lengths(*term_lists):
    return {len(p) for tl in term_lists for _, p in tl}

def dmat(terms, n):
    m = np.zeros((2 ** n, 2 ** n), dtype=complex)
    for c, p in terms:
        m = m + c * dense(p)
    return m

def parse_mat(s):
    return np.array([[parse_coef(x) for x in row.split(",")] for row in s.split(";")], dtype=complex)

class Cmp:
    """exact comparison (tol = 0) or |x - y| <= tol * (1 + scale)"""
    def __init__(self, tol):
        self.tol = tol
    def eq(self, a, b):
        a, b = np.asarray(a, dtype=complex), np.asarray(b, dtype=complex)
        if a.shape != b.shape:
            return False
        if self.tol == 0:
            return bool(np.array_equal(a, b))
        scale = max(1.0, float(np.max(np.abs(a))) if a.size else 1.0, float(np.max(np.abs(b))) if b.size else 1.0)
        return bool(np.max(np.abs(a - b)) <= self.tol * scale) if a.size else True
    def zero(self, a):
        return self.eq(a, np.zeros_like(a))

# ---- parse a printed combination back
_NUM = r"[-+]?(?:\d+\.?\d*(?:e[-+]?\d+)?|inf|nan)"
_RE_FULL = re.compile(rf"^\(({_NUM})([-+](?:\d+\.?\d*(?:e[-+]?\d+)?)?)i\)$")
def parse_val(v):
    """printed coefficient -> (Fraction re, Fraction im)"""
    F = lambda s: Fraction(s)
    if v == "i": return Fraction(0), Fraction(1)
    if v == "-i": return Fraction(0), Fraction(-1)
    m = _RE_FULL.match(v)
    if m:
        im = m.group(2)
        im = Fraction(1) if im == "+" else Fraction(-1) if im == "-" else F(im)
        return F(m.group(1)), im
    if v.endswith("i"):
        return Fraction(0), F(v[:-1])
    return F(v), Fraction(0)

def parse_printed(s):
    """printed text -> {string: (re, im)} ; raises ValueError on text outside the print grammar"""
    s = s.replace(" - ", " + -")
    out = {}
    for t in s.split(" + "):
        if "*" in t:
            v, p = t.rsplit("*", 1)
            c = parse_val(v)
        elif t.startswith("-"):
            c, p = (Fraction(-1), Fraction(0)), t[1:]
        else:
            c, p = (Fraction(1), Fraction(0)), t
        if any(ch not in "IXYZ" for ch in p):
            raise ValueError(t)
        if p in out:
            raise ValueError("repeated string " + p)
        out[p] = c
    return out

def collected(terms_tok):
    """exact collection {string: (re, im)} of a protocol combination (own arithmetic, Fractions)"""
    d = {}
    if terms_tok == "-":
        return d
    for t in terms_tok.split(","):
        c, p = t.split("*")
        p = "" if p == "-" else p
        re_, im_ = coef_exact(c)
        a = d.get(p, (Fraction(0), Fraction(0)))
        d[p] = (a[0] + re_, a[1] + im_)
    return d

def g8_ok(true, shown, imag=False):
    """`shown` is what `__str__` may print for the component `true`: the value correctly rounded to 8
    significant digits (`%.8g`), or 0 when np.isclose(true, 0), or (imaginary part only) +-1 when
    np.isclose(true, +-1) -- the tolerances the source states (atol 1e-8, rtol 1e-5)."""
    if true == shown:
        return True
    if shown == 0:
        return abs(true) <= Fraction(1, 10 ** 8)
    if imag and abs(shown) == 1 and abs(true - shown) <= Fraction(1, 10 ** 8) + Fraction(1, 10 ** 5):
        return True
    if true == 0:
        return False
    e, a = 0, abs(true)
    while a >= 10 ** (e + 1): e += 1
    while a < Fraction(10) ** e: e -= 1
    return abs(true - shown) <= Fraction(10) ** (e - 7) * Fraction(51, 100)

def fields(out):
    return dict(x.split("=", 1) for x in out.split(" | "))

def oracle_lin1(line, out, tol=0.0):
    _, a, c, p = line.split(" ")
    A = parse_terms(a); P = "" if p == "-" else p
    ls = lengths(A)
    if len(ls) > 1:
        return None                     # strings of different lengths: outside the property's domain
    n = ls.pop() if ls else len(P)
    if n > 4:
        return None
    cmp = Cmp(tol)
    f = fields(out)
    bad = [k for k, v in f.items() if v.startswith("?")]
    if bad:
        return f"{bad[0]}: implementation returned {f[bad[0]]}"
    DA = dmat(A, n)
    sc = parse_coef(c)
    def lin(key):
        v = f[key]
        if v.startswith("!"):
            return v
        t = parse_terms(v)
        if len(lengths(t) | ({n} if key not in ("kron", "rkron", "quad") else set())) > 1:
            return "!lengths"
        return t
    # a.h
    r = lin("h")
    if isinstance(r, str) or not cmp.eq(dmat(r, n), DA.conj().T):
        return f"a.h does not denote the conjugate transpose: {f['h']}"
    # trace
    if f["tr"].startswith("!") or not cmp.eq(parse_coef(f["tr"]), np.trace(DA)):
        return f"trace() = {f['tr']} but the matrix has trace {np.trace(DA)}"
    # simplify
    r = lin("simp")
    if isinstance(r, str) or not cmp.eq(dmat(r, n), DA):
        return f"simplify() changes the denoted matrix: {f['simp']}"
    # is_zero
    isz = cmp.zero(DA)
    if f["zero"] != ("T" if isz else "F"):
        return f"is_zero() = {f['zero']} but the matrix is {'zero' if isz else 'non-zero'}"
    # scalar multiple
    r = lin("smul")
    if isinstance(r, str) or not cmp.eq(dmat(r, n), sc * DA):
        return f"c*a does not denote the scaled matrix: {f['smul']}"
    # kron / rkron / quadratic (needed by C16)
    if len(P) + n <= 5:
        r = lin("kron")
        if isinstance(r, str) or (A and lengths(r) != {n + len(P)}) or not cmp.eq(dmat(r, n + len(P)), np.kron(DA, dense(P))):
            return f"kron(P) does not denote a ⊗ P: {f['kron']}"
        r = lin("rkron")
        if isinstance(r, str) or (A and lengths(r) != {n + len(P)}) or not cmp.eq(dmat(r, n + len(P)), np.kron(dense(P), DA)):
            return f"rkron(P) does not denote P ⊗ a: {f['rkron']}"
    if len(P) == n and 2 * n <= 6:
        r = lin("quad")
        want = np.zeros((4 ** n, 4 ** n), dtype=complex)
        for cc, s in A:
            want = want + cc * np.kron(dense(s), dense(P) @ dense(s))
        if isinstance(r, str) or (A and lengths(r) != {2 * n}) or not cmp.eq(dmat(r, 2 * n), want):
            return f"quadratic(L) does not denote sum c S ⊗ (L S): {f['quad']}"
    # printing
    try:
        pr = parse_printed(f["str"]) if not f["str"].startswith("0*") else {}
    except Exception as e:
        return f"str(a) is outside the print grammar: {f['str']!r} ({e})"
    if f["str"].startswith("0*") and f["str"] != "0*" + "I" * (n if A else 0):
        return f"str(a) of a zero combination is {f['str']!r}"
    true = collected(a)
    for k in set(pr) | set(true):
        t = true.get(k, (Fraction(0), Fraction(0)))
        s = pr.get(k, (Fraction(0), Fraction(0)))
        ok = g8_ok(t[0], s[0]) and g8_ok(t[1], s[1], imag=True)
        if not ok:
            return f"str(a) = {f['str']!r} does not denote the matrix of a (coefficient of {k or '-'})"
    # get_matrix
    if n >= 1:
        if f["mat"].startswith("!"):
            return f"get_matrix() raised {f['mat'][1:]}" + (" on the empty combination" if not A else "")
        if not cmp.eq(parse_mat(f["mat"]), DA):
            return "get_matrix() is not the sum of the scaled Kronecker products"
    return None

def oracle_lin2(line, out, tol=0.0):
    _, a, b = line.split(" ")
    A, Bt = parse_terms(a), parse_terms(b)
    ls = lengths(A, Bt)
    if len(ls) > 1:
        return None
    n = ls.pop() if ls else 0
    if n > 4:
        return None
    cmp = Cmp(tol)
    f = fields(out)
    bad = [k for k, v in f.items() if v.startswith("?")]
    if bad:
        return f"{bad[0]}: implementation returned {f[bad[0]]}"
    DA, DB = dmat(A, n), dmat(Bt, n)
    def lin(key):
        v = f[key]
        if v.startswith("!"):
            return v
        t = parse_terms(v)
        return "!lengths" if len(lengths(t) | {n}) > 1 else t
    r = lin("mm")
    if isinstance(r, str) or not cmp.eq(dmat(r, n), DA @ DB):
        return f"a@b does not denote the matrix product: {f['mm']}"
    for key in ("add", "iadd"):
        r = lin(key)
        if isinstance(r, str) or not cmp.eq(dmat(r, n), DA + DB):
            return f"a{'+=' if key == 'iadd' else '+'}b does not denote the matrix sum: {f[key]}"
    same = cmp.eq(DA, DB)
    if f["eq"] != ("T" if same else "F"):
        return f"a==b is {f['eq']} but the matrices are {'equal' if same else 'different'}"
    return None

def oracle(line, out, tol=0.0):
    if line.startswith("linhist "):
        return oracle_hist(line, out, tol)
    return (oracle_lin1 if line.startswith("lin1 ") else oracle_lin2)(line, out, tol)

def oracle_float(line, out):
    return oracle(line, out, 1e-9)

# ------------------------------------------------------------------ domain guard (exact stream)
def _absq(c):   # upper bound of |c| as float
    return math.hypot(float(c[0]), float(c[1]))

def _vals(tok):
    """[(re, im)] of a protocol combination, None when a denominator is not a power of two"""
    if tok == "-":
        return []
    out = []
    for term in tok.split(","):
        a, b, d = (int(x) for x in term.split("*")[0].split("_"))
        if d <= 0 or d & (d - 1):
            return None
        out.append((Fraction(a, d), Fraction(b, d)))
    return out

def _EXP(vals):
    """all components are integer multiples of 2**-E"""
    return max([x.denominator.bit_length() - 1 for v in vals for x in v] + [0])

def _SUM(vals):
    return sum(abs(v[0]) + abs(v[1]) for v in vals)

_SPAN = 2 ** 44     # 53-bit significands, minus room for 2**n (n <= 8) in trace() and for rounding-free partial sums

def exact_domain_ok(line):
    """On this input every floating-point operation of the source is exact and the tolerances of the source
    (`abs(c) > 1e-12`, `abs(c) < 1e-12`, `np.isclose` with atol 1e-8 / rtol 1e-5) coincide with exact
    (in)equality.  Argument: all coefficients of an operand are integer multiples of 2**-E with sum of moduli S;
    every sum the source forms is then a multiple of 2**-E bounded by S (exact if S*2**E < 2**44), every product
    of a@b / c*a a multiple of 2**-(EA+EB) bounded by SA*SB; a non-zero multiple of 2**-36 exceeds 1e-11 > 1e-12."""
    t = line.split(" ")
    ops = [_vals(t[1])] if t[0] == "lin1" else [_vals(t[1]), _vals(t[2])]
    if any(v is None for v in ops) or any(len(v) > 20 for v in ops):
        return False
    E = [_EXP(v) for v in ops]
    S = [_SUM(v) for v in ops]
    if max(E) > 36 or sum(S) * 2 ** max(E) >= _SPAN:
        return False
    if t[0] == "lin1":
        c = _vals(t[2] + "*I")
        if c is None or E[0] + _EXP(c) > 36 or S[0] * _SUM(c) * 2 ** (E[0] + _EXP(c)) >= _SPAN:
            return False
        # printing: np.isclose(x, 0) (atol 1e-8) and np.isclose(imag, +-1) (rtol 1e-5) must be exact tests
        for re_, im_ in collected(t[1]).values():
            for x in (re_, im_):
                if x != 0 and abs(x) <= Fraction(4, 10 ** 8):
                    return False
            if abs(im_) != 1 and abs(abs(im_) - 1) <= Fraction(1, 10 ** 4):
                return False
        return True
    if ops[0] and ops[1] and (E[0] + E[1] > 36 or S[0] * S[1] * 2 ** (E[0] + E[1]) >= _SPAN):
        return False
    ca, cb = collected(t[1]), collected(t[2])
    for k in set(ca) & set(cb):
        x, y = ca[k], cb[k]
        if x != y and x != (0, 0) and y != (0, 0):
            diff = _absq((x[0] - y[0], x[1] - y[1]))
            if diff <= 4 * (1e-8 + 1e-5 * max(_absq(x), _absq(y))):
                return False
    return True

# ------------------------------------------------------------------ generators
def ctok(re_, im_=Fraction(0)):
    d = math.lcm(Fraction(re_).denominator, Fraction(im_).denominator)
    return f"{int(re_ * d)}_{int(im_ * d)}_{d}"

def rand_dyadic(rng, small=False):
    if small or rng.random() < 0.5:
        return Fraction(rng.choice([0, 1, -1, 2, -2, 3, 1, -1]), rng.choice([1, 1, 2, 4]))
    return Fraction(rng.randint(-255, 255), 2 ** rng.randint(0, 6))

def rand_coef(rng):
    m = rng.random()
    if m < 0.3:
        return rand_dyadic(rng), Fraction(0)
    if m < 0.45:
        return Fraction(0), rand_dyadic(rng)
    if m < 0.5:
        return Fraction(0), Fraction(0)
    return rand_dyadic(rng), rand_dyadic(rng)

def rand_str(rng, n):
    return "".join(rng.choice("IXYZ") for _ in range(n))

def rand_terms(rng, n, kmax=6):
    k = rng.choice([0, 1, 1, 2, 2, 3, 3, 4, 5, 6])
    k = min(k, kmax)
    pool = [rand_str(rng, n) for _ in range(max(1, rng.randint(1, 4)))] + ["I" * n]
    terms = []
    for _ in range(k):
        p = rng.choice(pool) if rng.random() < 0.6 else rand_str(rng, n)
        terms.append((rand_coef(rng), p))
    return terms

def show(terms):
    return ",".join(f"{ctok(*c)}*{p or '-'}" for c, p in terms) if terms else "-"

def respell(rng, terms, n):
    """another spelling of the same matrix: split coefficients, add cancelling pairs and zero terms, permute"""
    out = []
    for (re_, im_), p in terms:
        if rng.random() < 0.4:
            r1, i1 = rand_dyadic(rng, True), rand_dyadic(rng, True)
            out += [((r1, i1), p), ((re_ - r1, im_ - i1), p)]
        else:
            out.append(((re_, im_), p))
    for _ in range(rng.randint(0, 2)):
        q = rand_str(rng, n); c = rand_coef(rng)
        out += [(c, q), ((-c[0], -c[1]), q)]
    if rng.random() < 0.3:
        out.append(((Fraction(0), Fraction(0)), rand_str(rng, n)))
    rng.shuffle(out)
    return out

def perturb(rng, terms, n):
    out = list(terms)
    if out and rng.random() < 0.7:
        i = rng.randrange(len(out))
        (re_, im_), p = out[i]
        m = rng.random()
        if m < 0.4: out[i] = ((re_ + Fraction(1, 64), im_), p)
        elif m < 0.7: out[i] = ((re_, im_ - Fraction(1, 64)), p)
        else: out[i] = ((re_, im_), "".join(rng.choice("IXYZ") if rng.random() < 0.5 else ch for ch in p))
    else:
        out.append(((Fraction(1, 64), Fraction(0)), rand_str(rng, n)))
    return out

def gen_exact(rng, N):
    lines = []
    while len(lines) < N:
        n = rng.choice([1, 1, 2, 2, 2, 3, 3, 4])
        a = rand_terms(rng, n)
        m = rng.random()
        if m < 0.35:
            P = rand_str(rng, n if rng.random() < 0.8 else rng.randint(0, 2))
            l = f"lin1 {show(a)} {ctok(*rand_coef(rng))} {P or '-'}"
        elif m < 0.55:
            l = f"lin2 {show(a)} {show(rand_terms(rng, n))}"
        elif m < 0.7:
            l = f"lin2 {show(a)} {show(respell(rng, a, n))}"
        elif m < 0.8:
            l = f"lin2 {show(respell(rng, a, n))} {show(perturb(rng, a, n))}"
        elif m < 0.85:
            l = f"lin2 {show(a)} {show(a)}"
        elif m < 0.95:
            z = respell(rng, [], n)
            l = f"lin1 {show(z)} {ctok(*rand_coef(rng))} {rand_str(rng, n)}" if rng.random() < 0.5 else f"lin2 {show(z)} {show(respell(rng, [], n))}"
        else:
            big = rng.choice([5, 6, 8])
            l = f"lin2 {show(rand_terms(rng, big))} {show(rand_terms(rng, big))}"
        if exact_domain_ok(l):
            lines.append(l)
    return lines

def print_domain_ok(line):
    """single-use guard of the print-stress stream: every coefficient is a double, nothing is ever added to a
    non-zero number (pairwise different X/Y patterns => disjoint matrix supports, one term per string), and every
    component is 0 or clear of the source's tolerances (|x| > 1e-6; imaginary part 1 exactly or off by > 1e-4)"""
    t = line.split(" ")
    if t[0] != "lin1" or t[2] != "1_0_1" or t[1] == "-":
        return False
    pats = set()
    for term in t[1].split(","):
        c, p = term.split("*")
        a, b, d = (int(x) for x in c.split("_"))
        if d & (d - 1):
            return False
        for x in (Fraction(a, d), Fraction(b, d)):
            if x != 0 and (float(x) != x or abs(x) <= Fraction(1, 10 ** 6) or abs(x) >= 2 ** 45):
                return False
        im = abs(Fraction(b, d))
        if im != 1 and abs(im - 1) <= Fraction(1, 10 ** 4):
            return False
        pat = "".join("1" if ch in "XY" else "0" for ch in p)
        if pat in pats:
            return False
        pats.add(pat)
    return len({len(term.split("*")[1]) for term in t[1].split(",")}) == 1

def gen_print(rng, N):
    def comp():
        m = rng.random()
        if m < 0.15:
            return Fraction(0)
        if m < 0.3:
            return Fraction(rng.choice([1, -1]))
        if m < 0.55:     # nine significant digits ending in 5: exact ties of %.8g (half-even)
            k = rng.randint(10 ** 7, 10 ** 8 - 1) * 10 + 5
            return Fraction(rng.choice([1, -1]) * k, 2 ** rng.choice([0, 0, 1, 2, 3]))
        if m < 0.7:      # all nines: rounding carries into the next decade
            return Fraction(rng.choice([1, -1]) * (10 ** rng.randint(8, 11) - rng.choice([1, 3, 5])), 2 ** rng.randint(0, 3))
        k = rng.randint(1, 2 ** rng.choice([4, 10, 20, 30])) | 1
        return Fraction(rng.choice([1, -1]) * k) * Fraction(2) ** rng.randint(-19, 14)
    lines = []
    while len(lines) < N:
        n = rng.choice([1, 2, 2, 3])
        terms, pats = [], set()
        for _ in range(rng.randint(1, 4)):
            p = rand_str(rng, n)
            pat = "".join("1" if ch in "XY" else "0" for ch in p)
            if pat in pats:
                continue
            pats.add(pat)
            re_, im_ = comp(), comp()
            if re_ == 0 and im_ == 0:
                re_ = Fraction(1)
            terms.append(((re_, im_), p))
        l = f"lin1 {show(terms)} 1_0_1 {rand_str(rng, n)}"
        if print_domain_ok(l):
            lines.append(l)
    return lines

def gen_small(rng, N):
    """coefficients, sums and products of modulus in (1e-12, 1e-6]: far above the source's 1e-12 threshold,
    far below O(1); alone and next to O(1) terms"""
    def tiny(D=None):
        D = D or rng.randint(22, 30)
        lo, hi = -(-6 * 2 ** D // 10 ** 8), 9 * 2 ** D // 10 ** 7
        f = lambda: Fraction(rng.choice([1, -1]) * rng.randint(lo, hi), 2 ** D)
        m = rng.random()
        return (f(), Fraction(0)) if m < 0.5 else (Fraction(0), f()) if m < 0.7 else (f(), f())
    def small(D):
        f = lambda: Fraction(rng.choice([1, -1]) * rng.randint(1, 12), 2 ** D)
        m = rng.random()
        return (f(), Fraction(0)) if m < 0.5 else (Fraction(0), f()) if m < 0.7 else (f(), f())
    def big():
        return (Fraction(rng.choice([1, -1, 2, 3, -2])), Fraction(rng.choice([0, 0, 2, -2])))
    lines = []
    while len(lines) < N:
        n = rng.choice([1, 2, 2, 3])
        pool = [rand_str(rng, n) for _ in range(3)] + ["I" * n]
        pick = lambda: rng.choice(pool) if rng.random() < 0.7 else rand_str(rng, n)
        m = rng.random()
        if m < 0.45:       # products of small coefficients
            D = rng.randint(14, 18)
            a = [(small(D), pick()) for _ in range(rng.randint(1, 3))]
            b = [(small(D), pick()) for _ in range(rng.randint(1, 3))]
            if rng.random() < 0.4:
                rng.choice([a, b]).append((big(), pick()))
            rng.shuffle(a); rng.shuffle(b)
            l = f"lin2 {show(a)} {show(a) if rng.random() < 0.15 else show(b)}"
        elif m < 0.6:      # tiny against nothing / against O(1)
            D = rng.randint(22, 30)
            a = [(tiny(D), pick()) for _ in range(rng.randint(1, 3))]
            b = [] if rng.random() < 0.5 else [(big(), pick())]
            l = f"lin2 {show(a)} {show(b)}" if rng.random() < 0.5 else f"lin2 {show(b)} {show(a)}"
        else:              # unary observations of tiny (+ O(1)) combinations
            D = rng.randint(22, 30)
            a = [(tiny(D), pick()) for _ in range(rng.randint(1, 3))]
            if rng.random() < 0.3:
                c, q = rng.choice(a); a.append(((-c[0], -c[1]), q))
            if rng.random() < 0.5:
                a.append(((Fraction(rng.choice([1, -1, 2, 3])), Fraction(rng.choice([0, 0, 0, 2, -1]))), pick()))
            rng.shuffle(a)
            c = rng.choice([(Fraction(1), Fraction(0)), (Fraction(-1), Fraction(0)), (Fraction(0), Fraction(1)),
                            (Fraction(2), Fraction(0)), (Fraction(1, 2), Fraction(0))])
            l = f"lin1 {show(a)} {ctok(*c)} {rand_str(rng, n)}"
        if exact_domain_ok(l):
            lines.append(l)
    return lines

# ------------------------------------------------------------------ multi-step histories, parser notation
def spell(rng, s, sparse=None):
    """a text the parser expands to the dense string `s`"""
    n = len(s)
    if n == 0 or not (rng.random() < 0.5 if sparse is None else sparse):
        return s
    if all(ch == "I" for ch in s):
        return rng.choice([f"I_{n}", f"Is{n}", f"I_1s{n}"])
    toks, last = [], 0
    for i, ch in enumerate(s):
        if ch != "I":
            if i == last and rng.random() < 0.3:
                toks.append(ch)                 # dense continuation
            else:
                toks.append(f"{ch}_{i + 1}")
            last = i + 1
    if last < n or rng.random() < 0.3:
        toks.append(f"s{n}")
    return "".join(toks)

_TXT = re.compile(r"^((?:[IXYZ](?:_[0-9]+)?)*)(?:s([0-9]+))?$")
def expand(text):
    """own expansion of the notation (dense letters, L_k = letter at 1-based position k, sN = pad to N);
    None = not a well-formed text"""
    m = _TXT.match(text)
    if not m:
        return None
    out = ""
    for tok in re.findall(r"[IXYZ](?:_[0-9]+)?", m.group(1)):
        if "_" in tok:
            k = int(tok[2:])
            if k <= len(out):
                return None
            out += "I" * (k - len(out) - 1) + tok[0]
        else:
            out += tok
    if m.group(2) is not None:
        if int(m.group(2)) < len(out):
            return None
        out += "I" * (int(m.group(2)) - len(out))
    return out

_SITE = {}
for _a in "IXYZ":
    for _b in "IXYZ":
        _p = _S[_a] @ _S[_b]
        for _c in "IXYZ":
            for _k, _ph in enumerate([(1, 0), (0, -1), (-1, 0), (0, 1)]):
                if np.array_equal(_p, complex(*_ph) * _S[_c]):
                    _SITE[(_a, _b)] = (_ph, _c)

def cmul(x, y):
    return (x[0] * y[0] - x[1] * y[1], x[0] * y[1] + x[1] * y[0])

def dprod(da, db):
    """product of two exact coefficient dictionaries (own per-site product table)"""
    out = {}
    for p, x in da.items():
        for q, y in db.items():
            ph, r = (Fraction(1), Fraction(0)), []
            for a, b in zip(p, q):
                f, c = _SITE[(a, b)]
                ph = cmul(ph, (Fraction(f[0]), Fraction(f[1]))); r.append(c)
            r = "".join(r)
            v = cmul(cmul(x, y), ph)
            o = out.get(r, (Fraction(0), Fraction(0)))
            out[r] = (o[0] + v[0], o[1] + v[1])
    return {k: v for k, v in out.items() if v != (0, 0)}

def text_dict(tok):
    """(exact dictionary, set of lengths) of a text combination; None if some text is ill-formed"""
    d = {}
    if tok == "-":
        return d, set()
    for t in tok.split(","):
        c, hx_ = t.split("*")
        s_ = expand(unhx(hx_))
        if s_ is None:
            return None
        v = coef_exact(c)
        o = d.get(s_, (Fraction(0), Fraction(0)))
        d[s_] = (o[0] + v[0], o[1] + v[1])
    return d, {len(k) for k in d}

def dadd(da, db):
    out = dict(da)
    for k, v in db.items():
        o = out.get(k, (Fraction(0), Fraction(0)))
        out[k] = (o[0] + v[0], o[1] + v[1])
    return {k: v for k, v in out.items() if v != (0, 0)}

def hist_states(line):
    """own exact semantics of a history: list of (expect_error, dict | None) per step, None once the history
    leaves the property's domain (strings of different lengths meet)"""
    parts = line[8:].split("|")
    out = []
    first = text_dict(parts[0])
    cur = {k: v for k, v in first[0].items() if v != (0, 0)} if first else {}
    lens = set(first[1]) if first else set()
    out.append((first is None, None if len(lens) > 1 else cur))
    dead = len(lens) > 1
    for op in parts[1:]:
        t = op.split(" ")
        err = False
        if not dead:
            if t[0] in ("iadd", "add", "mm", "rmm"):
                td = text_dict(t[1])
                if td is None:
                    err = True
                else:
                    if len(lens | td[1]) > 1:
                        dead = True
                    else:
                        lens |= td[1]
                        d2 = {k: v for k, v in td[0].items() if v != (0, 0)}
                        cur = dadd(cur, d2) if t[0] in ("iadd", "add") else dprod(cur, d2) if t[0] == "mm" else dprod(d2, cur)
            elif t[0] == "cancel":
                cur = {}
            elif t[0] == "smul":
                c = coef_exact(t[1])
                cur = {k: v for k, v in ((k, cmul(v, c)) for k, v in cur.items()) if v != (0, 0)}
            elif t[0] == "h":
                cur = {k: (v[0], -v[1]) for k, v in cur.items()}
        out.append((err, None if dead else cur))
    return out

def hist_domain_ok(line):
    """every state of the history (and its square) has components k/2**j with j <= 12, |k| < 2**30: all float
    operations exact, every non-zero value far from the source's tolerances"""
    for err, d in hist_states(line):
        if d is None:
            continue
        for v in d.values():
            for x in v:
                if x.denominator > 2 ** 12 or x.denominator & (x.denominator - 1) or abs(x.numerator) >= 2 ** 30:
                    return False
            if abs(v[1]) != 1 and abs(abs(v[1]) - 1) <= Fraction(1, 10 ** 4):
                return False
    return True

def oracle_hist(line, out, tol=0.0):
    states = hist_states(line)
    outs = out.split(" || ")
    if len(outs) != len(states):
        return f"history answered {len(outs)} steps for {len(states)}"
    prev = None
    for k, ((err, d), o) in enumerate(zip(states, outs)):
        if d is None:
            return None
        st, ob = o.split("@", 1)
        if ob.startswith("?"):
            return f"step {k}: state is a {ob[1:]}"
        f = fields(ob)
        bad = [x for x, v in f.items() if v.startswith("?")]
        if bad or st.startswith("?"):
            return f"step {k}: implementation returned {st if st.startswith('?') else f[bad[0]]}"
        if err != st.startswith("!"):
            return f"step {k}: {'an ill-formed text was accepted' if err else 'raised ' + st[1:]}"
        if err and prev is not None and ob != prev:
            return f"step {k}: a failed step changed the combination"
        prev = ob
        if f["simp"].startswith("!") or f["len"].startswith("!"):
            return f"step {k}: simplify()/len raised"
        got = {p: v for p, v in collected(f["simp"]).items() if v != (0, 0)}
        if got != d:
            return f"step {k}: the combination denotes {f['simp']}, not the matrix of the history so far"
        own = {len(p) for _, p in parse_terms(f["simp"])}
        if len(own) > 1:
            return None
        nonempty = f["len"] != "0"
        n = own.pop() if own else (len(next(iter(d))) if d else 0)
        want_tr = d.get("I" * n, (Fraction(0), Fraction(0)))
        want_tr = (want_tr[0] * 2 ** n, want_tr[1] * 2 ** n)
        if f["tr"].startswith("!") or coef_exact(f["tr"]) != want_tr:
            return f"step {k}: trace() = {f['tr']} but the matrix has trace {ctok(*want_tr)}"
        if f["zero"] != ("F" if d else "T"):
            return f"step {k}: is_zero() = {f['zero']} but the matrix is {'non-' if d else ''}zero"
        if nonempty and f["size"] != str(n):
            return f"step {k}: get_size() = {f['size']} for a combination on {n} qubits"
        want_sq = dprod(d, {p: (v[0], -v[1]) for p, v in d.items()})
        if f["sq"].startswith("!") or {p: v for p, v in collected(f["sq"]).items() if v != (0, 0)} != want_sq:
            return f"step {k}: x @ x.h does not denote the matrix product: {f['sq']}"
        if nonempty and {len(p) for _, p in parse_terms(f["sq"])} != {n}:
            return f"step {k}: x @ x.h is on the wrong number of qubits: {f['sq']}"
        if nonempty and 1 <= n <= 3:
            if f["mat"].startswith("!"):
                return f"step {k}: get_matrix() raised {f['mat'][1:]}"
            want = dmat([(complex(float(v[0]), float(v[1])), p) for p, v in d.items()], n)
            if not Cmp(0).eq(parse_mat(f["mat"]), want):
                return f"step {k}: get_matrix() is not the matrix of the history so far"
        if f["str"].startswith("0*"):
            if d or f["str"] != "0*" + "I" * (n if nonempty else 0):
                return f"step {k}: str() = {f['str']!r} for a {'non-' if d else ''}zero combination on {n} qubits"
        else:
            try:
                pr = parse_printed(f["str"])
            except Exception as e:
                return f"step {k}: str() is outside the print grammar: {f['str']!r} ({e})"
            for p in set(pr) | set(d):
                tv = d.get(p, (Fraction(0), Fraction(0))); sv = pr.get(p, (Fraction(0), Fraction(0)))
                if not (g8_ok(tv[0], sv[0]) and g8_ok(tv[1], sv[1], imag=True)):
                    return f"step {k}: str() = {f['str']!r} does not denote the matrix (coefficient of {p or '-'})"
    return None

def gen_hist(rng, N):
    def coef():
        m = rng.random()
        re_ = Fraction(rng.choice([1, -1, 2, 3, -2, 1, 5]), rng.choice([1, 1, 2, 4]))
        im_ = Fraction(rng.choice([1, -1, 2, -3]), rng.choice([1, 2]))
        return (re_, Fraction(0)) if m < 0.6 else (Fraction(0), im_) if m < 0.75 else (re_, im_)
    def comb(n, pool, kmax=3, first_sparse=None, bad=False):
        ts = []
        for i in range(rng.randint(1, kmax)):
            p = rng.choice(pool) if rng.random() < 0.7 else rand_str(rng, n)
            txt = spell(rng, p, first_sparse if i == 0 else None)
            ts.append((coef(), txt))
        if bad:
            i = rng.randrange(len(ts))
            ts[i] = (ts[i][0], rng.choice(["X_0", "Z_2X_1", "XXs1", "Xq", "X_", "s", "Y_2_3", "x"]) if n < 3 else rng.choice(["X_0s3", "Z_3X_3", "XXXXs3", "XsY"]))
        return ",".join(f"{ctok(*c)}*{hx(t)}" for c, t in ts)
    lines = []
    while len(lines) < N:
        n = rng.choice([1, 2, 2, 3, 3])
        pool = [rand_str(rng, n) for _ in range(2)] + ["I" * n, "I" * n]
        m = rng.random()
        ops = []
        if m < 0.25:      # first term in positional notation, observed at once
            init = comb(n, pool + ["I" * (n - 1) + "Z", "Z" + "I" * (n - 1)], first_sparse=True)
        elif m < 0.5:     # accumulated from the empty combination
            init = "-"
            ops = [f"iadd {comb(n, pool)}" for _ in range(rng.randint(1, 3))]
        elif m < 0.7:     # cancelled to nothing, then extended
            init = comb(n, pool)
            ops = ["cancel"] + [f"iadd {comb(n, pool)}" for _ in range(rng.randint(1, 2))]
        else:
            init = comb(n, pool) if rng.random() < 0.8 else "-"
        for _ in range(rng.randint(0, 3)):
            r = rng.random()
            if r < 0.3: ops.append(f"iadd {comb(n, pool, bad=rng.random() < 0.1)}")
            elif r < 0.4: ops.append(f"add {comb(n, pool)}")
            elif r < 0.5: ops.append("cancel")
            elif r < 0.6: ops.append(f"smul {ctok(*rng.choice([(Fraction(-1), Fraction(0)), (Fraction(0), Fraction(1)), (Fraction(2), Fraction(0)), (Fraction(1, 2), Fraction(0))]))}")
            elif r < 0.75: ops.append(f"{rng.choice(['mm', 'rmm'])} {comb(n if rng.random() < 0.9 else n + 1, pool if rng.random() < 0.9 else ['X' * (n + 1)], 2)}")
            elif r < 0.85: ops.append("simp")
            else: ops.append("h")
        l = "linhist " + "|".join([init] + ops)
        if hist_domain_ok(l):
            lines.append(l)
    return lines

# ---- the in-place mutators of a combination (a[i] = (c, P), the cursor of an unfinished iteration, copies edited afterwards)
# between two rounds of observations: whatever an observation remembered (a simplified form, a printed text, a matrix) must
# not outlive the edit.  Judged on the implementation alone: every observation of the edited object must equal that of a
# combination freshly built from the terms it now holds (integers / Gaussian integers only: exact).
def inplace_handle(line):
    import copy as _copy
    from paulie.common.pauli_string_linear import PauliStringLinear
    from paulie.common.pauli_string_bitarray import PauliString
    try:
        _, n, seed = line.split(" ")
        n = int(n)
        r = random.Random("inplace:" + line)
        def term():
            c = r.choice([1, -1, 2, -2, 3, 1j, -1j, 2j, 0, 1 + 1j])
            return (c, "".join(r.choice("IXYZ") for _ in range(n)))
        terms = [term() for _ in range(r.randint(1, 4))]
        if r.random() < 0.3:
            terms.append((-(terms[0][0]), terms[0][1]))            # cancelling pair
        x = PauliStringLinear([(c, PauliString(pauli_str=p)) for c, p in terms])
        def fresh():
            return PauliStringLinear([(c, PauliString(pauli_str=p)) for c, p in terms])
        def observe(when):
            a, b = impl_linear.obs(x), impl_linear.obs(fresh())
            if a != b:
                fa, fb = a.split(" | "), b.split(" | ")
                d = next((u + "  vs fresh  " + v for u, v in zip(fa, fb) if u != v), a[:200])
                return f"{when}: combination holding {terms} observed as [{d[:300]}]"
            eq = impl_linear.guard(lambda: x == fresh())
            if eq is not True:
                return f"{when}: combination holding {terms} == a fresh combination of the same terms answers {eq}"
            return None
        why = observe("before any edit")
        if why:
            return why
        for step in range(r.randint(1, 4)):
            k = r.randrange(5)
            if k <= 2:
                i = r.randrange(len(terms)); t = term()
                x[i] = (t[0], PauliString(pauli_str=t[1])); terms[i] = t
                what = f"a[{i}] = {t}"
            elif k == 3:
                it = iter(x); next(it, None)                                  # an unfinished traversal
                what = "an unfinished iteration"
            else:
                y = x.copy(); z = _copy.copy(x)
                t = term()
                y[0] = (t[0], PauliString(pauli_str=t[1])); z += PauliStringLinear([(1, PauliString(pauli_str=t[1]))])
                what = "edits of copies"
            why = observe(f"after {what} (step {step + 1})")
            if why:
                return why
        return "ok"
    except Exception as e:
        return exc_name(e)

def gen_inplace(rng, k):
    return [f"inplace {rng.choice([1, 1, 2, 2, 3])} {j}" for j in range(k)]

def gen_exhaustive(thorough):
    coefs = [(Fraction(1), Fraction(0)), (Fraction(-1), Fraction(0)), (Fraction(0), Fraction(1))]
    strs = ["I", "X", "Y"] if not thorough else ["I", "X", "Y", "Z"]
    if thorough:
        coefs.append((Fraction(0), Fraction(0)))
    single = [(c, s) for c in coefs for s in strs]
    lists = [[]] + [[t] for t in single] + [[t, u] for t in single for u in single]
    if thorough:
        lists = [[]] + [[t] for t in single] + [[t, u] for t in single for u in single][::3]
    lines = [f"lin2 {show(a)} {show(b)}" for a in lists for b in lists]
    lines += [f"lin1 {show(a)} {ctok(Fraction(0), Fraction(1))} {p}" for a in lists for p in "IXYZ"]
    # every pair of single strings, n = 2: all 256 phases of the product
    s2 = ["".join(t) for t in itertools.product("IXYZ", repeat=2)]
    lines += [f"lin2 1_0_1*{p} 0_1_2*{q}" for p in s2 for q in s2]
    return lines

def gen_malformed(rng, N):
    lines = []
    for _ in range(N):
        n = rng.randint(1, 3)
        a = rand_terms(rng, n, 4)
        b = rand_terms(rng, n, 4)
        m = rng.random()
        victim = a if rng.random() < 0.5 or not b else b
        if m < 0.4 and victim:
            i = rng.randrange(len(victim))
            victim[i] = (victim[i][0], rand_str(rng, rng.choice([0, n + 1, n - 1, n + 2])))
        elif m < 0.6:
            victim.insert(rng.randint(0, len(victim)), (rand_coef(rng), ""))
        elif m < 0.8:
            a = []
        else:
            b = rand_terms(rng, n + 1, 3)
        if rng.random() < 0.5:
            lines.append(f"lin2 {show(a)} {show(b)}")
        else:
            lines.append(f"lin1 {show(a)} {ctok(*rand_coef(rng))} {rand_str(rng, rng.randint(0, 3)) or '-'}")
    return [l for l in lines if exact_domain_ok(l)]

def fhex(x):
    return float(x).hex()

def gen_float(rng, N):
    def coef():
        m = rng.random()
        if m < 0.1: return (0.0, 0.0)
        if m < 0.3: return (rng.uniform(-3, 3), 0.0)
        if m < 0.4: return (0.0, rng.uniform(-3, 3))
        if m < 0.5: return (rng.choice([0.1, 0.2, -0.3, 1 / 3, 1e-3, 1e3]), rng.choice([0.0, 0.7, -1.0]))
        return (rng.gauss(0, 1), rng.gauss(0, 1))
    def terms(n):
        pool = [rand_str(rng, n) for _ in range(3)] + ["I" * n]
        out = []
        for _ in range(rng.randint(0, 6)):
            c = coef(); p = rng.choice(pool) if rng.random() < 0.6 else rand_str(rng, n)
            out.append((c, p))
            if rng.random() < 0.15:
                out.append(((-c[0], -c[1]), p))     # exact cancellation
        rng.shuffle(out)
        return out
    sh = lambda ts: ",".join(f"x{fhex(c[0])}~{fhex(c[1])}*{p}" for c, p in ts) if ts else "-"
    lines = []
    for _ in range(N):
        n = rng.choice([1, 2, 2, 3, 3, 4])
        a = terms(n)
        if rng.random() < 0.45:
            c = coef()
            lines.append(f"lin1 {sh(a)} x{fhex(c[0])}~{fhex(c[1])} {rand_str(rng, n)}")
        else:
            b = terms(n) if rng.random() < 0.7 else [t for t in a if rng.random() < 0.9] + [((0.0, 0.0), rand_str(rng, n))]
            lines.append(f"lin2 {sh(a)} {sh(b)}")
    return lines

# ------------------------------------------------------------------ shrinking / tags
def shrink(line):
    if line.startswith("linhist "):
        parts = line[8:].split("|")
        for k in range(len(parts) - 1, 0, -1):         # drop a step
            yield "linhist " + "|".join(parts[:k] + parts[k + 1:])
        for k, part in enumerate(parts):               # drop a term of a combination
            t = part.split(" ")
            tok = t[-1]
            if "*" in tok and "," in tok:
                terms = tok.split(",")
                for j in range(len(terms)):
                    u = t[:-1] + [",".join(terms[:j] + terms[j + 1:])]
                    yield "linhist " + "|".join(parts[:k] + [" ".join(u)] + parts[k + 1:])
        return
    t = line.split(" ")
    idx = [1] if t[0] == "lin1" else [1, 2]
    for i in idx:
        if t[i] == "-":
            continue
        terms = t[i].split(",")
        for k in range(len(terms)):           # drop a term
            u = list(t); u[i] = ",".join(terms[:k] + terms[k + 1:]) or "-"
            yield " ".join(u)
        for k in range(len(terms)):           # simplify a coefficient
            c, p = terms[k].split("*")
            for c2 in ("1_0_1", "0_1_1", "-1_0_1"):
                if c2 != c and not c.startswith("x"):
                    u = list(t); u[i] = ",".join(terms[:k] + [c2 + "*" + p] + terms[k + 1:])
                    yield " ".join(u)
    # drop one site everywhere
    strs = [term.split("*")[1] for i in idx if t[i] != "-" for term in t[i].split(",")]
    if strs and len({len(s) for s in strs}) == 1 and len(strs[0]) > 1:
        n = len(strs[0])
        for site in range(n):
            u = list(t)
            for i in idx:
                if t[i] != "-":
                    u[i] = ",".join(c + "*" + (p[:site] + p[site + 1:]) for c, p in (term.split("*") for term in t[i].split(",")))
            if t[0] == "lin1" and len(t[3]) == n:
                u[3] = t[3][:site] + t[3][site + 1:]
            yield " ".join(u)

def tag(line, out):
    if line.startswith("linhist "):
        last = out.split(" || ")[-1]
        return "hist steps=" + str(min(out.count(" || "), 4)) + (" err" if "!ValueError@" in out else "") + (" zero" if "zero=T" in last else "")
    f = fields(out)
    if line.startswith("lin1 "):
        return "lin1 zero=" + f.get("zero", "?") + " mat=" + ("ok" if not f.get("mat", "!").startswith("!") else f["mat"])
    return "lin2 eq=" + f.get("eq", "?") + " mm=" + ("ok" if not f.get("mm", "!").startswith("!") else f["mm"])

def nontrivial(line, out):
    return any(ch in line for ch in "XYZ") and "," in line

def known_match(stream, line, why):
    t = line.split(" ")
    if t[0] == "lin1" and t[1] == "-" and why.startswith("get_matrix() raised IndexError on the empty combination"):
        return "get_matrix-empty-IndexError"
    return None

def build_streams(rng, tier):
    thorough = tier == "thorough"
    h = impl_linear.handle
    kw = dict(nontrivial=nontrivial, shrink=shrink, tag=tag)
    return [
        Stream("corpus", corpus_lines(PID), h, oracle, **kw),
        Stream("exhaustive-small", gen_exhaustive(thorough), h, oracle, **kw),
        Stream("dyadic-random", gen_exact(rng, 100000 if thorough else 3500), h, oracle, **kw),
        Stream("print-stress", gen_print(rng, 20000 if thorough else 800), h, oracle, **kw),
        Stream("small-magnitude", gen_small(rng, 12000 if thorough else 700), h, oracle, **kw),
        Stream("histories", gen_hist(rng, 12000 if thorough else 700), h, oracle, **kw),
        Stream("malformed", gen_malformed(rng, 4000 if thorough else 500), h, oracle, **kw),
        Stream("generic-float", gen_float(rng, 50000 if thorough else 1500), h, oracle_float, model=False, **kw),
        Stream("terms-replaced-in-place-between-observations", gen_inplace(rng, 4000 if thorough else 500), inplace_handle,
               oracle=lambda l, o: None if o == "ok" else o, model=False, tag=lambda l, o: "inplace:" + ("ok" if o == "ok" else "bad")),
    ]

RULE = ("corpus witnesses; exhaustive pairs of combinations of <=2 terms over {1,-1,i}x{I,X,Y} and all 256 pairs of 2-qubit "
        "strings; seeded random combinations of <=6 (respelled: <=14) terms with dyadic Gaussian-rational coefficients k/2^j "
        "(|k|<2^8, j<=6), n<=4 (a few n<=8 without dense oracle), including respellings of the same matrix, near misses, "
        "cancelling lists, a@a; small-magnitude: coefficients / sums / products of modulus in (1e-12, 1e-6] (k/2^j, j to 30; "
        "products of k/2^14..18), alone and next to O(1) terms, compared exactly; histories: one object built in steps (from "
        "the empty combination, from a cancelled sum, += / + / @ / * / .h / simplify) with term strings in the parser's "
        "positional notation (Z_2s3) and ill-formed texts, observed after every step against an exact coefficient "
        "dictionary kept by the oracle; print-stress: combinations with pairwise disjoint matrix supports and coefficients of magnitude "
        "1e-6..3e13 incl. exact %.8g ties and carries (exponent notation, half-even); malformed (mixed lengths, empty strings, empty lists); generic double coefficients compared "
        "with numpy only at 1e-9; non-trivial = at least two terms and a non-identity letter")

def main(tier):
    return standard_main(PID, tier, "proof", THEOREMS, IMPORTS, build_streams, known_match=known_match, rule=RULE,
        assumptions=[
            "the theorems are about exact Gaussian-rational coefficients: floating-point rounding is not modelled; the "
            "thresholds abs(c)>1e-12 / abs(c)<1e-12 and np.isclose of the source are modelled as c!=0 / c=0 / equality",
            "model and implementation are compared exactly on dyadic coefficients for which every float operation of the "
            "source is exact and the tolerances coincide with exact comparison (guards exact_domain_ok / hist_domain_ok / "
            "print_domain_ok, Fractions): operands are multiples of 2^-E (E<=36, E_a+E_b<=36 for products) with bounded "
            "sums, so every non-zero collected value exceeds 1e-11; this includes moduli in (1e-12, 1e-6]",
            "term strings are dense IXYZ texts in lin1/lin2; the histories stream also feeds the parser's positional "
            "notation and ill-formed texts through the constructor (model: Parser.mkPS, property C17)",
            "printing (__str__): only C12_str_partial is proved (zero case; otherwise the text is the join of the "
            "formatted terms of a list denoting the same matrix); that the text can be parsed back to that list holds up "
            "to %.8g and the np.isclose snapping of the source (imaginary part printed as +-i within rtol 1e-5, parts "
            "within 1e-8 of 0 omitted) and is checked per input by the oracle, not proved",
            "get_matrix() of the empty combination raises IndexError (known finding: an empty list has no qubit count)",
        ])

def replay(path):
    r = json.load(open(path))
    line = r.get("line")
    if line.startswith("inplace "):
        out = inplace_handle(line)
        print("line:", line); print("oracle:", "holds" if out == "ok" else out)
        return 0 if out == "ok" else 1
    out = impl_linear.handle(line)
    fl = "x" in line.split(" ", 1)[1].replace("X", "")
    why = oracle(line, out, 1e-9 if fl else 0.0)
    print("line:", line); print("implementation:", out)
    if not fl:
        print("model:", run_model([line])[0])
    print("oracle:", why or "holds")
    return 1 if why else 0
