"""C04 — product, phase, commutation, adjoint map, conjugation vs. the matrices."""
from __future__ import annotations
import itertools, json
import numpy as np
from common import *
from engine import *
import impl_ps

PID = "C04"
THEOREMS = ["PauLie.C04.C04_mul", "PauLie.C04.C04_commutes", "PauLie.C04.C04_adjoint",
            "PauLie.C04.C04_conj", "PauLie.C04.C04_length",
            "PauLie.Tie.codec_tie", "PauLie.Tie.sigma_tie"]
IMPORTS = ["PauLieVerif.Properties.C04", "PauLieVerif.Proofs.Tie"]

# ---- independent oracle (own 2x2 matrices, own kron; per-site table for large n)
_S = {"I": np.array([[1, 0], [0, 1]], dtype=complex), "X": np.array([[0, 1], [1, 0]], dtype=complex),
      "Y": np.array([[0, -1j], [1j, 0]]), "Z": np.array([[1, 0], [0, -1]], dtype=complex)}
def dense(s):
    m = np.array([[1]], dtype=complex)
    for ch in s:
        m = np.kron(m, _S[ch])
    return m
# single-site products: a*b = ph * c
_SITE = {}
for a in "IXYZ":
    for b in "IXYZ":
        prod = _S[a] @ _S[b]
        for c in "IXYZ":
            for k in range(4):
                if np.allclose(prod, ((-1j) ** k) * _S[c]):
                    _SITE[(a, b)] = (k, c)

def expected_pair(p, q):
    """expected text from per-site tables (tensor factorisation)"""
    if len(p) != len(q):
        cj = sum(ch == "Y" for ch in p) % 2
        return f"sign=!ValueError comm=!ValueError mul=!ValueError adj=!ValueError conj={cj}"
    k, r = 0, []
    for a, b in zip(p, q):
        kk, c = _SITE[(a, b)]
        k = (k + kk) % 4; r.append(c)
    k2 = 0
    for a, b in zip(q, p):
        k2 = (k2 + _SITE[(a, b)][0]) % 4
    comm = (k == k2)
    r = "".join(r) or "-"
    cj = sum(ch == "Y" for ch in p) % 2
    return f"sign={k} comm={'T' if comm else 'F'} mul={r} adj={'None' if comm else r} conj={cj}"

def oracle_pair(line, out):
    _, p, q = line.split(" ")
    p = "" if p == "-" else p
    q = "" if q == "-" else q
    exp = expected_pair(p, q)
    if out != exp:
        return f"pair({p or '-'},{q or '-'}) implementation says [{out}] matrices say [{exp}]"
    if len(p) == len(q) and 1 <= len(p) <= 4:
        # dense double check of the oracle itself and of the implementation
        f = dict(x.split("=") for x in out.split(" "))
        P, Q, R = dense(p), dense(q), dense(f["mul"])
        if not np.allclose(P @ Q, ((-1j) ** int(f["sign"])) * R):
            return f"dense: M(P)M(Q) != s M(R) for {p},{q}: {out}"
        if (f["comm"] == "T") != np.allclose(P @ Q, Q @ P):
            return f"dense: commutation predicate wrong for {p},{q}"
        if not np.allclose(P.conj(), ((-1) ** int(f["conj"])) * P):
            return f"dense: conjugation sign wrong for {p}"
    return None

def oracle_mat(line, out):
    p = line.split(" ")[1]
    p = "" if p == "-" else p
    m = dense(p)
    exp = ";".join(",".join(impl_ps.gi(x) for x in row) for row in m)
    return None if exp == out else f"get_matrix({p}) differs from the Kronecker product of the 2x2 Pauli matrices"

# ---- operands that are not freshly parsed: results of copies, in-place edits, tensoring, slicing, products
def build_operand(tok):
    """tok = text~kind~k~L ; returns the PauliString the recipe yields"""
    import copy as _copy
    txt, kind, k, L = tok.split("~")
    k = int(k)
    A = impl_ps.mk(txt)
    n = len(A)
    if kind == "fresh" or n == 0:
        return A
    k = k % n
    if kind == "copy-edit-copy":
        C = A.copy(); C[k] = L; return A
    if kind == "copy-edit-orig":
        C = A.copy(); A[k] = L; return C
    if kind == "ccopy-edit-copy":
        C = _copy.copy(A); C.set_substring(k, L); return A
    if kind == "ccopy-edit-orig":
        C = _copy.copy(A); A.set_substring(k, L); return C
    if kind == "edited":
        A[k] = L; return A
    if kind == "inc":
        A.inc(); return A
    if kind == "tensor":
        return impl_ps.mk(txt[:k]) + impl_ps.mk(txt[k:]) if 0 < k else A.tensor(impl_ps.mk(""))
    if kind == "substr":
        return impl_ps.mk(L * (k + 1) + txt + L).get_substring(k + 1, n)
    if kind == "product":
        B_ = impl_ps.mk((L * n)[:n]); return (A @ B_) @ B_
    if kind == "expand-edit":
        E = A.expand(n + 1); A[k] = L; return E
    raise KeyError(kind)

KINDS = ["fresh", "copy-edit-copy", "copy-edit-orig", "ccopy-edit-copy", "ccopy-edit-orig", "edited", "inc", "tensor", "substr", "product", "expand-edit"]

def derived_handle(line):
    try:
        _, a, b = line.split(" ")
        P = build_operand(a)
        Q = P if b == "=" else build_operand(b)       # "=": the very same OBJECT on both sides
        return f"p={pstr(P)} q={pstr(Q)} " + impl_ps.pair_of(P, Q) + " mat=" + ("ok" if (len(P) > 4 or np.allclose(P.get_matrix(), dense(str(P)))) else "differs")
    except Exception as e:
        return exc_name(e)

def oracle_derived(line, out):
    if out.startswith("!"):
        return f"building the operands raised {out}"
    f = dict(x.split("=", 1) for x in out.split(" "))
    p, q = ("" if f["p"] == "-" else f["p"]), ("" if f["q"] == "-" else f["q"])
    got = out.split(" ", 2)[2].rsplit(" mat=", 1)[0]
    exp = expected_pair(p, q)
    if got != exp:
        return (f"operands built by {line.split(' ')[1]} and {line.split(' ')[2]} have texts {p},{q}; implementation says [{got}] "
                f"but the matrices of these texts say [{exp}]")
    if f["mat"] != "ok":
        return f"get_matrix() of the operand built by {line.split(' ')[1]} differs from the Kronecker product of its text {p}"
    return None

# ---- the right operand given as a plain `str` (the API converts it): equal lengths must answer as for a PauliString,
# unequal lengths (shorter as well as longer text) must raise ValueError, never be padded or truncated
def str_operand_handle(line):
    try:
        _, p, q = line.split(" ")
        P = impl_ps.mk(p)
        qs = "" if q == "-" else q
        sg = guard(lambda: impl_ps.phase_k(P.sign(qs)))
        cm = guard(lambda: impl_ps.B(P.commutes_with(qs)))
        c2 = guard(lambda: impl_ps.B(P | qs))
        ml = guard(lambda: pstr(P.multiply(qs)))
        m2 = guard(lambda: pstr(P @ qs))
        ad = guard(lambda: impl_ps.show_opt(P.adjoint_map(qs)))
        a2 = guard(lambda: impl_ps.show_opt(P ^ qs))
        if c2 != cm or m2 != ml or a2 != ad:
            return f"operators-differ: |={c2} commutes_with={cm} @={m2} multiply={ml} ^={a2} adjoint_map={ad}"
        cj = guard(lambda: impl_ps.sgn_k(P.complex_conj()[0]))
        return f"sign={sg} comm={cm} mul={ml} adj={ad} conj={cj}"
    except Exception as e:
        return exc_name(e)

def oracle_str_operand(line, out):
    _, p, q = line.split(" ")
    p = "" if p == "-" else p
    q = "" if q == "-" else q
    exp = expected_pair(p, q)
    return None if out == exp else f"pair({p or '-'}, str {q!r}) implementation says [{out}] matrices / length rule say [{exp}]"

def rand_str(rng, n, w=None):
    return "".join(rng.choice("IXYZ") for _ in range(n))

def build_streams(rng, tier):
    thorough = tier == "thorough"
    ex = []
    for n in range(0, 4 if not thorough else 4):
        strs = ["".join(t) for t in itertools.product("IXYZ", repeat=n)]
        for p in strs:
            for q in strs:
                ex.append(f"pair {p or '-'} {q or '-'}")
    rnd = []
    N = 200000 if thorough else 20000
    maxn = 256 if thorough else 64
    for _ in range(N):
        n = rng.choice([4, 5, 6, 7, 8, 9, 12, 16, 17, 31, 32, 33, 63, 64, rng.randint(4, maxn)])
        n = min(n, maxn)
        p = rand_str(rng, n)
        mode = rng.random()
        if mode < 0.15:
            q = p
        elif mode < 0.3:   # sparse difference
            q = list(p)
            for _ in range(rng.randint(1, 3)):
                q[rng.randrange(n)] = rng.choice("IXYZ")
            q = "".join(q)
        else:
            q = rand_str(rng, n)
        rnd.append(f"pair {p} {q}")
    mal = []
    for _ in range(3000 if thorough else 600):
        a, b = rng.randint(0, 9), rng.randint(0, 9)
        if a == b:
            b += 1
        mal.append(f"pair {rand_str(rng, a) or '-'} {rand_str(rng, b) or '-'}")
    mats = []
    for n in range(0, 6 if thorough else 4):
        if n <= 3:
            strs = ["".join(t) for t in itertools.product("IXYZ", repeat=n)]
        else:
            strs = [rand_str(rng, n) for _ in range(40)]
        mats += [f"mat {p or '-'}" for p in strs]
    sop = []
    for _ in range(6000 if thorough else 1500):
        n = rng.choice([1, 2, 2, 3, 3, 4, 6])
        m = n if rng.random() < 0.5 else rng.choice([x for x in range(1, 8) if x != n])
        sop.append(f"spair {rand_str(rng, n)} {rand_str(rng, m)}")
    der = []
    for _ in range(20000 if thorough else 4000):
        n = rng.choice([1, 2, 2, 3, 3, 4, 5, 8])
        toks = []
        for _t in range(2):
            toks.append(f"{rand_str(rng, n)}~{rng.choice(KINDS)}~{rng.randrange(n)}~{rng.choice('IXYZ')}")
        if rng.random() < 0.12:
            toks[1] = "="
        der.append("dpair " + " ".join(toks))
    h = impl_ps.handle
    nt = lambda l, o: "I" in l or "X" in l
    return [
        Stream("right-operand-as-str", sop, str_operand_handle, oracle_str_operand, model=False,
               tag=lambda l, o: "str:" + ("ValueError" if "!ValueError" in o else "answered")),
        Stream("pairs-of-derived-operands", der, derived_handle, oracle_derived, model=False,
               tag=lambda l, o: "kinds:" + ("same-object:" if l.endswith(" =") else "") + ("err" if o.startswith("!") else "ok")),
        Stream("corpus", corpus_lines(PID), h, lambda l, o: (oracle_pair if l.startswith("pair") else oracle_mat)(l, o)),
        Stream("pairs-exhaustive-n<=3", ex, h, oracle_pair, nontrivial=nt, tag=lambda l, o: "comm=" + o.split("comm=")[1][:1]),
        Stream("pairs-random", rnd, h, oracle_pair, nontrivial=nt, tag=lambda l, o: "sign=" + o.split(" ")[0][5:]),
        Stream("pairs-unequal-length", mal, h, oracle_pair, tag=lambda l, o: "valueError" if "!ValueError" in o else "answered"),
        Stream("matrices", mats, h, oracle_mat),
    ]

RULE = ("exhaustive ordered pairs of strings of length 0..3 (1+16+256+4096), seeded random pairs of equal length "
        "4..64 (thorough ..256; equal / nearly equal / independent), unequal-length pairs, get_matrix() for all strings "
        "n<=3; pairs of operands that are NOT freshly parsed (11 recipes: copies edited on either side, in-place edits, inc, tensor, "
        "get_substring, products, expand) judged against the matrices of their texts; a case is non-trivial if it contains a non-identity letter; distinct = distinct protocol lines")

def main(tier):
    return standard_main(PID, tier, "proof", THEOREMS, IMPORTS, build_streams, rule=RULE,
        assumptions=["theorems are about the Lean model PS.sign/commutesWith/multiply/adjointMap/complexConj; the model is tied to "
                     "pauli_string_bitarray.py by the exhaustive n<=3 correspondence and random pairs up to n=64/256",
                     "str operands are converted by the parser (C17); floating point: (-1j)**k is exact for k<4"])

def replay(path):
    r = json.load(open(path))
    line = r.get("line")
    out = impl_ps.handle(line)
    why = (oracle_pair if line.startswith("pair") else oracle_mat)(line, out)
    print("line:", line); print("implementation:", out); print("model:", run_model([line])[0]); print("oracle:", why or "holds")
    return 1 if why else 0
