"""C06 — every non-identity target can be compiled for every admissible block size."""
from __future__ import annotations
from compiler_checks import *

PID = "C06"
THEOREMS = ["PauLie.C06.compileTargetFront_spec", "PauLie.C06.compileTargetFront_admissible",
            "PauLie.C06.C06_obstruction_odd", "PauLie.C06.C06_obstruction_odd_valid", "PauLie.C06.C06_witnesses_unreachable"]
IMPORTS = ["PauLieVerif.Properties.C06"]

# the refutation witnesses quoted in Properties/C06.lean, replayed on every run (corpus/C06.jsonl holds them too)
WITNESSES = ["witness 4 3 IXXX", "witness 4 3 IXXI", "witness 5 2 IIXXX"]

def batch_oracle_compile(lines, outs):
    res = []
    for l, o in zip(lines, outs):
        N, k, t = parse_compile_line(l)
        if o.startswith("seq="):
            res.append(None)
        elif o.startswith("!"):
            res.append(f"kind=raise:{o[1:]}; branch={branch(k, t)}; compile_target({t}, k_left={k}) raised {o[1:]} instead of returning a sequence")
        else:
            res.append(f"kind=garbage; compile_target({t}, k_left={k}) returned {o[:80]}")
    return res

def known_match(stream, line, why):
    if not line.startswith("compile ") or not why.startswith("kind="):
        return None
    N, k, t = parse_compile_line(line)
    return signature(PID, N, k, t, why[5:].split(";")[0])

def oracle_front(line, out):
    _, t, k = line.split(" ")
    t = "" if t == "-" else t
    k = int(k)
    exp = f"V={t[:k] or '-'} W={t[k:] or '-'}" if (1 <= k < len(t) and k >= 2) else "!ValueError"
    return None if out == exp else f"compile_target front({t or '-'}, {k}) = {out}, expected {exp}"

def front_lines(rng, tier):
    """the constructor enumerates all 4^k left strings (_all_left_paulis), so admissible k stay <= 6"""
    out = []
    for n in range(0, 7):
        for k in range(-2, n + 3):
            for _ in range(3):
                out.append(f"ctfront {''.join(rng.choice('IXYZ') for _ in range(n)) or '-'} {k}")
    for _ in range(1500 if tier == "thorough" else 300):
        n = rng.randint(1, 24)
        k = rng.choice([-1, 0, 1, 2, 3, 4, 5, 6, n - 1, n, n + 1])
        if 6 < k < n:
            k = 6
        out.append(f"ctfront {''.join(rng.choice('IXYZ') for _ in range(n))} {k}")
    return out

def build_streams(rng, tier):
    h = impl_compiler.handle
    corpus = corpus_lines(PID)
    ex, smp = compile_lines(rng, tier)
    def tag(l, o):
        N, k, t = parse_compile_line(l)
        return branch(k, t) + ":" + ("returned" if o.startswith("seq=") else o)
    kw = dict(batch_oracle=batch_oracle_compile, shrink=shrink_compile, tag=tag, model=False,
              nontrivial=lambda l, o: True)
    return [
        Stream("corpus-front", [l for l in corpus if l.startswith("ctfront ")], h, oracle_front),
        Stream("corpus-compile", [l for l in corpus if l.startswith("compile ")], h, **kw),
        Stream("recorded-raise-replay", WITNESSES, h, None, tag=lambda l, o: o),
        Stream("compile_target-guards-and-slicing", front_lines(rng, tier), h, oracle_front,
               tag=lambda l, o: "ValueError" if o.startswith("!") else "sliced"),
        Stream("compile-exhaustive", ex, h, **kw),
        Stream("compile-sampled", smp, h, **kw),
    ]

RULE = ("compile_target run on ALL 4^N-1 targets for N<=4 (thorough N<=5), every 2<=k<N, seeded samples at N=5 (quick) and 6<=N<=8; "
        "a raise is a failure (exception type + raising function of pauli_compiler.py recorded). Guards/slicing of compile_target and the "
        "constructor compared with the model for lengths 0..6 x k in -2..n+2 and random lengths to 24. Every target of the exhaustive domain counts as non-trivial")

def main(tier):
    return standard_main(PID, tier, "other", THEOREMS, IMPORTS, build_streams, known_match=known_match, rule=RULE,
        assumptions=["totality is a statement about the search procedures, which are NOT modelled: Lean proves only the guard/slicing front of compile_target "
                     "and the obstruction for odd k (no sequence inside the universal set can reach a Q=0 target); that the implementation raises is observed by "
                     "running it (exhaustive N<=4/5) — the raise itself is a replayed finding, not a Lean fact",
                     "the property is FALSE on the current tree; failing targets are recorded findings (complete list for N<=5)"])

def replay(path):
    r = json.load(open(path)); line = r.get("line")
    out = impl_compiler.handle(line)
    print("line:", line); print("implementation:", out)
    if line.startswith("compile "):
        why = batch_oracle_compile([line], [out])[0]
    else:
        print("model:", run_model([line])[0])
        why = oracle_front(line, out) or (None if run_model([line])[0] == out else "model and implementation differ")
    print("oracle:", why or "holds")
    if why and known_match("replay", line, why) and known_lookup(PID, known_match("replay", line, why)):
        print("known finding:", known_match("replay", line, why))
    return 1 if why else 0
