"""C06 — every non-identity target can be compiled for every admissible block size."""
from __future__ import annotations
from compiler_checks import *

PID = "C06"
THEOREMS = ["PauLie.C06.compileTargetFront_spec", "PauLie.C06.compileTargetFront_admissible",
            "PauLie.C06.C06_obstruction_odd", "PauLie.C06.C06_obstruction_odd_valid", "PauLie.C06.C06_witnesses_unreachable"] + SEARCH_THEOREMS_C06
IMPORTS = ["PauLieVerif.Properties.C06", "PauLieVerif.Properties.C06Search", "PauLieVerif.Properties.C06Total", "PauLieVerif.Properties.C06Even"]

# the refutation witnesses quoted in Properties/C06.lean, replayed on every run (corpus/C06.jsonl holds them too)
WITNESSES = ["witness 4 3 IXXX", "witness 4 3 IXXI", "witness 5 2 IIXXX"]

def batch_oracle_compile(lines, outs):
    IMPL.update(zip(lines, outs))
    modelx([l for l, o in zip(lines, outs) if o.startswith("!")])
    res = []
    for l, o in zip(lines, outs):
        N, k, t = parse_compile_line(l)
        if o.startswith("seq="):
            res.append(None)
        elif o.startswith("!"):
            res.append(f"kind=raise:{o[1:]}; branch={branch(k, t)}; compile_target({t}, k_left={k}) raised {o[1:]} instead of returning a sequence")
        else:
            res.append(f"kind=garbage; compile_target({t}, k_left={k}) returned {o[:80]}")
    return res

def known_match(stream, line, why):
    if line.startswith("ccompile "):
        return ccompile_known(PID, line, why)
    if not line.startswith("compile ") or not why.startswith("kind="):
        return None
    N, k, t = parse_compile_line(line)
    return signature(PID, N, k, t, why[5:].split(";")[0], line)

def oracle_front(line, out):
    _, t, k = line.split(" ")
    t = "" if t == "-" else t
    k = int(k)
    exp = f"V={t[:k] or '-'} W={t[k:] or '-'}" if (1 <= k < len(t) and k >= 2) else "!ValueError"
    return None if out == exp else f"compile_target front({t or '-'}, {k}) = {out}, expected {exp}"

def front_lines(rng, tier):
    """the constructor enumerates all 4^k left strings (_all_left_paulis), so admissible k stay <= 6"""
    out = []
    for n in range(0, 7):
        for k in range(-2, n + 3):
            for _ in range(3):
                out.append(f"ctfront {''.join(rng.choice('IXYZ') for _ in range(n)) or '-'} {k}")
    for _ in range(1500 if tier == "thorough" else 300):
        n = rng.randint(1, 24)
        k = rng.choice([-1, 0, 1, 2, 3, 4, 5, 6, n - 1, n, n + 1])
        if 6 < k < n:
            k = 6
        out.append(f"ctfront {''.join(rng.choice('IXYZ') for _ in range(n))} {k}")
    return out

def build_streams(rng, tier):
    h = impl_compiler.handle
    corpus = corpus_lines(PID)
    ex, smp = compile_lines(rng, tier)
    def tag(l, o):
        N, k, t = parse_compile_line(l)
        return branch(k, t) + ":" + ("returned" if o.startswith("seq=") else o)
    kw = dict(batch_oracle=batch_oracle_compile, shrink=shrink_compile, tag=tag, model=True,
              nontrivial=lambda l, o: True)
    return [
        Stream("corpus-front", [l for l in corpus if l.startswith("ctfront ")], h, oracle_front),
        Stream("corpus-compile", [l for l in corpus if l.startswith("compile ")], h, **kw),
        Stream("recorded-raise-replay", WITNESSES, h, None, tag=lambda l, o: o),
        Stream("compile_target-guards-and-slicing", front_lines(rng, tier), h, oracle_front,
               tag=lambda l, o: "ValueError" if o.startswith("!") else "sliced"),
        Stream("compile_target-guards-end-to-end", guard_lines(rng), h, None, tag=lambda l, o: o),
        Stream("search-helpers", helper_lines(rng, tier), h, None, tag=lambda l, o: l.split(" ")[0] + ":" + ("raise" if o.startswith("!") else ("empty" if o in ("-", "None") else "result")),
               nontrivial=lambda l, o: not o.startswith("!")),
        Stream("compile-exhaustive", ex, h, **kw),
        Stream("compile-sampled", smp, h, **kw),
        Stream(ASSEMBLED_TARGETS, (ex[::7] + smp[::3])[:400 if tier == "thorough" else 120], handle_assembled_target, **kw),
        Stream("class-API-object-reuse", ccompile_lines(rng, tier), h, batch_oracle=ccompile_oracle(PID), shrink=shrink_ccompile, model=True,
               tag=lambda l, o: "reuse:" + ("returned" if all(x.startswith("seq=") for x in o.split("|")) else "some-raise"),
               nontrivial=lambda l, o: True),
        Stream("listed-failures-reproduced-by-model", listed_lines(tier), listed_kind, None, tag=lambda l, o: "listed:" + o),
    ]

RULE = ("CLASS API with object reuse (stream class-API-object-reuse): one OptimalPauliCompiler object compiles 2-4 targets in a row (repeats, consecutive "
        "targets sharing the right block, N<=5, thorough also 6); every reply is judged like a compile_target reply AND must equal what a fresh compiler "
        "(and the model, a pure function) answers. EXACT correspondence of compile_target with the Lean model of the whole search (Model/CompilerSearch.lean) on every compile line below: same "
        "sequence, or same exception type raised by the same function; the helpers left_map_over_a / subsystem_compiler / factor_w_orders / "
        "_candidate_decompositions / _bfs_case3 compared one by one on random inputs (k<=4, N<=7); the committed list of raising targets must be what the "
        "model produces; a raise at N>=6 is a known finding only if the model raises the same exception in the same function. "
        "compile_target run on ALL 4^N-1 targets for N<=4 (thorough N<=5), every 2<=k<N, seeded samples at N=5 (quick) and 6<=N<=8; "
        "a raise is a failure (exception type + raising function of pauli_compiler.py recorded). Guards/slicing of compile_target and the "
        "constructor compared with the model for lengths 0..6 x k in -2..n+2 and random lengths to 24. Every target of the exhaustive domain counts as non-trivial")

def main(tier):
    return standard_main(PID, tier, "other", THEOREMS, IMPORTS, build_streams, known_match=known_match, rule=RULE,
        assumptions=["totality is a statement about the search procedures; they are modelled exactly (tie: correspondence on all targets N<=4/5, samples to N=8, "
                     "helpers one by one); C06_refuted / _left_only / _even_k are kernel-evaluated runs of the model; left_map_over_a is proved sound (a returned path is a "
                     "walk from start to goal over the given generators) and complete (it raises 'Left map BFS failed.' only if the goal is unreachable) for all inputs; for "
                     "every odd k and every N the model returns nothing for V x I..I with an even number of non-identity letters in V (C06_fails_odd_wI, via the invariant Q "
                     "of C07); the model's fuel NEVER runs out, for every input (compileTarget_total: the BFS of left_map_over_a visits each of the 2^bits strings at most "
                     "once, the loop of subsystem_compiler decreases 2i+[no helper for i], the interleaving generators drop one element per call; _bfs_case3 is bounded "
                     "by its depth cap), so 'terminates' is true of the model and every error is a Python exception of the code; left_map_over_a returns iff a walk "
                     "exists and raises RuntimeError iff none exists (left_search_decides); hence for every N and odd k: V x I..I with even weight raises exactly "
                     "RuntimeError@compile (C06_fails_odd_wI_raises), V x X_j / V x Z_j with V != I of even weight raises exactly RuntimeError@left_map_over_a "
                     "(C06_fails_odd_single_raises). POSITIVE for every even k and every N: the walk graph of left_a_minimal(k) is connected on the 4^k-1 non-identity "
                     "left strings (left_graph_even_connected), so compile_target RETURNS a Valid sequence on every target V x I..I (C06_holds_even_wI) and V x X_j / V x Z_j "
                     "(C06_holds_even_single) with V != I. NOT proved: the raises for right blocks with >= 2 factors and in the V=I branch (start = fallback X_1 of a "
                     "vanishing commutator; at even k too) are reproduced by the model, not explained by a theorem",
                     "the property is FALSE on the current tree; failing targets are recorded findings (complete list for N<=5)"])

def replay(path):
    r = json.load(open(path)); line = r.get("line")
    out = (handle_assembled_target if ASSEMBLED_TARGETS in str(r.get("stream", "")) else impl_compiler.handle)(line)
    print("line:", line); print("implementation:", out)
    div = 0
    if line.startswith("ccompile "):
        m = run_model([line])[0]
        print("model (= fresh compiler per target):", m)
        div = 1 if m != out else 0
        why = ccompile_oracle(PID)([line], [out])[0]
    elif line.startswith("compile "):
        div = replay_compile(line, out)
        why = batch_oracle_compile([line], [out])[0]
    else:
        print("model:", run_model([line])[0])
        why = oracle_front(line, out) or (None if run_model([line])[0] == out else "model and implementation differ")
    print("oracle:", why or "holds")
    if why and known_match("replay", line, why) and known_lookup(PID, known_match("replay", line, why)):
        print("known finding:", known_match("replay", line, why))
        return div
    return 1 if (why or div) else 0
