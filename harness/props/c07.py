"""C07 — the universal set has 2N+1 distinct strings and generates su(2^N)."""
from __future__ import annotations
from concurrent.futures import ThreadPoolExecutor
from compiler_checks import *
import oracle as O

PID = "C07"
THEOREMS = ["PauLie.C07.universalSet_eq", "PauLie.C07.C07_size", "PauLie.C07.C07_guard",
            "PauLie.C07.Q_add", "PauLie.C07.Q_closure", "PauLie.C07.C07_refuted_odd", "PauLie.C07.C07_refuted",
            "PauLie.C07.C07_anchor_4_3", "PauLie.C07.C07_even_partial", "PauLie.C07.C07_size_k1_duplicates",
            "PauLie.Closure.closureList_sound_complete", "PauLie.Closure.closureList_exhausted",
            "PauLie.Closure.closureList_nodup", "PauLie.Tie.uset_tie",
            "PauLie.C07.C07_even_universal", "PauLie.C07.C07_even_universal_text", "PauLie.C07.C07_even_count",
            "PauLie.C07.C07_statement_even", "PauLie.C07.C07_generation_iff_even",
            "PauLie.C07.C07_even_left_block", "PauLie.C07.C07_even_single_right",
            "PauLie.C07.C07_even_nonidentity_left", "PauLie.C07.C07_even_identity_left"]
IMPORTS = ["PauLieVerif.Properties.C07", "PauLieVerif.Properties.C07Even", "PauLieVerif.Proofs.Closure", "PauLieVerif.Proofs.TieApps"]

CLOSURE_MAX = {"quick": 6, "thorough": 8}
PY_CLOSURE_MAX = 8
ALG_MAX = {"quick": 10, "thorough": 14}

def q_form(k, s):
    """the invariant of Properties/C07.lean: non-identity letters in the left block + Y's in the right block, mod 2"""
    return (sum(ch != "I" for ch in s[:k]) + sum(ch == "Y" for ch in s[k:])) % 2

def oracle_uset(line, out):
    """size / distinctness / length of construct_universal_set(N, k); guard behaviour"""
    _, N, k = line.split(" ")
    N, k = int(N), int(k)
    if not (1 <= k < N):
        return None if out == "!ValueError" else f"construct_universal_set({N},{k}) = {out[:60]}, expected ValueError (guard 1<=k<N)"
    if out.startswith("!"):
        return f"construct_universal_set({N},{k}) raised {out[1:]}"
    U = out.split(",")
    if len(U) != 2 * N + 1:
        return f"size: construct_universal_set({N},{k}) has {len(U)} elements, not 2N+1={2 * N + 1}"
    if any(len(u) != N or set(u) - set("IXYZ") for u in U):
        return f"size: construct_universal_set({N},{k}) contains a string that is not of length {N}"
    if k >= 2 and len(set(U)) != len(U):
        return f"size: construct_universal_set({N},{k}) contains duplicates"
    return None

def _closure_job(U):
    return run_model(["closure " + ",".join(U)])[0]

def batch_oracle_gen(lines, outs):
    """`gen N k`: impl prints the set; the Lean-verified closure of exactly that set must be all 4^N-1 non-identity strings"""
    res = [None] * len(lines)
    with ThreadPoolExecutor(max_workers=8) as ex:
        reps = list(ex.map(_closure_job, [o.split(",") for o in outs]))
    for i, (l, o) in enumerate(zip(lines, outs)):
        _, N, k = l.split(" ")
        N, k = int(N), int(k)
        f = fields(reps[i])
        if f.get("flag") != "T":
            res[i] = "verified closure checker ran out of fuel (cannot happen: closureList_exhausted)"; continue
        n = int(f["n"])
        elems = f["elems"].split(",")
        if N <= PY_CLOSURE_MAX:
            py = O.closure_strs(o.split(","))
            if py != set(elems):
                res[i] = f"ORACLE-DISAGREEMENT python closure {len(py)} lean {n}"; continue
        if n != 4 ** N - 1 or ("I" * N) in elems:
            missing = next(("".join(t) for t in itertools.product("IXYZ", repeat=N)
                            if "".join(t) not in set(elems) and set(t) != {"I"}), None)
            allq1 = all(q_form(k, e) == 1 for e in elems)
            res[i] = (f"generation: closure of construct_universal_set({N},{k}) has {n} of {4 ** N - 1} strings (e.g. {missing} is not generated; "
                      f"all members have Q=1: {allq1})")
    return res

def oracle_alg(line, out):
    _, N, k = line.split(" ")
    N, k = int(N), int(k)
    exp = f"su({2 ** N})"
    return None if out == exp else f"generation: classifier reports {out} for construct_universal_set({N},{k}), expected {exp}"

# ---- the classifier clause with a RECORDER attached to the collection (the recording builder is a second implementation of the
# reduction, with recorded defects of its own: property C11).  Where the exact model of that builder (Model/MorphRec.lean) says
# the recorded classification of the universal set is su(2^N), the implementation must say so too.
def algrec_handle(line):
    from paulie.application import pauli_compiler as pc
    from paulie.common.pauli_string_collection import PauliStringCollection
    from paulie.helpers.recording import RecordGraph
    import impl_classify
    _, N, k = line.split(" ")
    def f():
        c = PauliStringCollection(pc.construct_universal_set(int(N), int(k)))
        c.set_record(RecordGraph())
        return impl_classify.algebra_text(str(c.get_algebra()))
    try:
        return impl_classify._with_timeout(lambda: guard(f))
    except impl_classify.ReductionTimeout:
        return "!ReductionTimeout"

ALGREC = {"judged": 0, "drift-predicted-by-model": 0}
def batch_oracle_algrec(lines, outs):
    import impl_classify
    sets = run_model(["uset " + " ".join(l.split(" ")[1:3]) for l in lines])
    rep = run_model([f"classifyrec {u}" for u in sets])
    res = []
    for l, o, m in zip(lines, outs, rep):
        N, k = int(l.split(" ")[1]), int(l.split(" ")[2])
        exp = f"[su({2 ** N})]"
        malg = fields(impl_classify.strip_meta(m)).get("alg") if not m.startswith("!") else None
        if malg != exp or " INCOMPLETE" in m:
            ALGREC["drift-predicted-by-model"] += 1
            res.append(None); continue
        ALGREC["judged"] += 1
        res.append(None if o == exp else f"generation: with a recorder attached the classifier reports {o} for construct_universal_set({N},{k}), "
                   f"expected {exp} (the model of the recording builder gives {exp})")
    return res

def known_match(stream, line, why):
    t = line.split(" ")
    if t[0] in ("gen", "alg") and why.startswith("generation:"):
        k = int(t[2])
        if k % 2 == 1 and k >= 3:
            return "k odd"
    return None

# ---- every call must build its set from scratch: objects handed out by earlier calls (the set itself, get_single,
# left_a_minimal, choose_u_for_b) are mutable PauliStrings; editing them in place must not leak into a later call
def uset_after_edits(line):
    import random as _r
    from paulie.application import pauli_compiler as pc
    from paulie.common.pauli_string_factory import get_single
    try:
        _, N, k, sd = line.split(" ")
        N, k = int(N), int(k)
        r = _r.Random(f"{N}:{k}:{sd}")
        def scramble(ps):
            for p in ps:
                for _ in range(2):
                    if len(p) > 0:
                        p[r.randrange(len(p))] = r.choice("IXYZ")
        scramble(pc.construct_universal_set(N, k))
        for n in sorted({k, N - k, N}):
            if n >= 1:
                scramble([get_single(n, i, lab) for i in range(n) for lab in "XZ"])
        scramble(pc.left_a_minimal(k)); scramble([pc.choose_u_for_b(k)])
        return plist(pc.construct_universal_set(N, k))
    except Exception as e:
        return exc_name(e)

def batch_oracle_after_edits(lines, outs):
    exp = run_model(["uset " + " ".join(l.split(" ")[1:3]) for l in lines])
    res = []
    for l, o, e in zip(lines, outs, exp):
        why = oracle_uset("uset " + " ".join(l.split(" ")[1:3]), o)
        if not why and o != e:
            why = (f"construct_universal_set({l.split(' ')[1]},{l.split(' ')[2]}) after in-place edits of objects returned by earlier calls "
                   f"gives {o[:120]}, a first call gives {e[:120]}")
        res.append(why)
    return res

def build_streams(rng, tier):
    h = impl_compiler.handle
    th = tier == "thorough"
    maxn = 14 if th else 12
    usets = [f"uset {N} {k}" for N in range(-1, maxn + 1) for k in range(-1, N + 2)]
    helpers = [f"lefta {k}" for k in range(-2, maxn + 1)] + [f"chooseu {k}" for k in range(-2, maxn + 1)]
    gens = [f"gen {N} {k}" for N in range(3, CLOSURE_MAX[tier] + 1) for k in range(2, N)]
    algs = [f"alg {N} {k}" for N in range(3, ALG_MAX[tier] + 1) for k in range(2, N)]
    def tag_uset(l, o):
        return "ValueError" if o == "!ValueError" else ("raise" if o.startswith("!") else "set")
    def tag_gen(l, o):
        return "k odd" if int(l.split(" ")[2]) % 2 else "k even"
    corpus = corpus_lines(PID)
    return [
        Stream("corpus", [l for l in corpus if l.split(" ")[0] in ("uset", "lefta", "chooseu")], h,
               lambda l, o: oracle_uset(l, o) if l.startswith("uset") else None),
        Stream("universal-set-all-(N,k)", usets, h, oracle_uset, tag=tag_uset,
               nontrivial=lambda l, o: not o.startswith("!")),
        Stream("set-after-in-place-edits-of-earlier-results", [f"usetre {N} {k} {j}" for N in range(3, 9) for k in range(1, N) for j in range(2)],
               uset_after_edits, batch_oracle=batch_oracle_after_edits, model=False, tag=lambda l, o: "after-edits"),
        Stream("helpers", helpers, h, None, tag=lambda l, o: l.split(" ")[0] + ":" + ("err" if o.startswith("!") else "ok")),
        Stream("generation-by-verified-closure", gens, lambda l: h("uset" + l[3:]), batch_oracle=batch_oracle_gen, tag=tag_gen, model=False),
        Stream("generation-by-classifier", algs, h, oracle_alg, tag=tag_gen, model=False),
        Stream("generation-by-classifier-with-a-recorder-attached", [f"algrec {N} {k}" for N in range(3, (10 if th else 8) + 1) for k in range(2, N, 2)],
               algrec_handle, batch_oracle=batch_oracle_algrec, tag=tag_gen, model=False),
    ]

RULE = ("construct_universal_set compared with the model for every (N,k) with -1<=N<=10 (thorough 12), -1<=k<=N+1 (guard included), "
        "left_a_minimal/choose_u_for_b for -2<=k<=10/12; size 2N+1 / distinct / length N checked on the implementation's output; generation: the "
        "Lean-verified closureList applied to the set the implementation printed, for every 2<=k<N<=6 (thorough 8), cross-checked by a Python closure; "
        "classifier get_algebra()==su(2^N) for N<=10 (thorough 14). non-trivial: the guard passes")

def main(tier):
    return standard_main(PID, tier, "other", THEOREMS, IMPORTS, build_streams, known_match=known_match, rule=RULE,
        assumptions=["size/distinctness/length: proved in Lean for ALL N and 2<=k<N about the model of construct_universal_set (tied by exhaustive correspondence N<=10/12)",
                     "generation is decided by theorems for EVERY (N,k) with 2<=k<N, about the model: it holds iff k is even (C07_generation_iff_even). "
                     "FALSE for every odd k>=3 (C07_refuted_odd, all N) — recorded finding 'k odd'; TRUE for every even k and every N "
                     "(C07_even_universal: the closure of the model's set is exactly the non-identity strings of length N; C07_even_count: the verified "
                     "closure checker lists 4^N-1 strings) — proved from the connectivity of the left walk graph, not assumed from arXiv:2408.03294",
                     "the all-N theorems are about the model of construct_universal_set; the implementation is tied to it by exhaustive correspondence "
                     "(N<=10/12) and its printed set is additionally closed by the verified checker for N<=6/8",
                     "the classifier clause (get_algebra()==su(2^N)) is not a Lean statement; evaluated on the implementation for N<=10/14"])

def replay(path):
    r = json.load(open(path)); line = r.get("line")
    t = line.split(" ")[0]
    if t == "algrec":
        out = algrec_handle(line); why = batch_oracle_algrec([line], [out])[0]
    elif t == "usetre":
        out = uset_after_edits(line); why = batch_oracle_after_edits([line], [out])[0]
    elif t == "gen":
        out = impl_compiler.handle("uset" + line[3:]); why = batch_oracle_gen([line], [out])[0]
    elif t == "alg":
        out = impl_compiler.handle(line); why = oracle_alg(line, out)
    else:
        out = impl_compiler.handle(line)
        m = run_model([line])[0]; print("model:", m)
        why = (oracle_uset(line, out) if t == "uset" else None) or (None if m == out else "model and implementation differ")
    print("line:", line); print("implementation:", out[:300]); print("oracle:", why or "holds")
    return 1 if why else 0
