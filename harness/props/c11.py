"""C11 — Recording the reduction does not change its result.

  "For every collection, classifying with a recorder attached yields the same algebra, the same set of
   dependents and canonical vertices generating the same closure as classifying without one, and the
   last recorded frame shows exactly the final canonical vertices."

STATUS: the property is FALSE of the current tree (known finding).  The recording builder
(`RecordingMorphFactory`) is a drifted copy of `MorphFactory`.  The drifted code is modelled EXACTLY
(Model/MorphRec.lean, `Classify.classifyRec`, protocol command `classifyrec`) and tied to the code by an
exact correspondence on algebra / dimension / dependents / vertices / legs AND on the frames it writes
(per reduction: sorted vertex list of the last graph-carrying frame, number of frames, hash of all frame
titles + frame graphs; stream `frame-log` compares the complete frame text).

  * a C11 failure on an input is KNOWN iff (a) the recorded output of the implementation equals the drift
    model's output on that input, (b) the plain output equals the plain model's output, (c) the failure is of
    one of the three kinds the drift model exhibits (wrong-closure / overcount / other-dependents), recomputed
    on the model's own two outputs with the Python oracle;
  * any divergence between the recording factory and the drift model is a broken correspondence (VIOLATION);
  * every other property failure is a VIOLATION.

Interpretation of the last-frame clause (stated in the report): the RecordGraph is shared by all
components of a collection and every component is reduced by its own factory, which starts with a frame
marked `init`.  The clause is checked PER REDUCTION: the frames are split at the `init` markers, and the
multiset {vertices of the last graph-carrying frame of each segment} must equal the multiset {vertices of
each morph}; in addition `RecordGraph.get_graph(get_size()-1)` (field `final`) must be the vertex set of one
of the morphs (for a connected input: of THE morph; stream `connected-last-frame`).

The oracle works on the implementation's two outputs only (model-independent): algebra names compared as
invariants by the Lean command `invname` (so(3)=su(2)… count equal), closures by the Lean-verified `closure`
command, cross-checked with harness/oracle.py.
"""
from __future__ import annotations
import re
from classify_checks import *

PID = "C11"
THEOREMS = CLOSURE_THEOREMS + [
    "PauLie.C11.C11_refuted", "PauLie.C11.C11_refuted_algebra", "PauLie.C11.C11_refuted_step",
    "PauLie.C11.C11_partial_log", "PauLie.C11.C11_partial_steps", "PauLie.C11.C11_partial_attach", "PauLie.C11.C11_closure_verdict",
]
IMPORTS = CLOSURE_IMPORTS + ["PauLieVerif.Properties.C11"]

SIG = "recorder-drift:{}:reproduced-by-Model.MorphRec.buildRec"
KNOWN_CLASSES = ("wrong-closure", "overcount", "other-dependents")

# the literals of Properties/C11.lean (witnesses of `C11_refuted`, `C11_refuted_algebra`); the stream
# `refutation-witness` checks that the implementation (and, through the correspondence, the model) still
# produces exactly these on the witness inputs
WITNESS_CLO = ("IXI,ZXY,YYZ,XIZ,YYX,IYY", "XIZ,YIX,YYX,YZZ,ZXY", "IXI,IYY,XIZ,YIX,ZXY")   # input, plain verts, recorded verts
WITNESS_ALG = ("IYX,IIZ,XZI,YZY,ZIX", "[4*so(3)]", "[8*so(3)]")                             # input, plain alg, recorded alg

def arg_of(line):
    return line.split(" ")[1]

def plain_line(line):
    return "classify " + arg_of(line)

def morph_vertex_sets(morphs: str):
    if morphs in ("-", ""):
        return []
    return sorted(",".join(sorted(v for leg in m.split("/") for v in leg.split("."))) for m in morphs.split(";"))

def last_sets(last: str):
    if last in ("-", ""):
        return []
    return sorted(p.rsplit("@", 1)[0] for p in last.split(";"))

def classify_kinds(kinds):
    """which recorded kind of drift a failure belongs to (None: not a recorded one).  Only differences of the RESULT
    (algebra, dependents, closure of the vertices) can be drift; a raise, a wrong last frame or an unfinished run never is."""
    ks = set(kinds)
    if not ks or ks & {"raise", "last", "final", "incomplete", "algraise"}:
        return None
    if "clo" in ks:
        return "wrong-closure"
    if "alg" in ks:
        return "overcount" if "deps<" in ks else "other-algebra"
    if ks == {"deps~"}:
        return "other-dependents"
    if ks == {"deps<"}:
        return "missing-dependents"
    if ks == {"deps>"}:
        return "extra-dependents"
    return None

def kinds_of(plain: str, rec: str, inv_eq, clo_eq):
    """C11 on a pair of outputs.  inv_eq(algP, algR) -> bool|None, clo_eq(vertsP, vertsR) -> bool"""
    kinds, notes = [], []
    if plain.startswith("!") or rec.startswith("!"):
        if plain != rec:
            kinds.append("raise"); notes.append(f"plain gives {plain[:60]}, recorded gives {rec[:60]}")
        return kinds, notes
    fp, fr = fields(plain), fields(rec)
    if "INCOMPLETE" in rec or "INCOMPLETE" in plain:
        kinds.append("incomplete")
    ap, ar = fp.get("alg", "?"), fr.get("alg", "?")
    if ap.startswith("!") or ar.startswith("!"):
        if ap != ar:
            kinds.append("algraise"); notes.append(f"get_algebra: plain {ap}, recorded {ar}")
    else:
        e = inv_eq(ap, ar)
        if e is None:
            kinds.append("algraise"); notes.append(f"algebra not a name of the family: plain {ap}, recorded {ar}")
        elif not e:
            kinds.append("alg"); notes.append(f"algebra plain {ap} vs recorded {ar}")
    dp, dr = set(lst(fp.get("deps", "-"))), set(lst(fr.get("deps", "-")))
    if dp != dr:
        kinds.append("deps" + ("<" if dr < dp else ">" if dr > dp else "~"))
        notes.append(f"dependents plain {sorted(dp)} vs recorded {sorted(dr)}")
    if not clo_eq(fp.get("verts", "-"), fr.get("verts", "-")):
        kinds.append("clo"); notes.append(f"closure of the canonical vertices differs: plain {fp.get('verts')} vs recorded {fr.get('verts')}")
    mv = morph_vertex_sets(fr.get("morphs", "-"))
    ls = last_sets(fr.get("last", "-"))
    if ls != mv:
        kinds.append("last"); notes.append(f"last graph frame per reduction {ls} vs canonical vertices per morph {mv}")
    fin = fr.get("final", "none")
    if (mv and fin not in mv) or (not mv and fin != "none"):
        kinds.append("final"); notes.append(f"RecordGraph.get_graph(last) shows {fin}, canonical vertices per morph {mv}")
    return kinds, notes

def py_inv_eq(a, b):
    try:
        return O.inv_of_name(O.parse_algebra(a)) == O.inv_of_name(O.parse_algebra(b))
    except Exception:
        return None

def py_clo_eq(a, b):
    return O.closure_strs(lst(a)) == O.closure_strs(lst(b))

def why_text(kinds, notes):
    return f"C11 fails [{','.join(kinds)}]: " + "; ".join(notes)

_PLAIN_CACHE = {}
def plain_impl(line):
    pl = plain_line(line)
    if pl not in _PLAIN_CACHE:
        _PLAIN_CACHE[pl] = impl_classify.handle(pl)
    return _PLAIN_CACHE[pl]

def batch_oracle(lines, outs):
    """property oracle on the implementation: plain run vs recorded run"""
    plains = [plain_impl(l) for l in lines]
    # Lean-verified helpers, batched: invname of both algebra names, closure of both vertex lists
    req, slots = [], []
    for p, r in zip(plains, outs):
        s = {}
        if not (p.startswith("!") or r.startswith("!")):
            fp, fr = fields(p), fields(r)
            for key, f in (("ip", fp), ("ir", fr)):
                a = f.get("alg", "?")
                if not a.startswith("!"):
                    s[key] = len(req); req.append(f"invname {a}")
            for key, f in (("cp", fp), ("cr", fr)):
                s[key] = len(req); req.append("closure " + f.get("verts", "-"))
        slots.append(s)
    rep = run_model(req)
    res = []
    for l, p, r, s in zip(lines, plains, outs, slots):
        disagree = []
        def inv_eq(a, b, s=s):
            x, y = rep[s["ip"]], rep[s["ir"]]
            if x == "bad-op" or y == "bad-op":
                return None
            e = x == y
            if py_inv_eq(a, b) != e:
                disagree.append("invname")
            return e
        def clo_eq(a, b, s=s):
            x, y = fields(rep[s["cp"]]), fields(rep[s["cr"]])
            if x.get("flag") != "T" or y.get("flag") != "T":
                disagree.append("closure-fuel")
            e = set(lst(x.get("elems", "-"))) == set(lst(y.get("elems", "-")))
            if py_clo_eq(a, b) != e:
                disagree.append("closure")
            return e
        kinds, notes = kinds_of(p, r, inv_eq, clo_eq)
        if disagree:
            res.append("ORACLE-DISAGREEMENT (python oracle vs Lean checker) on " + ",".join(disagree))
        elif kinds:
            res.append(why_text(kinds, notes) + drift_note(l, p, r))
        else:
            res.append(None)
    return res

def drift_note(line, plain, rec):
    """informational only (the verdict above does not depend on it): is this failure what the drift model predicts?"""
    try:
        mo = run_model([line, plain_line(line)])
    except Exception:
        return ""
    m_rec, m_plain = impl_classify.strip_meta(mo[0]), impl_classify.strip_meta(mo[1])
    out = []
    for what, m, i in (("recorded", m_rec, rec), ("plain", m_plain, plain)):
        if m != i:
            fm, fi = fields(m), fields(i)
            diff = [k for k in fi if fm.get(k) != fi.get(k)] or ["output"]
            out.append(f"{what} run is NOT what the {'drift model Model/MorphRec.lean' if what == 'recorded' else 'plain model'} gives (differs in {','.join(diff)})")
    return (" | NOT the recorded drift: " + "; ".join(out)) if out else " | reproduced by the drift model"

def cm_rec(model_out: str) -> str:
    """canonical form of the model's reply: a run that exhausts the model's fuel (` INCOMPLETE`) stands for a reduction of the
    recording builder that does not terminate, which the implementation side reports as `!ReductionTimeout`"""
    o = impl_classify.strip_meta(model_out)
    return "!ReductionTimeout" if (" INCOMPLETE" in o and o.startswith("alg=") and "last=" in o) else o

NONTERM_SIG = "recorder-drift:non-termination:reproduced-by-Model.MorphRec.buildRec(out-of-fuel)"

def known_match(stream, line, why):
    if line.startswith("classifyrec ") and re.match(r"C11 fails \[raise\]", why or "") and "recorded gives !ReductionTimeout" in (why or ""):
        mo = run_model([line, plain_line(line)])
        if cm_rec(mo[0]) == "!ReductionTimeout" and impl_classify.strip_meta(mo[1]) == impl_classify.handle(plain_line(line)) \
                and not mo[1].startswith("!") and "INCOMPLETE" not in mo[1]:
            return NONTERM_SIG
        return None
    m = re.match(r"C11 fails \[([^\]]*)\]", why or "")
    if not m or not line.startswith("classifyrec "):
        return None
    kinds = m.group(1).split(",")
    cls = classify_kinds(kinds)
    if cls is None:
        return None
    mo = run_model([line, plain_line(line)])
    m_rec, m_plain = impl_classify.strip_meta(mo[0]), impl_classify.strip_meta(mo[1])
    if m_rec != impl_classify.handle(line) or m_plain != impl_classify.handle(plain_line(line)):
        return None                       # not what the drift model says: a new difference
    mk, _ = kinds_of(m_plain, m_rec, py_inv_eq, py_clo_eq)
    if mk != kinds:
        return None
    return SIG.format(cls)

def witness_oracle(line, out):
    """the literals of Properties/C11.lean are what the implementation produces"""
    p = plain_impl(line)
    if p.startswith("!") or out.startswith("!"):
        return f"witness-literal-mismatch: {p[:50]} / {out[:50]}"
    fp, fr = fields(p), fields(out)
    a = arg_of(line)
    if a == WITNESS_CLO[0] and (fp.get("verts"), fr.get("verts")) != (WITNESS_CLO[1], WITNESS_CLO[2]):
        return f"witness-literal-mismatch: C11_refuted is stated for vertices {WITNESS_CLO[1:]} but the code gives {(fp.get('verts'), fr.get('verts'))}"
    if a == WITNESS_ALG[0] and (fp.get("alg"), fr.get("alg")) != (WITNESS_ALG[1], WITNESS_ALG[2]):
        return f"witness-literal-mismatch: C11_refuted_algebra is stated for {WITNESS_ALG[1:]} but the code gives {(fp.get('alg'), fr.get('alg'))}"
    return None

def connected(gs):
    gs = list(dict.fromkeys(O.pad(gs)))
    if not gs:
        return False
    e = [O.enc(s) for s in gs]
    seen, fr = {0}, [0]
    while fr:
        i = fr.pop()
        for j in range(len(e)):
            if j not in seen and O.anti(e[i], e[j]):
                seen.add(j); fr.append(j)
    return len(seen) == len(e)

def tag_rec(l, o):
    f = fields(o)
    ncomp = len(morph_vertex_sets(f.get("morphs", "-"))) if not o.startswith("!") else 0
    nfr = sum(int(p.rsplit("@", 1)[1].split(":")[0]) for p in f.get("last", "-").split(";")) if f.get("last", "-") not in ("-", "") else 0
    return f"components:{min(ncomp, 3)}{'+' if ncomp > 3 else ''} frames:{'0' if nfr == 0 else '<20' if nfr < 20 else '<60' if nfr < 60 else '<150' if nfr < 150 else '>=150'}"

def build_streams(rng, tier):
    th = tier == "thorough"
    h = impl_classify.handle
    cm = impl_classify.strip_meta
    maxn = 6 if th else 5
    lines = [G.line_of("classifyrec", G.collection(rng, maxn, 14 if th else 10)) for _ in range(8000 if th else 1600)]
    conn = []
    while len(conn) < (1500 if th else 300):
        gs = G.collection(rng, maxn, 10, rng.choice(["star", "star+", "path", "random", "2local"]))
        if connected(gs):
            conn.append(G.line_of("classifyrec", gs))
    log = [l.replace("classifyrec ", "recframes ", 1) for l in (lines[:600 if th else 150] + conn[:200 if th else 50])]
    small = [l.replace("classify ", "classifyrec ", 1) for l in exhaustive_small_lines()]
    wit = [G.line_of("classifyrec", WITNESS_CLO[0].split(",")), G.line_of("classifyrec", WITNESS_ALG[0].split(","))]
    kw = dict(batch_oracle=batch_oracle, canon=cm_rec, tag=tag_rec, nontrivial=nontrivial_classify, shrink=shrink_classify)
    return [
        Stream("corpus", corpus_lines(PID), h, **kw),
        Stream("refutation-witness", wit, h, oracle=witness_oracle, canon=cm),
        Stream("exhaustive-small", small, h, **kw),
        Stream("structured+random", lines, h, **kw),
        Stream("connected-last-frame", conn, h, **kw),
        Stream("frame-log", log, h, canon=lambda m: "!ReductionTimeout" if m.endswith(" INCOMPLETE") else cm(m), shrink=shrink_classify),
    ]

RULE = ("collections from the structured generator of C01 (random dense/sparse, canonical stars, obfuscated stars with dependents / "
        "duplicates / identity, paths, commuting sets, disjoint unions, 2-local translates) on n<=5 qubits (thorough n<=6), every collection of "
        "<=3 strings on 2 qubits and <=4 on 1 qubit, a connected-only stream, the recorded witnesses. Per input: (1) exact correspondence of the "
        "recording factory with the drift model Model/MorphRec.lean on algebra, dimension, dependents, vertices, legs and per reduction "
        "(last graph frame, frame count, hash of all frame titles+graphs), complete frame text on a sub-stream; (2) property oracle on the "
        "implementation's plain and recorded runs: algebra names equal as invariants (Lean invname), dependents sets equal, closures of the two "
        "vertex lists equal (Lean-verified closureList, cross-checked in Python), last graph frame of every reduction = vertices of its morph, "
        "RecordGraph.get_graph(last) = vertices of one morph. A failure is the known finding only if both runs are reproduced exactly by the two "
        "models and its kind is one of wrong-closure / overcount / other-dependents; non-trivial: has dependents or several legs/components")

def main(tier):
    return standard_main(PID, tier, "other", THEOREMS, IMPORTS, build_streams, known_match=known_match, rule=RULE,
        assumptions=["C11 is false of the code (recorded finding); what is checked for all generated inputs is that the recording factory "
                     "behaves exactly as the drift model, and that every failure of C11 is one the drift model reproduces",
                     "the drift model's runs are not kernel-evaluated (the reduction uses `while`, opaque to the kernel): the refutation theorems "
                     "are about the literal outputs on the witnesses, and the harness replays the witnesses on model and code at every run",
                     "last-frame clause read per reduction (frames split at `init` markers); for several components the record's last frame "
                     "shows the component built last",
                     "unbounded: closure theory (closureList = Clo), step-level lemmas of Properties/C11.lean; per input (n<=5/6): everything else"])

def replay(path):
    r = json.load(open(path)); line = r.get("line")
    if not line:
        print("no input recorded:", r.get("message")); return 1
    out = impl_classify.handle(line)
    mod = impl_classify.strip_meta(run_model([line])[0])
    print("line:", line); print("implementation:", out); print("model         :", mod)
    rc = 0
    if out != mod:
        print("correspondence: DIVERGES"); rc = 1
        fl = line.replace("classifyrec ", "recframes ", 1)
        print("frames impl :", impl_classify.handle(fl)[:3000]); print("frames model:", run_model([fl])[0][:3000])
    if line.startswith("classifyrec "):
        print("plain implementation:", plain_impl(line))
        why = batch_oracle([line], [out])[0]
        sig = known_match("replay", line, why) if why else None
        print("oracle:", why or "holds", "| known finding: " + sig if sig else "")
        if why and not (sig and known_lookup(PID, sig)):
            rc = 1
    return rc
