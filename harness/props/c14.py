"""C14 — commutants, anticommutation and commutator graphs are exact."""
from __future__ import annotations
import itertools, json
from common import *
from engine import *
import impl_graph
import impl_collection as IC
import gens as G

PID = "C14"
THEOREMS = ["PauLie.C14.C14_collection", "PauLie.C14.C14_commutants", "PauLie.C14.C14_commutants_empty", "PauLie.C14.C14_graph_edges",
            "PauLie.C14.C14_components_partition", "PauLie.C14.C14_components_connected", "PauLie.C14.C14_subgraphs_partition",
            "PauLie.C14.C14_subgraphs_connected", "PauLie.C14.C14_commutator_graph", "PauLie.C14.C14_commutator_graph_undirected", "PauLie.C14.C14_pairs"]
IMPORTS = ["PauLieVerif.Properties.C14"]

def anti(a, b):
    k = 0
    for x, y in zip(a, b):
        if x != "I" and y != "I" and x != y:
            k += 1
    return k % 2 == 1
_MUL = {("I", "I"): "I", ("X", "X"): "I", ("Y", "Y"): "I", ("Z", "Z"): "I"}
for a, b, c in [("X", "Y", "Z"), ("Y", "Z", "X"), ("Z", "X", "Y")]:
    _MUL[(a, b)] = c; _MUL[(b, a)] = c
for a in "XYZ":
    _MUL[("I", a)] = a; _MUL[(a, "I")] = a
def mul(a, b):
    return "".join(_MUL[(x, y)] for x, y in zip(a, b))
def allstr(n):
    # index order: I(00) Z(01) X(10) Y(11)
    return ["".join(t) for t in itertools.product("IZXY", repeat=n)]

def pad(gs):
    m = max((len(g) for g in gs), default=0)
    return [g + "I" * (m - len(g)) for g in gs]

def comps_of(verts, edges):
    vs = list(dict.fromkeys(verts))
    parent = {v: v for v in vs}
    def find(v):
        while parent[v] != v:
            parent[v] = parent[parent[v]]; v = parent[v]
        return v
    for a, b in edges:
        parent[find(a)] = find(b)
    groups = {}
    for v in vs:
        groups.setdefault(find(v), []).append(v)
    l = [sorted(x or "-" for x in g) for g in groups.values()]
    l.sort(key=lambda c: (-len(c), c[0]))
    return "|".join(",".join(c) for c in l) if l else "-"

def oracle(line, out):
    t = line.split(" ")
    cmd = t[0]
    d = lambda s: s or "-"
    if cmd == "graph":
        gs, cs = pad(impl_graph.strs(t[1])), pad(impl_graph.strs(t[2]))
        if gs and cs and len(gs[0]) != len(cs[0]):
            return None  # mixed lengths between the two collections: outside the property
        E = []
        for i in range(len(gs)):
            for j in range(i + 1, len(gs)):
                if anti(gs[i], gs[j]) and (not cs or mul(gs[i], gs[j]) in cs):
                    E.append(f"{d(gs[i])}-{d(gs[j])}:{d(mul(gs[i], gs[j]))}")
        exp = f"V={','.join(d(g) for g in gs) or '-'} E={','.join(E) or '-'}"
    elif cmd == "subgraphs":
        gs = pad(impl_graph.strs(t[1]))
        exp = comps_of(gs, [(a, b) for a, b in itertools.combinations(gs, 2) if anti(a, b)])
        # partition check
        members = [x for c in out.split("|") for x in c.split(",")] if out != "-" else []
        if sorted(members) != sorted(set(d(g) for g in gs)):
            return f"components {out} do not partition the distinct members of {gs}"
    elif cmd == "components":
        gs = pad(impl_graph.strs(t[2]))
        if not gs:
            return None   # the empty collection has no qubit count: outside the property's domain
        if t[1] == "commutator":
            n = len(gs[0]) if gs else 0
            al = allstr(n)
            exp = comps_of(al, [(p, mul(p, g)) for p in al for g in gs if anti(p, g)])
        else:
            # source keeps only edges whose product is itself a member (get_graph(self)); the
            # property's "components partition G" is checked, the edge filter is the source's choice
            exp = comps_of(gs, [(a, b) for a, b in itertools.combinations(gs, 2) if anti(a, b) and mul(a, b) in gs])
            members = [x for c in out.split("|") for x in c.split(",")] if out != "-" else []
            if sorted(members) != sorted(set(d(g) for g in gs)):
                return f"components {out} do not partition the distinct members of {gs}"
    elif cmd == "commutants":
        gs = pad(impl_graph.strs(t[1]))
        n = len(gs[0]) if gs else 0
        exp = ",".join(d(p) for p in allstr(n) if all(not anti(p, g) for g in gs)) if gs else "-"
        exp = exp or "-"
    elif cmd == "cgraph":
        gs = pad(impl_graph.strs(t[1]))
        n = len(gs[0]) if gs else 0
        al = allstr(n)
        E = []
        for i in range(len(al)):
            for j in range(i + 1, len(al)):
                if any(anti(g, al[i]) and mul(al[i], g) == al[j] for g in gs):
                    E.append(f"{d(al[i])}-{d(al[j])}")
        exp = f"V={','.join(d(a) for a in al)} E={','.join(E) or '-'}"
    elif cmd == "pairs":
        gs = pad(impl_graph.strs(t[1]))
        k = sum(1 for a, b in itertools.combinations(gs, 2) if anti(a, b))
        m = len(gs) * (len(gs) - 1) // 2
        exp = f"anti={k} pair={m} frac={f'{k}/{m}' if m else '!ZeroDivisionError'}"
    else:
        return None
    return None if out == exp else f"{line[:200]}: implementation [{out[:200]}] definition [{exp[:200]}]"

# ---- graph queries after edit histories (a cached or stale graph must not survive an edit)
GQ = {"q.graph": "graph", "q.sub": "subgraphs", "q.compsA": "components", "q.commutants": "commutants", "q.cgraph": "cgraph", "q.pairs": "pairs"}

def oracle_hist(line, out):
    """every graph answer inside a history is judged by the double-loop definition on the strings the collection holds at that moment"""
    init, ops = IC.ops_of(line)
    state = pad(init)
    if out.startswith("!"):
        return None
    for t, o in zip(ops, out.split("\t")):
        if t[0].startswith("q."):
            arg = ",".join(x or "-" for x in state) or "-"
            if t[0] == "q.graph":
                why = oracle(f"graph {arg} -", o.replace("#", " "))
            elif t[0] == "q.sub":
                why = oracle(f"subgraphs {arg}", o)
            elif t[0] == "q.compsA":
                why = oracle(f"components anticommutator {arg}", o) if state else None
            elif t[0] == "q.commutants":
                why = oracle(f"commutants {arg}", o)
            elif t[0] == "q.cgraph":
                why = oracle(f"cgraph {arg}", o.replace("#", " ")) if state else None
            elif t[0] == "q.pairs":
                why = oracle(f"pairs {arg}", o.replace("#", " "))
            else:
                why = None
            if why:
                return f"after the edits {';'.join(':'.join(x) for x in ops[:ops.index(t)] if not x[0].startswith('q.'))} (collection now {state}): " + why
        else:
            state = impl_graph.strs(o.split("=", 1)[1])
    return None

def gen_graph_history(rng, maxn, length):
    import props.c10 as C10
    l = C10.history(rng, maxn, 6, length, space_ok=False)
    init, ops = IC.ops_of(l)
    out = []
    cur, stack = pad(list(init)), []
    def width():
        return max((len(x) for x in cur), default=0)
    def pick():
        # 4^n strings are enumerated by commutants (n<=5) and the commutator graph (n<=3): follow the current width,
        # which edits with longer strings and expand() increase
        qs = ["q.graph", "q.graph", "q.sub", "q.sub", "q.compsA", "q.pairs", "q.pairs"]
        if width() <= 5:
            qs.append("q.commutants")
        if width() <= 3:
            qs += ["q.commutants", "q.cgraph"]
        return rng.choice(qs)
    for t in ops:
        if t[0].startswith("q."):
            out.append(pick())
        else:
            out.append(":".join(t))
            if t[0] in ("copy", "ccopy"):
                stack.insert(0, list(cur))
            if t[0] == "swap":
                if stack:
                    cur, stack[0] = stack[0], cur
            else:
                cur = C10.spec_edit(cur, t)
    out.append("q.graph"); out.append("q.sub"); out.append("q.pairs")
    return G.line_of("hist", init, ";".join(out))

def rs(rng, n, wI=1):
    return "".join(rng.choice("I" * wI + "XYZ") for _ in range(n))

def gen_coll(rng, maxn, maxk):
    n = rng.randint(1, maxn)
    k = rng.randint(0, maxk)
    gs = [rs(rng, n, rng.choice([1, 1, 3])) for _ in range(k)]
    r = rng.random()
    if r < 0.15 and gs:
        gs.append(rng.choice(gs))                      # duplicate
    elif r < 0.3 and gs:
        gs[rng.randrange(len(gs))] = rs(rng, rng.randint(1, n))   # mixed lengths (padded by the collection)
    elif r < 0.4:
        gs.append("I" * n)
    elif r < 0.5 and len(gs) >= 2:
        gs.append(mul(*pad(gs[:2])))                   # product of two members
    return ",".join(gs) or "-"

# ---- strings handed out by earlier calls (enumerations, commutants, factory results) are edited in place, then the
# question is asked on a freshly built collection: the answer must not depend on what happened to those objects
def polluted_handle(line):
    import pollute
    _, seed, rest = line.split(" ", 2)
    t = rest.split(" ")
    members = pad(impl_graph.strs(t[-1] if t[0] != "graph" else t[1]))
    n = max((len(x) for x in members), default=1)
    try:
        pollute.pollute(n, seed, members)
    except Exception as e:
        return exc_name(e)
    return impl_graph.handle(rest)

def oracle_polluted(line, out):
    rest = line.split(" ", 2)[2]
    why = oracle(rest, out)
    return f"after in-place edits of strings handed out by earlier calls: {why}" if why else None

# ---- the same questions on collections whose members were ASSEMBLED through the in-place / derived-object API (templates whose
# copies were edited, block-wise set_substring, tensor, products ...) instead of parsed from text
ASSEMBLED = "graph-queries:members-assembled-through-the-in-place-API"
def assembled_graph_handle(line):
    import pollute, random as _r
    from paulie.common.pauli_string_collection import PauliStringCollection
    r = _r.Random("asm:" + line)
    old = impl_graph.coll
    impl_graph.coll = lambda arg: PauliStringCollection([pollute.assembled_string(x, r) for x in impl_graph.strs(arg)])
    try:
        return impl_graph.handle(line)
    finally:
        impl_graph.coll = old

def build_streams(rng, tier):
    th = tier == "thorough"
    L = []
    for _ in range(6000 if th else 1500):
        c = gen_coll(rng, 6, 8)
        L.append(f"graph {c} -")
        if rng.random() < 0.4:
            L.append(f"graph {c} {gen_coll(rng, 1, 0) if rng.random() < .1 else c}")
        L.append(f"subgraphs {c}")
        L.append(f"components anticommutator {c}")
        L.append(f"pairs {c}")
    S = []
    for _ in range(1500 if th else 300):
        c = gen_coll(rng, 4 if th else 3, 5)
        S.append(f"commutants {c}")
        S.append(f"cgraph {c}")
        S.append(f"components commutator {c}")
    for _ in range(12 if th else 2):   # 4^n vertices enumerated at n = 4 (thorough: 5)
        c = gen_coll(rng, 5 if th else 4, 4)
        S.append(f"commutants {c}"); S.append(f"cgraph {c}")
    for n in ((4, 5, 5, 5, 5) if not th else (4, 4, 5, 5, 5, 5, 5, 5, 6, 6)):   # commutants with EVERY qubit position exercised, n = 5 included
        for _ in range(2):
            gs = [rs(rng, n, rng.choice([1, 3])) for _ in range(rng.randint(1, 4))]
            gs.append(rng.choice("XYZ") + "I" * (n - 1))        # a member acting on the first qubit only
            rng.shuffle(gs)
            S.append(f"commutants {','.join(gs)}")
    S.append("cgraph " + ",".join(rs(rng, 5, 2) for _ in range(2))) if th else None
    H = [gen_graph_history(rng, rng.choice([2, 3, 3, 4, 5]), rng.randint(3, 14)) for _ in range(1500 if th else 350)]
    # exhaustive tiny domain: all collections of <= 2 distinct strings on 1 qubit, <= 2 on 2 qubits (sampled)
    tiny = []
    for n in (1, 2):
        al = allstr(n)
        for k in range(0, 3):
            for combo in itertools.product(al, repeat=k):
                if n == 2 and k == 2 and rng.random() > (1.0 if th else 0.25):
                    continue
                c = ",".join(combo) or "-"
                tiny += [f"graph {c} -", f"subgraphs {c}", f"commutants {c}", f"cgraph {c}", f"pairs {c}", f"components commutator {c}"]
    PO = []
    for j in range(120 if th else 40):
        c = gen_coll(rng, 3, 4)
        PO += [f"pol {j} commutants {c}", f"pol {j} cgraph {c}", f"pol {j} components commutator {c}", f"pol {j} graph {c} -"]
    for j in range(6 if th else 2):
        PO.append(f"pol {j} commutants {gen_coll(rng, 4, 3)}")
    h = impl_graph.handle
    tag = lambda l, o: l.split(" ")[0] + (":err" if o.startswith("!") else "")
    return [
        Stream("corpus", corpus_lines(PID), h, oracle),
        Stream("tiny-exhaustive", tiny, h, oracle, tag=tag),
        Stream("anticommutation-graphs", L, h, oracle, tag=tag, nontrivial=lambda l, o: "E=-" not in o and o != "-"),
        Stream("commutants-and-commutator-graphs", S, h, oracle, tag=tag, nontrivial=lambda l, o: "E=-" not in o),
        Stream("graph-queries-after-edit-histories", H, IC.handle, oracle_hist, tag=lambda l, o: "hist" + (":err" if "!" in o else ""),
               nontrivial=lambda l, o: any(x.split(":")[0] in ("rep", "con", "rem", "del", "exp", "sort") for x in l.split(" ")[2].split(";"))),
        Stream(ASSEMBLED, L[:: (4 if th else 8)] + S[:: (3 if th else 6)], assembled_graph_handle, oracle, tag=tag, model=False),
        Stream("queries-after-in-place-edits-of-handed-out-strings", PO, polluted_handle, oracle_polluted, model=False,
               tag=lambda l, o: "polluted:" + l.split(" ")[2] + (":err" if o.startswith("!") else "")),
    ] + _extra().extra_streams(rng, tier)

RULE = ("random collections on 1..6 qubits (0..8 members; duplicates, mixed lengths, identity, products of members), every "
        "graph query; commutants / commutator graph / its components on n<=3 (quick; 4^n vertices enumerated, a few at n=4; "
        "thorough n<=5), commutants also at n=5 (thorough 6) with a member on the first qubit; the same graph queries after random edit "
        "histories of the collection (append/insert/remove/del/replace/contract/expand/sort/copy), judged on the strings held at that moment; all collections of <=2 strings on 1 qubit and (sampled in quick) 2 qubits. Oracle: direct double loops "
        "over letter-wise (anti)commutation. non-trivial: graph has an edge")

def main(tier):
    return standard_main(PID, tier, "proof", THEOREMS, IMPORTS, build_streams, rule=RULE,
        assumptions=["networkx.connected_components assumed correct; component order/orientation canonicalised by sorting",
                     "get_graph_components('anticommutator') keeps only edges whose product is a member (source passes "
                     "generators=self); its components still partition G; get_subgraphs() is the unfiltered anticommutation graph"])

def replay(path):
    r = json.load(open(path)); line = r.get("line")
    if line.startswith("pol "):
        out = polluted_handle(line); why = oracle_polluted(line, out)
        print("line:", line); print("implementation:", out[:500]); print("oracle:", why or "holds")
        return 1 if why else 0
    if line.startswith("hist "):
        out = IC.handle(line); why = oracle_hist(line, out)
        print("line:", line); print("implementation:", out[:500]); print("oracle:", why or "holds")
        return 1 if why else 0
    out = (assembled_graph_handle if ASSEMBLED in str(r.get("stream", "")) else impl_graph.handle)(line); why = oracle(line, out)
    print("line:", line); print("implementation:", out[:500]); print("model:", run_model([line])[0][:500]); print("oracle:", why or "holds")
    return 1 if why else 0


# ---- helpers of the collection next to the graphs (Properties/C14Extra.lean); imported last: the module uses this one's oracle helpers
def _extra():
    import props.c14_extra as X
    return X

import props.c14_extra as _X
THEOREMS = THEOREMS + _X.EXTRA_THEOREMS
IMPORTS = IMPORTS + _X.EXTRA_IMPORTS
