"""C08 — membership queries agree with the commutator closure."""
from __future__ import annotations
from classify_checks import *

PID = "C08"
THEOREMS = CLOSURE_THEOREMS + [
    # soundness of every "is a member" verdict for ALL inputs, conditional on the executable guards of the guarded model
    "PauLie.C08.C08_partial", "PauLie.C08.C08_dependent_sound", "PauLie.C08.C08_guarded_sound",
    "PauLie.C08.C08_select_sound", "PauLie.C08.C08_isin_sound",
    "PauLie.C08.C08_nonmember_cert", "PauLie.C08.C08_appended_not_member_partial",
    "PauLie.C08.sepCert_sound", "PauLie.C08.zeroCert_sound", "PauLie.C08.qCert_sound", "PauLie.C08.clo_mask", "PauLie.C08.qform_xor",
    "PauLie.C08.primPres_inv8", "PauLie.C08.isIn_eq", "PauLie.C08.selectDependents_eq'",
    "PauLie.C02.C02_classify_partial", "PauLie.C02.C02_erasure"]
IMPORTS = CLOSURE_IMPORTS + ["PauLieVerif.Properties.C08", "PauLieVerif.Properties.C02"]

# guard report of the guarded model per query line (filled by the batch oracle, read by `tag` for the evidence histogram)
GUARD = {}

def guard_line(l):
    t = l.split(" ")
    return " ".join(["mguards", t[0], t[1], t[2] if len(t) > 2 else "-"])

def qsplit(line):
    t = line.split(" ")
    gs = O.pad(impl_graph.strs(t[1]))
    qs = O.pad(impl_graph.strs(t[2])) if len(t) > 2 else None
    return t[0], gs, qs

def batch_oracle(lines, outs):
    res = [None] * len(lines)
    req = []
    for l in lines:
        cmd, gs, qs = qsplit(l)
        req.append(G.line_of("closure", gs))
        if cmd == "iseq":
            req.append(G.line_of("closure", qs))
        # the guarded model: the same queries with a certificate check at every move of every run (`guards=ok` => every
        # "member" verdict is sound, theorem C08_partial); its answer must be the implementation's
        req.append(guard_line(l))
    rep = run_model(req)
    pos = 0
    for k, (l, o) in enumerate(zip(lines, outs)):
        cmd, gs, qs = qsplit(l)
        C = set(lst(fields(rep[pos]).get("elems", "-"))); pos += 1
        if cmd == "iseq":
            C2 = set(lst(fields(rep[pos]).get("elems", "-"))); pos += 1
        gd = rep[pos]; pos += 1
        fg = fields(gd)
        if gd.startswith("!") or "guards" not in fg:
            GUARD[l] = "guard=none"
            if not o.startswith("!"):
                res[k] = f"guarded model failed ({gd[:100]}) where the implementation answers {o[:100]}"
                continue
        else:
            mb, nn = fg["memb"].split("/"), fg["non"].split("/")
            GUARD[l] = ("guard=" + ("ok" if fg["guards"] == "ok" else "FAIL")
                        + (":members-certified=" + ("all" if mb[0] == mb[1] else "some")) * (mb[0] != "0")
                        + (":nonmembers-certified=" + ("all" if nn[0] == nn[1] else ("none" if nn[1] == "0" else "some"))) * (nn[0] != "0"))
            ans = fg["ans"]
            same = (sorted(lst(ans)) == sorted(lst(o))) if cmd in ("seldep", "space") and not o.startswith("!") and ans != "none" else ans == o
            if not same and not o.startswith("!"):
                res[k] = f"guarded model answers {ans[:100]}, the implementation {o[:100]}"
                continue
        if C != O.closure_strs(gs):
            res[k] = "ORACLE-DISAGREEMENT on closure"; continue
        n = len(gs[0]) if gs else 0
        if o.startswith("!"):
            res[k] = f"{cmd} raised {o[1:]} for {','.join(gs)}"
            continue
        if cmd == "space":
            got = set(lst(o))
            if got != C:
                res[k] = (f"get_space of {','.join(gs)} has {len(got)} strings, the commutator closure {len(C)}; "
                          f"missing {sorted(C - got)[:3]} extra {sorted(got - C)[:3]}")
        elif cmd == "seldep":
            got = sorted(lst(o))
            exp = sorted(q for q in dict.fromkeys(qs) if q in C)
            if got != exp:
                res[k] = f"select_dependents({','.join(gs)}; {','.join(qs)}) = {got}, members of X in the closure = {exp}"
        elif cmd == "isin":
            exp = all(q in C for q in qs)
            if (o == "T") != exp:
                res[k] = f"is_in({','.join(gs)}; {','.join(qs)}) = {o}, but X subset of closure is {exp}"
        elif cmd == "iseq":
            exp = C == C2
            if (o == "T") != exp:
                res[k] = f"is_eq({','.join(gs)}; {','.join(qs)}) = {o}, but closures equal is {exp}"
    return res

def gen_queries(rng, gs, C):
    """query sets: members of the closure, non-members, mixtures, the generators themselves"""
    n = len(gs[0])
    Cl = sorted(C)
    def pick_in():
        return rng.choice(Cl) if Cl else G.rs(rng, n)
    def pick_out():
        for _ in range(20):
            s = G.rs(rng, n)
            if s not in C and s != "I" * n:
                return s
        return G.rs(rng, n)
    r = rng.random()
    k = rng.randint(1, 4)
    if r < 0.35:
        return [pick_in() for _ in range(k)]
    if r < 0.5:
        return [pick_out() for _ in range(k)]
    if r < 0.8:
        return [pick_in() if rng.random() < 0.7 else pick_out() for _ in range(k)]
    if r < 0.9:
        return list(gs)
    return G.obfuscate(rng, gs, 6)

def star_leg_product_lines(rng, tier):
    """stars with EXACTLY k single legs (k = 2..8, optionally one long leg), in the generic realisation on k+1 qubits and in the
    compressed one on k qubits (centre X..X, legs Z_i); queries: products of subsets of the legs (all of them, every size),
    the centre times such a product — the strings the dependency test for many single legs decides"""
    th = tier == "thorough"
    out = []
    for k in range(2, 9):
        for rep in range(3 if th else 1):
            reals = []
            m, edges = G.star_edges([1] * k)
            reals.append(G.realise(rng, m, edges))
            reals.append(["X" * k] + ["I" * i + "Z" + "I" * (k - 1 - i) for i in range(k)])
            if k <= 6:
                m, edges = G.star_edges([1] * k + [2])
                reals.append(G.realise(rng, m, edges))
            for gs in reals:
                centre, legs = gs[0], gs[1:k + 1]
                n = len(centre)
                subsets = [list(range(k))] + [sorted(rng.sample(range(k), sz)) for sz in range(2, k) for _ in range(2 if th else 1)]
                for S in subsets:
                    acc = legs[S[0]]
                    for i in S[1:]:
                        acc = G.mulstr(acc, legs[i])
                    for q in (acc, G.mulstr(centre, acc)):
                        if q == "I" * n:
                            continue
                        sh = list(gs); rng.shuffle(sh)
                        out.append(G.line_of("isin", sh, q))
                        if len(S) == k or rng.random() < 0.3:
                            out.append(G.line_of("seldep", sh, ",".join([q, legs[0], G.rs(rng, n)])))
                            out.append(G.line_of("iseq", sh, ",".join(sh + [q])))
    return out

# ---- the receiver collection has a recorder attached (the state `animation_anti_commutation_graph` leaves behind): the
# classification it stores is built by the recording builder.  That builder has recorded defects of its own (property C11:
# its result can drift from the plain one); they are reproduced exactly by the model `Model/MorphRec.lean`.  Where that model
# says recorded = plain classification, the membership answers of such a collection are judged like any other.
def rec_handle(line):
    from paulie.helpers.recording import RecordGraph
    inner = line.split(" ", 1)[1]
    old = impl_classify.coll
    state = {"first": True}
    def coll_with_record(arg):
        c = old(arg)
        if state["first"]:
            state["first"] = False
            c.set_record(RecordGraph())
        return c
    impl_classify.coll = coll_with_record
    try:
        return impl_classify._with_timeout(lambda: impl_classify.handle(inner))
    except impl_classify.ReductionTimeout:
        return "!ReductionTimeout"
    finally:
        impl_classify.coll = old

REC_SKIPPED = {"drift-predicted-by-model": 0, "judged": 0}
def batch_oracle_rec(lines, outs):
    inner = [l.split(" ", 1)[1] for l in lines]
    req = []
    for l in inner:
        g = l.split(" ")[1]
        req += [f"classify {g}", f"classifyrec {g}"]
    rep = run_model(req)
    def core(x):   # alg/dim/deps/verts/morphs part of a reply
        return " ".join(p for p in impl_classify.strip_meta(x).split(" ") if p.split("=")[0] in ("alg", "dim", "deps", "verts", "morphs"))
    same = [not rep[2 * i].startswith("!") and core(rep[2 * i]) == core(rep[2 * i + 1]) for i in range(len(inner))]
    res = [None] * len(lines)
    idx = [i for i in range(len(lines)) if same[i]]
    REC_SKIPPED["drift-predicted-by-model"] += len(lines) - len(idx)
    REC_SKIPPED["judged"] += len(idx)
    if idx:
        sub = batch_oracle([inner[i] for i in idx], [outs[i] for i in idx])
        for i, w in zip(idx, sub):
            res[i] = f"receiver with a recorder attached (no drift predicted by the recorder model): {w}" if w else None
    return res

def build_streams(rng, tier):
    th = tier == "thorough"
    lines, spaces = [], []
    for _ in range(3000 if th else 700):
        gs = O.pad(G.collection(rng, 6 if th else 5, 10))
        C = O.closure_strs(gs)
        qs = gen_queries(rng, gs, C)
        cmd = rng.choice(["isin", "isin", "seldep", "seldep", "iseq"])
        if cmd == "iseq" and rng.random() < 0.5:
            qs = G.obfuscate(rng, [g for g in dict.fromkeys(gs)], 8)   # same algebra, other generators
        lines.append(G.line_of(cmd, gs, ",".join(qs)))
    for _ in range(400 if th else 120):
        gs = G.collection(rng, 4 if th else 3, 6)
        spaces.append(G.line_of("space", gs))
    # all 4^n single queries on small n
    allq = []
    for _ in range(60 if th else 12):
        gs = O.pad(G.collection(rng, 3, 5))
        n = len(gs[0])
        for q in itertools.product("IXYZ", repeat=n):
            q = "".join(q)
            if q != "I" * n:
                allq.append(G.line_of("isin", gs, q))
    h = impl_classify.handle
    def tag(l, o):
        return l.split(" ")[0] + ":" + (o if o in ("T", "F") else ("err" if o.startswith("!") else "set")) + ":" + GUARD.get(l, "guard=?")
    kw = dict(batch_oracle=batch_oracle, tag=tag, shrink=shrink_classify)
    return [
        Stream("corpus", corpus_lines(PID), h, **kw),
        Stream("queries", lines, h, **kw),
        Stream("space-enumeration", spaces, h, **kw),
        Stream("all-single-queries-n<=3", allq, h, **kw),
        Stream("stars-with-exactly-k-single-legs:leg-products", star_leg_product_lines(rng, tier), h, **kw),
        assembled_stream(lines[:600 if th else 150], **kw),
        Stream("receiver-with-a-recorder-attached", ["rec " + l for l in (lines[:500 if th else 120] + allq[:300 if th else 80])], rec_handle,
               batch_oracle=batch_oracle_rec, model=False, tag=lambda l, o: "rec:" + l.split(" ")[1] + ":" + (o if o in ("T", "F") else ("err" if o.startswith("!") else "set"))),
        history_stream("C08", rng, tier),
    ]

RULE = ("generator collections as in C01 on n<=5 (thorough 6); query sets drawn from inside the closure, outside it, mixed, the generators "
        "themselves, and other generating sets of the same algebra; get_space on n<=3 (thorough 4); every single-string query on n<=3. "
        "Reference closure: Lean-verified closureList, cross-checked by the Python oracle")

def main(tier):
    return standard_main(PID, tier, "other", THEOREMS, IMPORTS, build_streams, rule=RULE,
        assumptions=["SOUNDNESS of every 'member' verdict is proved for all inputs conditional on the executable guards of the guarded model (C08_partial; "
                     "guards evaluated per query by `mguards`, see the branch histogram: guard=ok/FAIL); a guard failure is not a violation by itself; "
                     "COMPLETENESS (a member is always reported; appended => not a member) is the research theorem: only certified per query by one of three checked certificates "
                     "(separating string / identity / quadratic form q=0 for independent vertices: C08_nonmember_cert, histogram nonmembers-certified=...), otherwise decided per input against the verified closure (n<=6)"])

def replay(path):
    r = json.load(open(path)); line = r.get("line")
    sp = replay_special(PID, line, batch_oracle)
    if sp is not None:
        return sp
    if line.startswith("rec "):
        out = rec_handle(line); why = batch_oracle_rec([line], [out])[0]
        print("line:", line); print("implementation:", out); print("oracle:", why or "holds")
        return 1 if why else 0
    out = impl_classify.handle(line); why = batch_oracle([line], [out])[0]
    print("line:", line); print("implementation:", out); print("model:", run_model([line])[0]); print("oracle:", why or "holds")
    return 1 if why else 0
