"""C01 (extra) — canonical stars of type B (arXiv:2408.00081: B1, B2, B3), lean/PauLieVerif/Properties/C01TypeB.lean.

PROVED there for all sizes: the table side for B1/B2/B3 (`C01_typeB_table`) and the size of the commutator closure of EVERY linearly
independent realisation: B1 (k >= 1 single legs, t >= 2 legs of length two) 2^(k-1) * 2^t (2^(t+1) + 1) = dim 2^(k-1)*sp(2^t)
(`C01TypeB1_size`, `C01_typeB1_dim`), B3 (long leg 3, t >= 1) 2^(k-1) * (4^(t+2) - 1) = dim 2^(k-1)*su(2^(t+2)) (`C01_typeB3_dim`),
B2 (long leg 4, t >= 1) dim 2^(k-1)*so(2^(t+3)) (`C01_typeB2_dim`); with `C02_closure_partial` the bridges `C01_from_C02_typeB*_dim`.

Same interface as c01_star / c01_names: `extra_streams(rng, tier)`, `EXTRA_THEOREMS`, `EXTRA_IMPORTS`.

Streams: B-type stars realised on few qubits (`gens.compact_bstar`) or one qubit per vertex (`gens.realise`), up to 12 qubits
(thorough 18), shuffled / obfuscated by contraction moves / spectator qubits.  Checked on the IMPLEMENTATION:
  (a) reported algebra = table name, `get_dla_dim()` = dimension of that name (for B1: the proved size of the closure; for B2/B3 the
      size of the closure is additionally enumerated by the independent Python oracle when n <= 6);
  (b) the hypotheses of the bridge theorem on the implementation's own legs, evaluated here independently of the model: one centre,
      k single legs, t legs of length two, the long leg, in non-decreasing order of length; the anticommutation pattern of the star;
      GF(2)-independence; and the guard (`guards=ok complete lost=0`, same legs as the implementation's)."""
from __future__ import annotations
from common import *
from engine import *
import gens as G
import oracle as O
import impl_classify
from props.c01_star import fields, gf2_rank

EXTRA_THEOREMS = ["PauLie.C01TypeB." + t for t in [
    "C01_typeB_table", "C01TypeB1_closure", "C01TypeB1_size", "C01_typeB1_dim", "C01_from_C02_typeB1_dim",
    "typeB1B_sound", "typeB1_canon", "canon1_full", "canonK_clo", "card_canonK", "indep_canonK", "transfer_card",
    "clo_transfer", "pairExt_lower", "twin_clo", "summandsOf_typeB", "summand_outside",
    "C01TypeB3_size", "C01TypeB2_size", "C01_typeB3_dim", "C01_typeB2_dim", "C01_from_C02_typeB3_dim",
    "C01_from_C02_typeB2_dim", "realisesB_sound", "trans0", "sep_GB1", "clo_G3", "clo_G4", "baseOK_B1", "baseOK_B3",
    "baseOK_B2", "BaseOK.iter", "BaseOK.card"]]
EXTRA_IMPORTS = ["PauLieVerif.Properties.C01TypeB"]

def expected(k, t, r):
    """(canonical algebra text, dimension) of the table entry for k single legs, t legs of length two, long leg r in {0,3,4}"""
    mult = 2 ** (k - 1)
    if r == 0:
        m = 2 ** t; name, d = f"sp({m})", m * (2 * m + 1)
    elif r == 3:
        m = 2 ** (t + 2); name, d = f"su({m})", m * m - 1
    else:
        m = 2 ** (t + 3); name, d = f"so({m})", m * (m - 1) // 2
    return "[" + (name if mult == 1 else f"{mult}*{name}") + "]", mult * d

def check_legs(morphs: str, k, t, r):
    """hypotheses of the bridge theorem (`typeB1B` for r = 0) on the implementation's legs; None if they hold"""
    if ";" in morphs or morphs == "-":
        return f"expected one canonical graph (connected input), got {morphs}"
    legs = [leg.split(".") for leg in morphs.split("/")]
    if len(legs[0]) != 1:
        return f"centre leg is not a single vertex: {morphs}"
    want = [1] * k + [2] * t + ([r] if r else [])
    if [len(l) for l in legs[1:]] != want:
        return f"legs {morphs}: expected leg lengths {want} in this order"
    verts = [v for leg in legs for v in leg]
    if len(set(verts)) != len(verts):
        return f"vertices not distinct: {morphs}"
    c = legs[0][0]
    edges = set()
    for leg in legs[1:]:
        edges.add(frozenset((c, leg[0])))
        edges |= {frozenset((leg[i], leg[i + 1])) for i in range(len(leg) - 1)}
    e = {v: O.enc(v) for v in verts}
    for i in range(len(verts)):
        for j in range(i + 1, len(verts)):
            a, b = verts[i], verts[j]
            if bool(O.anti(e[a], e[b])) != (frozenset((a, b)) in edges):
                return f"anticommutation of {a},{b} is not that of the star {morphs}"
    if gf2_rank([e[v] for v in verts]) != len(verts):
        return f"the canonical vertices {morphs} are linearly dependent over GF(2)"
    return None

CENSUS: dict[str, tuple[int, int, int]] = {}

def census_from_legs(morphs: str):
    legs = [leg.split(".") for leg in morphs.split(";")[0].split("/")] if morphs not in ("-", "") else [[]]
    k = sum(1 for leg in legs[1:] if len(leg) == 1)
    t = sum(1 for leg in legs[1:] if len(leg) == 2)
    longs = [len(leg) for leg in legs[1:] if len(leg) > 2]
    return k, t, (longs[0] if longs else 0)

def census_of(line, out):
    return CENSUS[line] if line in CENSUS else census_from_legs(fields(out).get("morphs", "-"))

def batch_oracle(lines, outs):
    res = [None] * len(lines)
    req, idx = [], []
    for i, (l, o) in enumerate(zip(lines, outs)):
        k, t, r = census_of(l, o)
        f = fields(o)
        if o.startswith("!") or "alg" not in f:
            res[i] = f"classification failed: {o[:120]}"
            continue
        if r not in (0, 3, 4) or k < 1 or (r == 0 and t < 2) or (r and t < 1):
            res[i] = f"not a B-type census: {k} single legs, {t} legs of length two, long leg {r}"
            continue
        alg, size = expected(k, t, r)
        gs = l.split(" ")[1]
        what = f"star with {k} single legs, {t} legs of length two" + (f" and a long leg of {r}" if r else "")
        if f["alg"] != alg:
            res[i] = f"{what}: reported {f['alg']}, the table (theorem C01_typeB_table) says {alg}; input {gs}"
            continue
        if f["dim"] != str(size):
            res[i] = (f"{what}: get_dla_dim() = {f['dim']} but " + "the commutator closure has exactly"
                      + f" {size}" + f" (theorem C01_typeB{ {0: 1, 3: 3, 4: 2}[r] }_dim)" + f"; input {gs}")
            continue
        strs = gs.split(",")
        if len(strs[0]) <= 6:
            true = len(O.closure_strs(strs))
            if true != size:
                res[i] = f"{what}: the commutator closure has {true} strings (enumerated), reported dimension {size}; input {gs}"
                continue
        if f.get("deps", "-") != "-":
            res[i] = f"independent generators but dependents reported: {f['deps']}; input {gs}"
            continue
        why = check_legs(f.get("morphs", "-"), k, t, r)
        if why:
            res[i] = "hypotheses of the bridge theorem C01_from_C02_typeB1_dim fail on the implementation's legs: " + why
            continue
        idx.append(i)
        req.append("guards " + gs)
    rep = run_model(req) if req else []
    for i, gd in zip(idx, rep):
        fg = fields(gd)
        f = fields(outs[i])
        if gd.startswith("!") or "guards" not in fg:
            res[i] = f"guarded model failed: {gd[:120]}"
        elif fg["guards"] != "ok" or fg.get("complete") != "T" or fg.get("lost") != "0":
            res[i] = f"guard of C02_closure_partial does not hold ({gd[:160]})"
        elif fg.get("morphs") != f["morphs"]:
            res[i] = f"the guarded run has other legs ({fg.get('morphs')}) than the implementation ({f['morphs']})"
    return res

def realise_bstar(rng, k, t, r, maxn):
    legs = [1] * k + [2] * t + ([r] if r else [])
    m, edges = G.star_edges(legs)
    if m <= maxn and rng.random() < 0.4:
        gs = G.realise(rng, m, edges)
    else:
        gs = G.compact_bstar(rng, k, t, r)
    n = len(gs[0])
    assert n <= maxn
    extra = rng.randint(0, maxn - n) if rng.random() < 0.3 else 0
    if extra:
        pos = sorted(rng.sample(range(n + extra), extra))
        out = []
        for s in gs:
            u = list(s)
            for p in pos:
                u.insert(p, "I")
            out.append("".join(u))
        gs = out
    mode = rng.random()
    if mode < 0.35:
        rng.shuffle(gs)
    elif mode < 0.8:
        gs = G.obfuscate(rng, gs, rng.randint(1, 4 * len(gs)))
        rng.shuffle(gs)
    return gs

def line(gs, k, t, r):
    l = G.line_of("classify", gs)
    CENSUS[l] = (k, t, r)
    return l

def shrink(l):
    gs = l.split(" ")[1].split(",")
    n = len(gs[0])
    for q in range(n):
        if n > 1 and all(g[q] == "I" for g in gs):
            c = "classify " + ",".join(g[:q] + g[q + 1:] for g in gs)
            CENSUS[c] = CENSUS[l]
            yield c

def extra_streams(rng, tier):
    th = tier == "thorough"
    maxn = 18 if th else 12
    b1, b23 = [], []
    for k in range(1, 6 if th else 5):
        for t in range(2, 9 if th else 7):
            if t + k > maxn:
                continue
            for _ in range(20 if th else 3):
                b1.append(line(realise_bstar(rng, k, t, 0, maxn), k, t, 0))
    for r in (3, 4):
        for k in range(1, 5 if th else 4):
            for t in range(1, 7 if th else 5):
                if t + k + 2 > maxn:
                    continue
                for _ in range(15 if th else 2):
                    b23.append(line(realise_bstar(rng, k, t, r, maxn), k, t, r))
    kw = dict(batch_oracle=batch_oracle, shrink=shrink, canon=impl_classify.strip_meta,
              tag=lambda l, o: "closed-form:" + fields(o).get("alg", o)[:40],
              nontrivial=lambda l, o: len(l.split(" ")[1].split(",")) >= 6)
    h = impl_classify.handle
    return [Stream("closed-form:type-B1", b1, h, **kw), Stream("closed-form:type-B2-B3", b23, h, **kw)]

RULE_EXTRA = ("canonical stars of type B1/B2/B3 realised on few qubits or one qubit per vertex, <= 12 qubits (thorough 18), shuffled / "
              "obfuscated / spectator qubits: reported name = table (C01_typeB_table), get_dla_dim = proved size of the closure "
              "(C01_typeB1_dim, C01_typeB3_dim, C01_typeB2_dim), executable hypotheses of the bridge theorem on the implementation's legs + guard")
