"""Tables of the two-local reference data (property C19), appended to Generated/Tables.lean by gen_tables.py:
`G_LIE`, the raw text and the parsed form of `two_local_algebras(n)` for 3 <= n <= 40 (every residue of the
mod-8 / mod-6 / parity formulas several times), and `Classification.get_isomorphisms()`."""
from __future__ import annotations
import re

N_LO, N_HI = 3, 40

def lean_str(s: str) -> str:
    assert all(32 <= ord(c) < 127 and c not in '"\\' for c in s), s
    return '"' + s + '"'

def parse_algebra(text: str):
    """'su(4) + su(4) + u(1)' -> [(kind, parameter, multiplicity)] in source order, not merged"""
    out = []
    for term in text.replace(" ", "").split("+"):
        k = 1
        if "*" in term:
            ks, term = term.split("*")
            if not re.fullmatch(r"[0-9]+", ks):
                raise ValueError(f"multiplicity {ks!r} in {text!r}")
            k = int(ks)
        m = re.fullmatch(r"(u|su|sp|so)\(([0-9]+)\)", term)
        if not m:
            raise ValueError(f"summand {term!r} in {text!r} is not a name of the family u/so/sp/su")
        out.append((m.group(1), int(m.group(2)), k))
    return out

def tables():
    from paulie.common.two_local_generators import G_LIE, two_local_algebras
    from paulie.classifier.classification import Classification
    out = ["", "/-! two-local reference data (gen_tables_twolocal.py) -/"]
    rows = [f"({lean_str(k)}, [{', '.join(lean_str(g) for g in v)}])" for k, v in G_LIE.items()]
    out.append(f"def gLie : List (String × List String) := [{', '.join(rows)}]")
    raw, parsed = [], []
    for n in range(N_LO, N_HI + 1):
        for k, v in two_local_algebras(n).items():
            text = "None" if v is None else v
            raw.append(f"({lean_str(k)}, {n}, {lean_str(text)})")
            ps = [] if v is None else parse_algebra(v)
            parsed.append(f"({lean_str(k)}, {n}, [{', '.join(f'({lean_str(t)}, {m}, {c})' for t, m, c in ps)}])")
    out.append(f"def tlLo : Nat := {N_LO}")
    out.append(f"def tlHi : Nat := {N_HI}")
    out.append("def tlText : List (String × Nat × String) := [\n  " + ",\n  ".join(raw) + "]")
    out.append("def tlParsed : List (String × Nat × List (String × Nat × Nat)) := [\n  " + ",\n  ".join(parsed) + "]")
    iso = Classification().get_isomorphisms()
    out.append(f"def isomorphisms : List (String × String) := [{', '.join(f'({lean_str(a)}, {lean_str(b)})' for a, b in iso.items())}]")
    return out
