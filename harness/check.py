"""Entry point: ./check Cxx [--tier quick|thorough] [--replay file]"""
from __future__ import annotations
import importlib, os, sys
sys.path.insert(0, os.path.dirname(os.path.abspath(__file__)))

def main():
    args = sys.argv[1:]
    if not args:
        print("usage: check Cxx [--tier quick|thorough] [--replay file]"); return 2
    pid = args[0]
    tier = os.environ.get("VERIF_TIER", "quick")
    replay = None
    i = 1
    while i < len(args):
        if args[i] == "--tier":
            tier = args[i + 1]; i += 2
        elif args[i] == "--replay":
            replay = args[i + 1]; i += 2
        else:
            i += 1
    if tier not in ("quick", "thorough"):
        tier = "quick"
    mod = importlib.import_module(f"props.{pid.lower()}")
    if replay:
        import json
        try:
            stream = str(json.load(open(replay)).get("stream", ""))
        except Exception:
            stream = ""
        if "@after-in-place-edits-of-handed-out-objects" in stream:
            import pollute
            for j in range(0, 60, 20):
                pollute.pollute_all(f"{stream.split(' @')[0]}:{j}")
            print("replay: objects handed out by earlier library calls were edited in place first (stream", stream + ")")
        return mod.replay(replay)
    return mod.main(tier)

if __name__ == "__main__":
    rc = main()
    sys.stdout.flush()
    os._exit(rc if isinstance(rc, int) else 2)
