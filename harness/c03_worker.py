"""Worker of the C03 PYTHONHASHSEED sweep: started as a fresh interpreter with an
explicit PYTHONHASHSEED, reads `classify <G>` lines on stdin and prints one JSON
object per line: the canonical classify text (as impl_classify.handle), the raw
`get_algebra()` string (summand order as printed) and the raw order of the morphs."""
from __future__ import annotations
import json, os, sys
sys.path.insert(0, os.path.dirname(os.path.abspath(__file__)))
from common import *          # puts $PAULIE_REPO/src on sys.path
import impl_classify
from impl_graph import coll

def main():
    assert os.environ.get("PYTHONHASHSEED") is not None
    for line in sys.stdin:
        line = line.rstrip("\n")
        if not line:
            continue
        t = line.split(" ")
        rec = {"canon": impl_classify.handle(line)}
        try:
            c = coll(t[1])
            rec["raw"] = str(c.get_algebra())
            rec["morph_order"] = [impl_classify.legs_text(m.get_legs()) for m in c.get_class().get_morphs()]
            rec["subgraph_order"] = [[str(p) for p in sg] for sg in coll(t[1]).get_subgraphs()]
        except Exception as e:
            rec["raw"] = exc_name(e)
        print(json.dumps(rec))
    sys.stdout.flush()

if __name__ == "__main__":
    main()
