"""Implementation side of the optimiser commands (mirror of Model/CmdOptimise.lean).  `randint` of
paulie.common.pauli_string_collection is replaced by a scripted stream (no change to /repo)."""
from __future__ import annotations
from common import *
from impl_graph import strs, coll
import paulie.common.pauli_string_collection as psc
from paulie.application.get_optimal_su2_n import get_optimal_su_2_n_generators, get_optimal_edges_su_2_n

class Budget(Exception):
    pass

class Script:
    def __init__(self, values):
        self.values, self.pos, self.calls = list(values), 0, []
    def __call__(self, a, b):
        if self.pos >= len(self.values):
            raise Budget()
        v = self.values[self.pos]; self.pos += 1
        self.calls.append((a, b))
        return a + v % (b - a + 1)

def optimise(gs, rnd):
    """returns (text, number of random draws)"""
    old = psc.randint
    sc = Script(rnd)
    psc.randint = sc
    try:
        r = get_optimal_su_2_n_generators(coll(gs))
        return ("None" if r is None else plist(r.get())), sc.pos
    except Budget:
        return "!Budget", sc.pos
    except Exception as e:
        return exc_name(e), sc.pos
    finally:
        psc.randint = old

def handle(line: str) -> str:
    t = line.split(" ")
    try:
        if t[0] == "edges":
            return str(get_optimal_edges_su_2_n(int(t[1])))
        if t[0] == "optimise":
            rnd = [] if t[2] == "-" else [int(x) for x in t[2].split(",")]
            return optimise(t[1], rnd)[0]
    except Exception as e:
        return exc_name(e)
    return "bad-op"
