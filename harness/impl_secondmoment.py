"""Implementation side of the quadratic-symmetry / second-moment commands
(mirror of Model/CmdSecondMoment.lean).

  qbasis G   -> get_full_quadratic_basis() (unnormalised): every symmetry as its term list sorted by
                string, coefficients exact (`float.as_integer_ratio`; they are +-1, +-i), the texts
                sorted (code-point order) and joined by `|`; `-` for the empty basis
  twirl G M  -> second_moment(M, G) as a term list (`-` = empty list), coefficients rendered exactly
                (they are doubles: never compared textually with the model, see props/c16.py)

G: comma separated strings (`-` = empty collection; the collection constructor pads), M: `a_b_d*STR,...`.
Exceptions are mapped by type (`!ValueError`); anything outside the grammar of results as `?...`."""
from __future__ import annotations
from common import *
import impl_linear as IL
import impl_graph as IG
from paulie.common.pauli_string_linear import PauliStringLinear
from paulie.application.second_moment import second_moment

def basis(g: str, normalized: bool = False):
    """the library's list of PauliStringLinear for the collection text `g`"""
    return IG.coll(g).get_full_quadratic_basis(normalized=normalized)

def padded(g: str):
    """the member strings of the collection after the constructor's padding"""
    return [str(p) for p in IG.coll(g)]

def twirl_obj(m_terms, g: str):
    """second_moment of the combination given as a list [(python scalar, str)] (a fresh collection and a fresh
    operand on every call: nothing is shared between calls)"""
    return second_moment(PauliStringLinear(list(m_terms)), IG.coll(g))

def terms_of(x):
    """[(complex, str)] of a library combination"""
    return [(complex(c), str(p)) for c, p in x.combinations]

def show_sym(q) -> str:
    if not isinstance(q, PauliStringLinear):
        return "?" + type(q).__name__
    ts = sorted(((str(p), c) for c, p in q.combinations), key=lambda t: t[0])
    if not ts:
        return "?empty-symmetry"
    return ",".join(f"{IL.coef_out(c)}*{p or '-'}" for p, c in ts)

def show_basis(b) -> str:
    if not isinstance(b, list):
        return "?" + type(b).__name__
    if not b:
        return "-"
    return "|".join(sorted(show_sym(q) for q in b))

def handle(line: str) -> str:
    t = line.split(" ")
    try:
        if t[0] == "qbasis" and len(t) == 2:
            return show_basis(basis(t[1]))
        if t[0] == "twirl" and len(t) == 3:
            return IL.show_lin(second_moment(IL.mk(t[2]), IG.coll(t[1])))
    except RecursionError:
        raise
    except Exception as e:  # noqa
        return exc_name(e)
    return "bad-op"
