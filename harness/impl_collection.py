"""Implementation side of the `hist` command (mirror of Model/CmdCollection.lean) and the
property evaluation of C10 on the implementation (live collection vs. freshly built one,
no string lost, copies independent)."""
from __future__ import annotations
from common import *
from impl_graph import strs, comps, join
from impl_classify import sorted_ps, legs_text, algebra_text
from paulie.common.pauli_string_bitarray import PauliString
from paulie.common.pauli_string_collection import PauliStringCollection

def P(s):
    return PauliString(pauli_str=s)

def mk(strings):
    return PauliStringCollection([P(s) for s in strings])

def state(c):
    return plist(c.get())

def names(c):
    return [str(g) for g in c.get()]

BATTERY = ["q.str", "q.len", "q.getlen", "q.pair", "q.sub", "q.alg", "q.dim", "q.deps", "q.indeps", "q.verts", "q.morphs"]

def query(c, t):
    k = t[0]
    if k == "q.str": return str(c)
    if k == "q.len": return str(len(c))
    if k == "q.getlen": return str(c.get_len())
    if k == "q.pair": return str(c.get_anticommutation_pair())
    if k == "q.sub": return comps(c.get_subgraphs())
    if k == "q.graph":
        v, e, lab = c.get_graph()
        assert set(lab.keys()) == set(e)
        return f"V={join([x or '-' for x in v])}#E={join([f'{a or chr(45)}-{b or chr(45)}:{lab[(a, b)] or chr(45)}' for a, b in e])}"
    if k == "q.compsA": return comps(c.get_graph_components("anticommutator"))
    if k == "q.commutants": return plist(c.get_commutants())
    if k == "q.cgraph":
        v, e = c.get_commutator_graph()
        return f"V={join([x or '-' for x in v])}#E={join([f'{a or chr(45)}-{b or chr(45)}' for a, b in e])}"
    if k == "q.pairs":
        ap = guard(lambda: str(c.get_anticommutation_pair()))
        def fr():
            f = c.get_anticommutation_fraction()
            n = len(c) * (len(c) - 1) // 2
            kk = round(f * n)
            assert abs(f - kk / n) < 1e-12
            return f"{kk}/{n}"
        return f"anti={ap}#pair={c.get_pair()}#frac={guard(fr)}"
    if k == "q.find": return str(c.find(P(t[1])))
    if k == "q.index": return str(c.index(P(t[1])))
    if k == "q.alg": return algebra_text(str(c.get_algebra()))
    if k == "q.dim": return str(c.get_dla_dim())
    if k == "q.deps": return sorted_ps(c.get_dependents())
    if k == "q.indeps": return plist(c.get_independents())
    if k == "q.verts": return sorted_ps(c.get_canonic_vertices())
    if k == "q.morphs":
        m = sorted(legs_text(m.get_legs()) for m in c.get_class().get_morphs())
        return ";".join(m) if m else "-"
    if k == "q.gen":
        import itertools as _it
        for _g in _it.islice(c.gen_generators(), 4):
            pass
        return "advanced"
    if k == "q.isin": return "T" if c.is_in(mk(strs(t[1]))) else "F"
    if k == "q.seldep":
        r = c.select_dependents(mk(strs(t[1])))
        return "None" if r is False else sorted_ps(r)
    if k == "q.space":
        r = c.get_space()
        return "None" if r is False else sorted_ps(r)
    # ---- further read-only entry points, asked on the implementation only (not part of the model's protocol)
    if k == "x.iter": return join([str(p) for p in c]) + "|" + join([str(p) for p in c])
    if k == "x.repr": return repr(c)
    if k == "x.size": return str(c.get_size())
    if k == "x.add":
        before = names(c)
        r = str(c + P("XZ"))
        return r + ("" if names(c) == before else f" AND THE OPERAND CHANGED to {names(c)}")
    if k == "x.mul":
        before = names(c)
        o = mk(["XI", "ZZ"])
        r = str(c * o) + "/" + str(o * c)
        return r + ("" if names(c) == before and names(o) == ["XI", "ZZ"] else f" AND AN OPERAND CHANGED to {names(c)} / {names(o)}")
    if k == "x.inst":
        x = c.create_instance(n=3)
        y = c.create_instance(pauli_str="XYZ")
        x[0] = "Z"; y[1] = "I"
        return f"{type(x).__name__}:{x}:{y}:{','.join(names(c))}"
    if k == "x.gen":
        # gen_generators() is advanced a few steps for its side effects only: WHICH alternative generator sets come first follows
        # the enumeration order of the canonical graphs (a set), and "same algebra" is judged by the library by name; what C10
        # demands is that this read-only call leaves every later answer alone (the battery is asked again afterwards)
        import itertools as _it
        k_ = sum(1 for _g in _it.islice(c.gen_generators(), 4))
        return "advanced"
    if k == "x.algtext": return str(c.get_algebra())
    if k == "x.list": return ";".join(f"{a}-{b}:{i}:{j}" for a, b, i, j in sorted((str(a), str(b), i, j) for a, b, i, j in c.list_connections()))
    raise KeyError(k)

XBATTERY = ["x.iter", "x.repr", "x.size", "x.add", "x.mul", "x.inst", "x.list", "x.gen", "x.algtext"]

def edit(c, t):
    """returns the collection to continue with (a new object for `copy`)"""
    k = t[0]
    if k == "app": c.append(P(t[1]))
    elif k == "ins": c.insert(int(t[1]), P(t[2]))
    elif k == "rem": c.remove(P(t[1]))
    elif k == "del": del c[int(t[1])]
    elif k == "rep": c.replace(P(t[1]), P(t[2]))
    elif k == "con": c.contract(P(t[1]), P(t[2]))
    elif k == "exp": c.expand(int(t[1]))
    elif k == "sort": c.sort()
    elif k == "copy": return c.copy()
    elif k == "ccopy":
        import copy as _copy
        return _copy.copy(c)
    else: raise KeyError(k)
    return c

def ops_of(line):
    t = line.split(" ")
    return strs(t[1]), ([] if t[2] == "-" else [o.split(":") for o in t[2].split(";")])

def handle(line: str) -> str:
    if not line.startswith("hist "):
        return "bad-op"
    init, ops = ops_of(line)
    try:
        c = mk(init)
    except Exception as e:
        return exc_name(e)
    out = []
    others = []
    for t in ops:
        if t[0].startswith("q."):
            out.append(guard(lambda: query(c, t)))
        elif t[0] == "swap":
            if others:
                others[0], c = c, others[0]
            out.append("ok=" + state(c))
        else:
            if t[0] in ("copy", "ccopy"):
                others.insert(0, c)
            try:
                c = edit(c, t)
                out.append("ok=" + state(c))
            except Exception as e:
                out.append(exc_name(e) + "=" + state(c))
    return "\t".join(out)

# ----------------------------------------------------------------- property evaluation

def padto(s, n):
    return s + "I" * (n - len(s)) if len(s) < n else s

def lost_check(before, after, t):
    """'no edit loses strings other than the one it names' (multisets, old strings padded to the new length)"""
    n = max((len(s) for s in after), default=0)
    need = {}
    for s in before:
        s = padto(s, n)
        need[s] = need.get(s, 0) + 1
    have = {}
    for s in after:
        have[s] = have.get(s, 0) + 1
    missing = []
    for s, k in need.items():
        if have.get(s, 0) < k:
            missing += [s] * (k - have.get(s, 0))
    allowed = 0
    named = None
    if t[0] in ("rem", "rep", "con"):
        named, allowed = padto(t[1], n), 1
    if t[0] == "del":
        allowed = 1
        try:
            named = padto(before[int(t[1])], n)
        except IndexError:
            allowed = 0
    if len(missing) > allowed or (missing and named is not None and missing[0] != named):
        return f"edit {':'.join(t)} on {before} lost {missing} (result {after})"
    return None

def mulstr(a, b):
    T = {"I": 0, "X": 1, "Z": 2, "Y": 3}
    R = "IXZY"
    return "".join(R[T[x] ^ T[y]] for x, y in zip(a, b))

def effect_check(before, after, t):
    """the other half of 'holding the same strings': an edit adds no string other than the one it names, and
    remove / delete-by-index really take out the one they name (multisets, old strings padded to the new length)"""
    n = max((len(s) for s in after), default=0)
    old = {}
    for s in before:
        s = padto(s, n)
        old[s] = old.get(s, 0) + 1
    new = {}
    for s in after:
        new[s] = new.get(s, 0) + 1
    gained = []
    for s, k in new.items():
        if k > old.get(s, 0):
            gained += [s] * (k - old.get(s, 0))
    allowed = None
    if t[0] == "app": allowed = padto(t[1], n)
    elif t[0] in ("ins", "rep"): allowed = padto(t[2], n)
    elif t[0] == "con" and len(t[1]) == len(t[2]): allowed = padto(mulstr(t[1], t[2]), n)
    if len(gained) > (1 if allowed is not None else 0) or (gained and gained[0] != allowed):
        return f"edit {':'.join(t)} on {before} added {gained} (result {after})"
    if t[0] == "del":
        try:
            i = int(t[1])
            exp = list(before); del exp[i]
        except IndexError:
            exp = None
        if exp is not None and after != exp:
            return f"edit del:{t[1]} on {before} gives {after}, the collection without its member number {t[1]} is {exp}"
    if t[0] == "rem" and t[1] in before:
        exp = list(before); exp.remove(t[1])
        if after != exp:
            return f"edit rem:{t[1]} on {before} gives {after}, the collection without that member is {exp}"
    return None

def evaluate(line: str):
    """replays the history; returns None or a description of the first way the implementation violates C10"""
    init, ops = ops_of(line)
    try:
        c = mk(init)
    except Exception:
        return None
    originals = []          # (object, snapshot of names) of collections that were copied
    def fresh_of(x):
        return mk(names(x))
    def cmp_query(x, t, when):
        live = guard(lambda: query(x, t))
        fr = guard(lambda: query(fresh_of(x), t))
        if live != fr:
            return (f"{when}: query {':'.join(t)} on the edited collection {names(x)} answers {live[:200]} "
                    f"but a freshly built collection with the same strings answers {fr[:200]}")
        return None
    for k, t in enumerate(ops):
        if t[0].startswith("q."):
            why = cmp_query(c, t, f"after {k} operations")
            if why:
                return why
        else:
            before = names(c)
            if t[0] == "swap":
                if originals:
                    o, snap = originals[-1]
                    originals[-1] = (c, before)
                    c = o
                continue
            if t[0] in ("copy", "ccopy"):
                originals.append((c, before))
            try:
                c = edit(c, t)
            except Exception:
                pass
            after = names(c)
            why = lost_check(before, after, t) or (effect_check(before, after, t) if t[0] not in ("copy", "ccopy") else None)
            if why:
                return why
            if len(set(len(s) for s in after)) > 1:
                return f"edit {':'.join(t)} left strings of different lengths {after}"
            # cheap sweep after EVERY edit: each member (and one absent string) is looked up on the edited object and on a fresh one
            fr = fresh_of(c)
            probes = list(dict.fromkeys(after))[:10] + (["Y" * len(after[0])] if after else [])
            for m in probes:
                for q in ("q.find", "q.index"):
                    a, b = guard(lambda: query(c, [q, m])), guard(lambda: query(fr, [q, m]))
                    if a != b:
                        return (f"after {';'.join(':'.join(x) for x in ops[:k + 1])}: {q[2:]}({m}) on the edited collection {after} answers {a}, "
                                f"a freshly built collection with the same strings answers {b}")
        for o, snap in originals:
            if names(o) != snap:
                return f"after {':'.join(t)} on a copy, the original changed from {snap} to {names(o)}"
    for q in BATTERY + XBATTERY + BATTERY:
        why = cmp_query(c, [q], "at the end of the history")
        if why:
            return why
    for o, snap in originals:
        for q in BATTERY:
            why = cmp_query(o, [q], "original of a copy, at the end of the history")
            if why:
                return why
    return None
