"""Implementation side of the graph / factory commands (mirror of Model/CmdGraph.lean)."""
from __future__ import annotations
from common import *
from paulie.common.pauli_string_bitarray import PauliString
from paulie.common.pauli_string_collection import PauliStringCollection
from paulie.common.pauli_string_factory import get_pauli_string

def strs(arg):
    return [] if arg == "-" else ["" if s == "-" else s for s in arg.split(",")]

def coll(arg):
    return PauliStringCollection([PauliString(pauli_str=s) for s in strs(arg)])

def comps(cs):
    """canonical form of a list of component collections"""
    l = [sorted(pstr(p) for p in c) for c in cs]
    l.sort(key=lambda c: (-len(c), c[0] if c else ""))
    return "|".join(",".join(c) for c in l) if l else "-"

def join(l):
    return ",".join(l) if l else "-"

def handle(line: str) -> str:
    t = line.split(" ")
    try:
        if t[0] == "klocal":
            return plist(get_pauli_string(strs(t[2]), n=int(t[1])))
        if t[0] == "coll":
            return plist(get_pauli_string(strs(t[1])))
        if t[0] == "graph":
            c = coll(t[1])
            v, e, lab = c.get_graph(coll(t[2]))
            assert set(lab.keys()) == set(e)
            return f"V={join([x or '-' for x in v])} E={join([f'{a or chr(45)}-{b or chr(45)}:{lab[(a, b)] or chr(45)}' for a, b in e])}"
        if t[0] == "subgraphs":
            return comps(coll(t[1]).get_subgraphs())
        if t[0] == "components":
            return comps(coll(t[2]).get_graph_components(t[1]))
        if t[0] == "commutants":
            return plist(coll(t[1]).get_commutants())
        if t[0] == "cgraph":
            v, e = coll(t[1]).get_commutator_graph()
            return f"V={join([x or '-' for x in v])} E={join([f'{a or chr(45)}-{b or chr(45)}' for a, b in e])}"
        if t[0] == "pairs":
            c = coll(t[1])
            ap = guard(lambda: str(c.get_anticommutation_pair()))
            gp = guard(lambda: str(c.get_pair()))
            def fr():
                from fractions import Fraction
                f = c.get_anticommutation_fraction()
                n = len(c) * (len(c) - 1) // 2
                k = round(f * n)
                assert abs(f - k / n) < 1e-12
                return f"{k}/{n}"
            return f"anti={ap} pair={gp} frac={guard(fr)}"
    except Exception as e:
        return exc_name(e)
    return "bad-op"
