"""Shared machinery of the classifier properties C01, C02, C08, C09 (and reused by C03, C11, C19)."""
from __future__ import annotations
import itertools, json
from common import *
from engine import *
import gens as G
import oracle as O
import impl_classify, impl_graph

CLOSURE_THEOREMS = ["PauLie.Closure.clo_iff_nest", "PauLie.Closure.closureList_sound_complete",
                    "PauLie.Closure.closureList_exhausted", "PauLie.Closure.closureList_nodup", "PauLie.Closure.clo_card"]
CLOSURE_IMPORTS = ["PauLieVerif.Proofs.Closure"]

def fields(out: str) -> dict:
    d = {}
    for tok in out.split(" "):
        if "=" in tok:
            k, v = tok.split("=", 1)
            d[k] = v
    return d

def lst(v: str):
    return [] if v in ("-", "") else [("" if x == "-" else x) for x in v.split(",")]

def inputs_of(line):
    return O.pad(impl_graph.strs(line.split(" ")[1]))

def classify_lines(rng, tier, maxn_q=5, maxn_t=6, count_q=1200, count_t=8000, extra_kinds=()):
    th = tier == "thorough"
    maxn = maxn_t if th else maxn_q
    lines = []
    for _ in range(count_t if th else count_q):
        gs = G.collection(rng, maxn, 14 if th else 10)
        lines.append(G.line_of("classify", gs))
    return lines

def exhaustive_small_lines():
    """every collection of <= 3 strings on 2 qubits (order-free), <= 4 on 1 qubit"""
    out = []
    al2 = ["".join(t) for t in itertools.product("IXYZ", repeat=2)]
    for k in range(1, 4):
        for combo in itertools.combinations(al2, k):
            out.append(G.line_of("classify", list(combo)))
    al1 = list("IXYZ")
    for k in range(1, 5):
        for combo in itertools.combinations(al1, k):
            out.append(G.line_of("classify", list(combo)))
    return out

def lean_inv(collections):
    """verified checker: invariants of the commutator closure of each collection (list of lists of strings)"""
    lines = [G.line_of("inv", gs) for gs in collections]
    return run_model(lines)

def lean_invname(algs):
    return run_model([f"invname {a}" for a in algs])

def py_inv(gs):
    gs = O.pad(gs)
    C = O.closure([O.enc(s) for s in gs])
    return O.show_inv(len(C), O.inv_of_closure(C))

def py_invname(text):
    """invariants of a canonical algebra text `[2*so(3),u(1)]` by the Python oracle (same format as the Lean `invname`)"""
    try:
        summ = O.parse_algebra(text)
        size = sum(k * O.dim_name(ty, m) for ty, m, k in summ)
        return O.show_inv(size, O.inv_of_name(summ))
    except Exception:
        return "bad-op"

def tag_classify(l, o):
    f = fields(o)
    return "alg:" + f.get("alg", o)[:40]

def nontrivial_classify(l, o):
    f = fields(o)
    return f.get("deps", "-") != "-" or ";" in f.get("morphs", "") or "/" in f.get("morphs", "")

def shrink_classify(line):
    """drop a member of either collection; drop one qubit from every string of the line"""
    t = line.split(" ")
    fieldsL = [(f.split(",") if f != "-" else []) for f in t[1:]]
    for fi, gs in enumerate(fieldsL):
        for i in range(len(gs)):
            c = gs[:i] + gs[i + 1:]
            if c:
                nf = list(fieldsL); nf[fi] = c
                yield " ".join([t[0]] + [",".join(x) if x else "-" for x in nf])
    allstr = [g for gs in fieldsL for g in gs]
    if allstr and len(allstr[0]) > 1 and all(len(g) == len(allstr[0]) for g in allstr):
        for q in range(len(allstr[0])):
            nf = [[g[:q] + g[q + 1:] for g in gs] for gs in fieldsL]
            yield " ".join([t[0]] + [",".join(x) if x else "-" for x in nf])

# ---------------------------------------------------------------- the classifier properties on EDITED collections
# (a collection that was queried, edited through the public API and queried again must satisfy C01/C02/C08/C09 as well:
#  a stale cached classification / component list violates them although every freshly built collection is fine)
import impl_collection as IC

HQ = {"C01": ["q.alg"], "C09": ["q.dim", "q.alg", "q.dim"], "C02": ["q.verts", "q.deps", "q.morphs"],
      "C08": ["q.isin", "q.seldep", "q.space"]}

def history_lines(pid, rng, tier):
    import props.c10 as C10
    th = tier == "thorough"
    out = []
    for _ in range(900 if th else 220):
        maxn = rng.choice([2, 3, 3, 4])
        l = C10.history(rng, maxn, 6, rng.randint(3, 12), space_ok=False)
        init, ops = IC.ops_of(l)
        cur = O.pad(list(init))
        new = []
        stack = []
        for t in ops:
            if t[0].startswith("q."):
                # membership queries (mostly with strings OUTSIDE the algebra) and other read-only calls on the same object first:
                # they run the reduction pipeline against the stored canonical graphs and must leave them alone
                if cur and len(set(map(len, cur))) == 1 and rng.random() < 0.5:
                    L = len(cur[0])
                    for _ in range(rng.randint(1, 2)):
                        xs = [G.rs(rng, L) for _ in range(rng.randint(1, 2))]
                        new.append(rng.choice(["q.isin:", "q.isin:", "q.seldep:"]) + ",".join(xs))
                    if rng.random() < 0.4:
                        new.append(rng.choice(["q.alg", "q.verts", "q.dim", "q.indeps", "q.gen", "q.gen"]))
                q = rng.choice(HQ[pid])
                if q in ("q.isin", "q.seldep"):
                    L = len(cur[0]) if cur else maxn
                    C = sorted(O.closure_strs(cur)) if cur and len(set(map(len, cur))) == 1 else []
                    xs = [rng.choice(C) if (C and rng.random() < 0.6) else G.rs(rng, L) for _ in range(rng.randint(1, 3))]
                    new.append(q + ":" + ",".join(xs))
                elif q == "q.space" and cur and len(cur[0]) > 3:
                    new.append("q.verts" if pid == "C02" else "q.isin:" + G.rs(rng, len(cur[0])))
                else:
                    new.append(q)
            else:
                new.append(":".join(t))
                if t[0] in ("copy", "ccopy"):
                    stack.insert(0, list(cur))
                if t[0] == "swap":
                    if stack:
                        cur, stack[0] = stack[0], cur
                else:
                    cur = C10.spec_edit(cur, t)
        new.append(HQ[pid][0] if HQ[pid][0] not in ("q.isin",) else "q.space" if (cur and len(cur[0]) <= 3) else "q.isin:" + G.rs(rng, len(cur[0]) if cur else 2))
        out.append(G.line_of("hist", init, ";".join(new)))
    return out

def history_oracle(pid):
    def oracle(line, out):
        init, ops = IC.ops_of(line)
        state = O.pad(list(init))
        if out.startswith("!"):
            return None
        last = {}
        for t, o in zip(ops, out.split("\t")):
            if not t[0].startswith("q."):
                state = impl_graph.strs(o.split("=", 1)[1])
                last = {}
                continue
            if not state or len(set(map(len, state))) != 1 or o.startswith("!"):
                if o.startswith("!") and state:
                    return f"query {':'.join(t)} on the edited collection {state} raised {o}"
                continue
            C = O.closure_strs(state)
            where = f"on the edited collection {state} (history {line.split(' ')[2][:120]})"
            if t[0] == "q.dim" and pid == "C09":
                if int(o) != len(C):
                    return f"get_dla_dim() = {o} {where}, but the commutator closure has {len(C)} strings"
                last["dim"] = int(o)
            elif t[0] == "q.alg" and pid in ("C01", "C09"):
                nm = py_invname(o)
                if nm == "bad-op":
                    return f"get_algebra() = {o} {where} is not a name of the family"
                if pid == "C09":
                    if "dim" in last and int(fields(nm)["size"]) != last["dim"]:
                        return f"get_dla_dim() = {last['dim']} but the algebra it names, {o}, has dimension {fields(nm)['size']} {where}"
                else:
                    c = py_inv(state)
                    if c != nm:
                        return f"reported {o} has invariants [{nm}] but the commutator closure has [{c}] {where}"
            elif pid == "C02" and t[0] in ("q.verts", "q.deps"):
                xs = lst(o)
                if t[0] == "q.verts" and O.closure_strs(xs) != C:
                    return f"canonical vertices {xs} generate {len(O.closure_strs(xs))} strings, the generators {len(C)} {where}"
                if t[0] == "q.deps" and any(x not in C for x in xs):
                    return f"dependent {[x for x in xs if x not in C][0]} is not in the commutator closure {where}"
            elif pid == "C08":
                if t[0] == "q.isin":
                    qs = O.pad(impl_graph.strs(t[1]))
                    if len(qs[0]) == len(state[0]) and (o == "T") != all(q in C for q in qs):
                        return f"is_in({t[1]}) = {o} {where}, closure membership says {all(q in C for q in qs)}"
                elif t[0] == "q.seldep":
                    qs = O.pad(impl_graph.strs(t[1]))
                    if len(qs[0]) == len(state[0]) and o != "None":
                        exp = sorted(q for q in dict.fromkeys(qs) if q in C)
                        if sorted(lst(o)) != exp:
                            return f"select_dependents({t[1]}) = {sorted(lst(o))} {where}, members of X in the closure = {exp}"
                elif t[0] == "q.space" and o != "None":
                    if set(lst(o)) != C:
                        return f"get_space() has {len(lst(o))} strings {where}, the closure {len(C)}"
        return None
    return oracle

def history_stream(pid, rng, tier):
    import props.c10 as C10
    return Stream("queried-edited-queried", history_lines(pid, rng, tier), IC.handle, oracle=history_oracle(pid), shrink=C10.shrink,
                  tag=lambda l, o: "hist" + (":err" if "!" in o else ""),
                  nontrivial=lambda l, o: any(x.split(":")[0] in ("rep", "con", "rem", "del", "exp", "sort", "ins") for x in l.split(" ")[2].split(";")))


# ---------------------------------------------------------------- generators ASSEMBLED through the in-place API
# (every classifier property is stated for collections, whatever way their PauliString objects came into being: a string
#  written block-wise with set_substring / item assignment, tensored, multiplied, expanded or copied-and-overwritten must be
#  classified like the same text parsed afresh; anything a string remembers beside its letters — parity masks, hash, index —
#  is exercised here)
from pollute import assembled_string

def assembled_coll(arg, r):
    from paulie.common.pauli_string_collection import PauliStringCollection
    ss = impl_graph.strs(arg)
    ps = [assembled_string(s, r) for s in ss]
    # the objects are used as they come out of the recipes: the collection HOLDS the letters the recipe wrote (on a sound tree
    # str(p) == s for every recipe); a string whose printed text, parity masks or hash lag behind its letters is exactly what
    # this stream is for
    if r.random() < 0.3 and ss and len(set(map(len, ss))) == 1:
        c = PauliStringCollection([])
        for p in ps:
            c.append(p)
        if len(c) == len(ss) and len(set(ss)) == len(ss):
            return c
    return PauliStringCollection(ps)

def assembled_handle(line):
    import random as _r
    _, seed, inner = line.split(" ", 2)
    r = _r.Random("asm:" + seed + ":" + inner)
    old = impl_classify.coll
    impl_classify.coll = lambda arg: assembled_coll(arg, r)
    try:
        return impl_classify.handle(inner)
    finally:
        impl_classify.coll = old

def assembled_stream(lines, batch_oracle, **kw):
    """the same protocol lines, answered by collections whose strings were assembled in place; judged by the same oracle"""
    kw = {k: v for k, v in kw.items() if k not in ("shrink", "canon", "batch_oracle")}
    tag = kw.pop("tag", None); nt = kw.pop("nontrivial", None)
    inner = lambda l: l.split(" ", 2)[2]
    return Stream("generators-assembled-through-the-in-place-API", [f"asm {j} {l}" for j, l in enumerate(lines)], assembled_handle,
                  batch_oracle=lambda ls, outs: batch_oracle([inner(l) for l in ls], outs), model=False,
                  tag=(lambda l, o: "asm:" + tag(inner(l), o)) if tag else None,
                  nontrivial=(lambda l, o: nt(inner(l), o)) if nt else None, **kw)

def replay_special(pid, line, batch_oracle):
    """replay of the lines that are not plain protocol lines (edit histories, assembled generators); None = not special"""
    if line.startswith("hist "):
        out = IC.handle(line); why = history_oracle(pid)(line, out)
    elif line.startswith("asm "):
        out = assembled_handle(line); why = batch_oracle([line.split(" ", 2)[2]], [out])[0]
    else:
        return None
    print("line:", line); print("implementation:", out[:600]); print("oracle:", why or "holds")
    return 1 if why else 0
