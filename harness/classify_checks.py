"""Shared machinery of the classifier properties C01, C02, C08, C09 (and reused by C03, C11, C19)."""
from __future__ import annotations
import itertools, json
from common import *
from engine import *
import gens as G
import oracle as O
import impl_classify, impl_graph

CLOSURE_THEOREMS = ["PauLie.Closure.clo_iff_nest", "PauLie.Closure.closureList_sound_complete",
                    "PauLie.Closure.closureList_exhausted", "PauLie.Closure.closureList_nodup", "PauLie.Closure.clo_card"]
CLOSURE_IMPORTS = ["PauLieVerif.Proofs.Closure"]

def fields(out: str) -> dict:
    d = {}
    for tok in out.split(" "):
        if "=" in tok:
            k, v = tok.split("=", 1)
            d[k] = v
    return d

def lst(v: str):
    return [] if v in ("-", "") else [("" if x == "-" else x) for x in v.split(",")]

def inputs_of(line):
    return O.pad(impl_graph.strs(line.split(" ")[1]))

def classify_lines(rng, tier, maxn_q=5, maxn_t=6, count_q=1200, count_t=8000, extra_kinds=()):
    th = tier == "thorough"
    maxn = maxn_t if th else maxn_q
    lines = []
    for _ in range(count_t if th else count_q):
        gs = G.collection(rng, maxn, 14 if th else 10)
        lines.append(G.line_of("classify", gs))
    return lines

def exhaustive_small_lines():
    """every collection of <= 3 strings on 2 qubits (order-free), <= 4 on 1 qubit"""
    out = []
    al2 = ["".join(t) for t in itertools.product("IXYZ", repeat=2)]
    for k in range(1, 4):
        for combo in itertools.combinations(al2, k):
            out.append(G.line_of("classify", list(combo)))
    al1 = list("IXYZ")
    for k in range(1, 5):
        for combo in itertools.combinations(al1, k):
            out.append(G.line_of("classify", list(combo)))
    return out

def lean_inv(collections):
    """verified checker: invariants of the commutator closure of each collection (list of lists of strings)"""
    lines = [G.line_of("inv", gs) for gs in collections]
    return run_model(lines)

def lean_invname(algs):
    return run_model([f"invname {a}" for a in algs])

def py_inv(gs):
    gs = O.pad(gs)
    C = O.closure([O.enc(s) for s in gs])
    return O.show_inv(len(C), O.inv_of_closure(C))

def tag_classify(l, o):
    f = fields(o)
    return "alg:" + f.get("alg", o)[:40]

def nontrivial_classify(l, o):
    f = fields(o)
    return f.get("deps", "-") != "-" or ";" in f.get("morphs", "") or "/" in f.get("morphs", "")

def shrink_classify(line):
    """drop a member of either collection; drop one qubit from every string of the line"""
    t = line.split(" ")
    fieldsL = [(f.split(",") if f != "-" else []) for f in t[1:]]
    for fi, gs in enumerate(fieldsL):
        for i in range(len(gs)):
            c = gs[:i] + gs[i + 1:]
            if c:
                nf = list(fieldsL); nf[fi] = c
                yield " ".join([t[0]] + [",".join(x) if x else "-" for x in nf])
    allstr = [g for gs in fieldsL for g in gs]
    if allstr and len(allstr[0]) > 1 and all(len(g) == len(allstr[0]) for g in allstr):
        for q in range(len(allstr[0])):
            nf = [[g[:q] + g[q + 1:] for g in gs] for gs in fieldsL]
            yield " ".join([t[0]] + [",".join(x) if x else "-" for x in nf])
