"""Shared machinery of the Pauli-compiler properties C05, C06, C07."""
from __future__ import annotations
import itertools, json, os
import numpy as np
from common import *
from engine import *
import impl_compiler

KNOWN_FILE = os.path.join(VERIF, "known", "compiler_failures.json")

def fields(out: str) -> dict:
    d = {}
    for tok in out.split(" "):
        if "=" in tok:
            k, v = tok.split("=", 1)
            d[k] = v
    return d

def all_targets(N):
    return ["".join(t) for t in itertools.product("IXYZ", repeat=N)][1:]

def branch(k, t):
    """which branch of OptimalPauliCompiler.compile handles the target"""
    if set(t[k:]) == {"I"}:
        return "W=I"
    return "V=I" if set(t[:k]) == {"I"} else "V!=I"

def parse_compile_line(line):
    _, N, k, t = line.split(" ")
    return int(N), int(k), t

# ------------------------------------------------------------------ independent dense oracle
_S = {"I": np.array([[1, 0], [0, 1]], dtype=complex), "X": np.array([[0, 1], [1, 0]], dtype=complex),
      "Y": np.array([[0, -1j], [1j, 0]]), "Z": np.array([[1, 0], [0, -1]], dtype=complex)}
_DENSE = {}
def dense(s):
    m = _DENSE.get(s)
    if m is None:
        m = np.array([[1]], dtype=complex)
        for ch in s:
            m = np.kron(m, _S[ch])
        if len(_DENSE) < 5000:
            _DENSE[s] = m
    return m

def dense_nested(seq):
    """[A_1, [A_2, [... [A_{n-1}, A_n]]]] as a dense matrix (public orientation)"""
    cur = dense(seq[-1])
    for s in reversed(seq[:-1]):
        a = dense(s)
        cur = a @ cur - cur @ a
    return cur

def dense_verdict(target, seq):
    """'target' if the nested commutator is a non-zero multiple of M(target), 'zero' if it vanishes,
    else 'other'"""
    C = dense_nested(seq)
    if np.allclose(C, 0):
        return "zero"
    T = dense(target)
    c = np.trace(T.conj().T @ C) / T.shape[0]
    if abs(c) > 1e-9 and np.allclose(C, c * T):
        return "target"
    return "other"

# ------------------------------------------------------------------ judging compile outputs
def kind_of(target, vf: dict) -> str:
    """failure kind of a returned sequence from the fields of the Lean validator's reply"""
    if vf.get("valid") == "T":
        return "ok"
    ks = []
    if vf.get("nonempty") != "T":
        ks.append("empty")
    if vf.get("inset") != "T":
        ks.append("outside")
    nested = vf.get("nested", "?")
    if nested == "None":
        if vf.get("nonempty") == "T":
            ks.append("zero")
    elif nested.startswith("!"):
        ks.append("error")
    elif nested != target:
        ks.append("wrong")
    return "+".join(ks) or "invalid"

def judge(lines, outs, dense_max_n=4):
    """For every `compile N k T` line and implementation output: (kind, detail).
    kind = 'ok' | 'raise:<Type>@<function>' | failure kind of the returned sequence as decided by the
    Lean validator `valid`; for N <= dense_max_n the verdict is cross-checked with dense matrices and the
    universal set as the implementation prints it (an 'ORACLE-DISAGREEMENT' kind is never a known finding)."""
    req, idx = [], []
    for i, (l, o) in enumerate(zip(lines, outs)):
        if o.startswith("seq="):
            N, k, t = parse_compile_line(l)
            req.append(f"valid {N} {k} {t} {o[4:]}")
            idx.append(i)
    rep = run_model(req)
    res = [None] * len(lines)
    for i, (l, o) in enumerate(zip(lines, outs)):
        if o.startswith("!"):
            res[i] = ("raise:" + o[1:], o)
        elif not o.startswith("seq="):
            res[i] = ("garbage", o)
    usets = {}
    for j, i in enumerate(idx):
        N, k, t = parse_compile_line(lines[i])
        vf = fields(rep[j])
        kd = kind_of(t, vf)
        seq = [] if outs[i][4:] == "-" else outs[i][4:].split(",")
        if N <= dense_max_n and seq and all(len(s) == N for s in seq):
            if (N, k) not in usets:
                usets[(N, k)] = set(impl_compiler.handle(f"uset {N} {k}").split(","))
            dv = dense_verdict(t, seq)
            lean_nested = vf.get("nested")
            lv = "zero" if lean_nested == "None" else ("target" if lean_nested == t else "other")
            inset = all(s in usets[(N, k)] for s in seq)
            if dv != lv or (vf.get("inset") == "T") != inset or (vf.get("valid") == "T") != (dv == "target" and inset):
                kd = f"ORACLE-DISAGREEMENT(lean:{rep[j]} dense:{dv} inset:{inset})"
        res[i] = (kd, rep[j])
    return res

# ------------------------------------------------------------------ recorded failures (N <= 5)
_LISTED = None
def listed():
    """{(prop, N, k, target): kind} from the committed known/compiler_failures.json"""
    global _LISTED
    if _LISTED is None:
        _LISTED = {}
        if os.path.exists(KNOWN_FILE):
            data = json.load(open(KNOWN_FILE))
            for prop in ("C05", "C06"):
                for nk, kinds in data.get(prop, {}).items():
                    N, k = (int(x) for x in nk.split(","))
                    for kind, ts in kinds.items():
                        for t in ts:
                            _LISTED[(prop, N, k, t)] = kind
    return _LISTED

def pairs_seen():
    """(branch, kind) pairs occurring among the recorded failures, per property"""
    out = {"C05": set(), "C06": set()}
    for (prop, N, k, t), kind in listed().items():
        out[prop].add((branch(k, t), kind))
    return out

def signature(prop, N, k, t, kind):
    """signature of a failure for known_findings.json; None = not coverable"""
    if kind.startswith("ORACLE") or kind in ("garbage",):
        return None
    if N <= 5:
        return f"N<=5:listed:{kind}" if listed().get((prop, N, k, t)) == kind else None
    br = branch(k, t)
    if (br, kind) in pairs_seen()[prop]:
        if br == "W=I" and kind.startswith("raise:"):
            # the left-only search fails only where the left set is not transitive: odd k
            return f"N>=6:{br}:k odd:{kind}" if k % 2 == 1 else None
        return f"N>=6:{br}:{kind}"
    return None

def compile_lines(rng, tier, corpus=()):
    """exhaustive N<=4 (quick) / N<=5 (thorough), every 2<=k<N; seeded samples above"""
    th = tier == "thorough"
    ex, smp = [], []
    for N in range(3, 6 if th else 5):
        for k in range(2, N):
            ex += [f"compile {N} {k} {t}" for t in all_targets(N)]
    if not th:
        for k in range(2, 5):
            ts = all_targets(5)
            smp += [f"compile 5 {k} {t}" for t in rng.sample(ts, 110)]
            # every target whose left block is the identity (the BFS fallback of the V=I branch works hardest on Y-heavy right
            # blocks), and the Y-heavy targets of the other branches
            smp += [f"compile 5 {k} {'I' * k + ''.join(w)}" for w in __import__("itertools").product("IXYZ", repeat=5 - k) if set(w) != {"I"}]
            smp += [f"compile 5 {k} {t}" for t in ts if t.count("Y") >= 4]
        smp = list(dict.fromkeys(smp))
    for N in (6, 7, 8):
        for k in range(2, N):
            cnt = (400 if N < 8 else 150) if th else (26 if N < 8 else 10)
            if (N, k) == (8, 7):
                cnt = 40 if th else 3          # _all_left_paulis(7) makes every call slow
            seen = set()
            for _ in range(cnt):
                r = rng.random()
                if r < 0.15:      # W = I
                    t = "".join(rng.choice("IXYZ") for _ in range(k)) + "I" * (N - k)
                elif r < 0.3:     # V = I
                    t = "I" * k + "".join(rng.choice("IXYZ") for _ in range(N - k))
                else:
                    t = "".join(rng.choice("IIXYZ") for _ in range(N))
                if set(t) != {"I"} and t not in seen:
                    seen.add(t)
                    smp.append(f"compile {N} {k} {t}")
    return ex, smp

def shrink_compile(line):
    """same target with a letter replaced by I; drop the last site"""
    N, k, t = parse_compile_line(line)
    for i, ch in enumerate(t):
        if ch != "I":
            c = t[:i] + "I" + t[i + 1:]
            if set(c) != {"I"}:
                yield f"compile {N} {k} {c}"
    if N > 3 and k < N - 1 and set(t[:-1]) != {"I"}:
        yield f"compile {N - 1} {k} {t[:-1]}"
