"""Shared machinery of the Pauli-compiler properties C05, C06, C07."""
from __future__ import annotations
import itertools, json, os
import numpy as np
from common import *
from engine import *
import impl_compiler

KNOWN_FILE = os.path.join(VERIF, "known", "compiler_failures.json")

def fields(out: str) -> dict:
    d = {}
    for tok in out.split(" "):
        if "=" in tok:
            k, v = tok.split("=", 1)
            d[k] = v
    return d

def all_targets(N):
    return ["".join(t) for t in itertools.product("IXYZ", repeat=N)][1:]

def branch(k, t):
    """which branch of OptimalPauliCompiler.compile handles the target"""
    if set(t[k:]) == {"I"}:
        return "W=I"
    return "V=I" if set(t[:k]) == {"I"} else "V!=I"

def parse_compile_line(line):
    _, N, k, t = line.split(" ")
    return int(N), int(k), t

# ------------------------------------------------------------------ independent dense oracle
_S = {"I": np.array([[1, 0], [0, 1]], dtype=complex), "X": np.array([[0, 1], [1, 0]], dtype=complex),
      "Y": np.array([[0, -1j], [1j, 0]]), "Z": np.array([[1, 0], [0, -1]], dtype=complex)}
_DENSE = {}
def dense(s):
    m = _DENSE.get(s)
    if m is None:
        m = np.array([[1]], dtype=complex)
        for ch in s:
            m = np.kron(m, _S[ch])
        if len(_DENSE) < 5000:
            _DENSE[s] = m
    return m

def dense_nested(seq):
    """[A_1, [A_2, [... [A_{n-1}, A_n]]]] as a dense matrix (public orientation)"""
    cur = dense(seq[-1])
    for s in reversed(seq[:-1]):
        a = dense(s)
        cur = a @ cur - cur @ a
    return cur

def dense_verdict(target, seq):
    """'target' if the nested commutator is a non-zero multiple of M(target), 'zero' if it vanishes,
    else 'other'"""
    C = dense_nested(seq)
    if np.allclose(C, 0):
        return "zero"
    T = dense(target)
    c = np.trace(T.conj().T @ C) / T.shape[0]
    if abs(c) > 1e-9 and np.allclose(C, c * T):
        return "target"
    return "other"

# ------------------------------------------------------------------ judging compile outputs
def kind_of(target, vf: dict) -> str:
    """failure kind of a returned sequence from the fields of the Lean validator's reply"""
    if vf.get("valid") == "T":
        return "ok"
    ks = []
    if vf.get("nonempty") != "T":
        ks.append("empty")
    if vf.get("inset") != "T":
        ks.append("outside")
    nested = vf.get("nested", "?")
    if nested == "None":
        if vf.get("nonempty") == "T":
            ks.append("zero")
    elif nested.startswith("!"):
        ks.append("error")
    elif nested != target:
        ks.append("wrong")
    return "+".join(ks) or "invalid"

def judge(lines, outs, dense_max_n=4):
    """For every `compile N k T` line and implementation output: (kind, detail).
    kind = 'ok' | 'raise:<Type>@<function>' | failure kind of the returned sequence as decided by the
    Lean validator `valid`; for N <= dense_max_n the verdict is cross-checked with dense matrices and the
    universal set as the implementation prints it (an 'ORACLE-DISAGREEMENT' kind is never a known finding)."""
    req, idx = [], []
    for i, (l, o) in enumerate(zip(lines, outs)):
        if o.startswith("seq="):
            N, k, t = parse_compile_line(l)
            req.append(f"valid {N} {k} {t} {o[4:]}")
            idx.append(i)
    rep = run_model(req)
    res = [None] * len(lines)
    for i, (l, o) in enumerate(zip(lines, outs)):
        if o.startswith("!"):
            res[i] = ("raise:" + o[1:], o)
        elif not o.startswith("seq="):
            res[i] = ("garbage", o)
    usets = {}
    for j, i in enumerate(idx):
        N, k, t = parse_compile_line(lines[i])
        vf = fields(rep[j])
        kd = kind_of(t, vf)
        seq = [] if outs[i][4:] == "-" else outs[i][4:].split(",")
        if N <= dense_max_n and seq and all(len(s) == N for s in seq):
            if (N, k) not in usets:
                usets[(N, k)] = set(impl_compiler.handle(f"uset {N} {k}").split(","))
            dv = dense_verdict(t, seq)
            lean_nested = vf.get("nested")
            lv = "zero" if lean_nested == "None" else ("target" if lean_nested == t else "other")
            inset = all(s in usets[(N, k)] for s in seq)
            if dv != lv or (vf.get("inset") == "T") != inset or (vf.get("valid") == "T") != (dv == "target" and inset):
                kd = f"ORACLE-DISAGREEMENT(lean:{rep[j]} dense:{dv} inset:{inset})"
        res[i] = (kd, rep[j])
    return res

# ------------------------------------------------------------------ recorded failures (N <= 5)
_LISTED = None
def listed():
    """{(prop, N, k, target): kind} from the committed known/compiler_failures.json"""
    global _LISTED
    if _LISTED is None:
        _LISTED = {}
        if os.path.exists(KNOWN_FILE):
            data = json.load(open(KNOWN_FILE))
            for prop in ("C05", "C06"):
                for nk, kinds in data.get(prop, {}).items():
                    N, k = (int(x) for x in nk.split(","))
                    for kind, ts in kinds.items():
                        for t in ts:
                            _LISTED[(prop, N, k, t)] = kind
    return _LISTED

# ------------------------------------------------------------------ the model of the search (Model/CompilerSearch.lean)
SEARCH_THEOREMS_C05 = ["PauLie.C05.compile_YIY", "PauLie.C05.compile_IIX", "PauLie.C05.C05_refuted_model", "PauLie.C05.C05_refuted_zero_model",
                       "PauLie.C05.observed_are_model_runs", "PauLie.C05.C05_verified_return", "PauLie.C05.C05_verified_return_matrix",
                       "PauLie.C05.C05_wI_valid", "PauLie.CompilerSearch.compileTargetB_eq", "PauLie.CompilerSearch.compileWith_verified",
                       "PauLie.CompilerSearch.leftMapOverA_sound",
                       "PauLie.C05.C05_subsystem_dichotomy", "PauLie.C05.C05_nested_is_product", "PauLie.C05.C05_verified_return_valid",
                       "PauLie.C05.C05_verified_return_wellformed", "PauLie.C05.C05_failures_only_unverified"]
SEARCH_THEOREMS_C06 = ["PauLie.C06.C06_refuted", "PauLie.C06.C06_refuted_run", "PauLie.C06.C06_refuted_left_only", "PauLie.C06.C06_refuted_even_k",
                       "PauLie.C06.observed_raises_are_model_runs", "PauLie.C06.compileTarget_guards", "PauLie.C06.left_search_sound",
                       "PauLie.C06.left_search_complete", "PauLie.C06.left_search_odd_obstruction", "PauLie.C06.C06_fails_odd_wI",
                       "PauLie.CompilerSearch.compileTargetB_eq",
                       "PauLie.C06.left_search_never_out_of_fuel", "PauLie.C06.left_search_errors", "PauLie.C06.left_search_total",
                       "PauLie.C06.left_search_decides", "PauLie.C06.subsystem_loop_fuel", "PauLie.C06.interleavings_fuel",
                       "PauLie.C06.compileTarget_total", "PauLie.C06.compileTarget_never_out_of_fuel",
                       "PauLie.C06.C06_fails_odd_wI_raises", "PauLie.C06.C06_fails_odd_single_raises",
                       "PauLie.C06.left_graph_even_connected", "PauLie.C06.left_search_even_returns",
                       "PauLie.C06.C06_holds_even_wI", "PauLie.C06.C06_holds_even_single"]

def replay_compile(line, out):
    """shared part of the replay of a `compile` line: the model's run next to the implementation's"""
    m = run_model([line])[0]
    print("model         :", m)
    print("model (return of compile, kind by the validator):", run_model(["compilex" + line[len("compile"):]])[0])
    if m != out:
        print("correspondence: DIVERGES (the model of the search does not do what the implementation does)")
        return 1
    return 0

MODELX = {}     # "compile N k T" -> reply of the model to "compilex N k T": `branch=.. kind=.. seq=..` or `!Type@function`
IMPL = {}       # "compile N k T" -> what the implementation answered (filled by the oracles)

def modelx(lines):
    """model replies (with the `return` of compile that fired and the failure kind the verified validator gives on the
    model's own output) for `compile` lines, batched and cached"""
    todo = [l for l in dict.fromkeys(lines) if l not in MODELX]
    if todo:
        for l, m in zip(todo, run_model(["compilex" + l[len("compile"):] for l in todo])):
            MODELX[l] = m
    return [MODELX[l] for l in lines]

def model_view(line):
    """(what the model's compile_target does in the text of the `compile` protocol, model branch, model kind)"""
    m = modelx([line])[0]
    N, k, t = parse_compile_line(line)
    if m.startswith("!"):
        return m, branch(k, t), "raise:" + m[1:]
    f = fields(m)
    return "seq=" + f.get("seq", "?"), f.get("branch", "?"), f.get("kind", "?")

def model_branch(line):
    return model_view(line)[1]

def signature(prop, N, k, t, kind, line=None, out=None):
    """signature of a failure for known_findings.json; None = not coverable.
    N <= 5: the failure is one of the committed list known/compiler_failures.json (exact input and kind).
    N >= 6: the failure is known iff the MODEL of compile_target does exactly what the implementation did on this input
    (same sequence / same exception type raised by the same function) and the failure kind is the one the verified validator
    gives on the model's own output; the signature names the `return` of compile (model branch) and the kind, and only the
    pairs entered in known_findings.json are accepted."""
    if kind.startswith("ORACLE") or kind in ("garbage",):
        return None
    if N <= 5:
        return f"N<=5:listed:{kind}" if listed().get((prop, N, k, t)) == kind else None
    line = line or f"compile {N} {k} {t}"
    if line not in IMPL:
        IMPL[line] = impl_compiler.handle(line)
    mout, mbranch, mkind = model_view(line)
    if mout != (IMPL[line] if out is None else out) or mkind != kind:
        return None                        # not what the model says: a new difference
    return f"N>=6:model-reproduced:{mbranch}:{kind}"

# ------------------------------------------------------------------ the class API with object reuse
CCOUT = {}      # "ccompile N k t1,t2" -> list of the per-target replies of the reused object

def parse_ccompile(line):
    _, N, k, ts = line.split(" ")
    return int(N), int(k), ts.split(",")

def ccompile_lines(rng, tier):
    """ONE OptimalPauliCompiler object compiles a short sequence of targets: repeats of the same target, consecutive targets
    sharing the right block W (different / equal left blocks), unrelated targets in between; N<=5 mostly (every call is cheap)"""
    th = tier == "thorough"
    rs = lambda n, al="IXYZ": "".join(rng.choice(al) for _ in range(n))
    out = ["ccompile 3 2 XIX,XIX", "ccompile 3 2 ZIX,YIX,XIX", "ccompile 4 2 YIXI,ZZXI,YIXI", "ccompile 4 2 XIIZ,IXIZ,IIIZ,IXIZ",
           "ccompile 3 2 YII,YII,IXI", "ccompile 4 3 XIIX,IXIX,IIIX", "ccompile 5 2 ZIIIX,IZIIX,ZIIIX"]
    for _ in range(700 if th else 170):
        N = rng.choice([3, 3, 4, 4, 4, 5, 5, 6] if th else [3, 3, 4, 4, 4, 5, 5])
        k = rng.randint(2, min(N - 1, 4))
        m = rng.choice([2, 2, 3, 3, 4])
        ts = []
        W = rs(N - k, "IXZXZY")
        for _ in range(m):
            r = rng.random()
            if ts and r < 0.25:
                ts.append(rng.choice(ts))                       # a repeat
            elif r < 0.8:
                ts.append(rs(k, "IXYZXYZ") + W)                 # same right block, another left block
            else:
                W = rs(N - k)                                   # move to another right block
                ts.append(rs(k) + W)
        ts = [t for t in ts if set(t) != {"I"}]
        if len(ts) >= 2:
            out.append(f"ccompile {N} {k} {','.join(ts)}")
    return list(dict.fromkeys(out))

def shrink_ccompile(line):
    """drop one target (at least two stay: the point is the history on one object)"""
    N, k, ts = parse_ccompile(line)
    if len(ts) > 2:
        for i in range(len(ts)):
            yield f"ccompile {N} {k} {','.join(ts[:i] + ts[i + 1:])}"

def ccompile_oracle(pid):
    """per target: the reply of the REUSED object is judged exactly like a compile_target reply (C05: the verified validator on a returned
    sequence; C06: a raise), and it must be what a FRESH compiler answers for that target"""
    def batch(lines, outs):
        flat_l, flat_o, owner = [], [], []
        res = [None] * len(lines)
        for i, (l, o) in enumerate(zip(lines, outs)):
            N, k, ts = parse_ccompile(l)
            rs_ = o.split("|")
            if len(rs_) != len(ts):
                res[i] = f"ccompile; garbage: {o[:120]}"
                continue
            CCOUT[l] = rs_
            for t, r in zip(ts, rs_):
                flat_l.append(f"compile {N} {k} {t}"); flat_o.append(r); owner.append(i)
        for cl in dict.fromkeys(flat_l):
            if cl not in IMPL:
                IMPL[cl] = impl_compiler.handle(cl)          # the fresh compiler (compile_target)
        js = judge(flat_l, flat_o) if pid == "C05" else [("raise:" + o[1:], o) if o.startswith("!") else ("ok", o) for o in flat_o]
        probs = {}
        for cl, r, i, (kind, detail) in zip(flat_l, flat_o, owner, js):
            t = cl.split(" ")[3]
            fresh = IMPL[cl]
            if r != fresh:
                probs.setdefault(i, []).append(f"t={t}:reused-differs: the reused object answers {r[:100]}, a fresh compiler {fresh[:100]}")
            if kind != "ok" and not (pid == "C05" and kind.startswith("raise:")):
                probs.setdefault(i, []).append(f"t={t}:kind={kind}")
        for i, ps in probs.items():
            if res[i] is None:
                res[i] = "ccompile; " + " ;; ".join(ps)
        return res
    return batch

def ccompile_known(pid, line, why):
    """a ccompile line is a known finding only if EVERY failing reply in it is one (same logic as for compile_target, keyed by
    (N, k, target, kind)); a reply that differs from the fresh compiler's is never known"""
    if not why.startswith("ccompile; ") or "reused-differs" in why or "garbage" in why:
        return None
    N, k, ts = parse_ccompile(line)
    outs = CCOUT.get(line)
    if outs is None:
        return None
    sigs = []
    for part in why[len("ccompile; "):].split(" ;; "):
        t, kind = part.split(":kind=")
        t = t[2:]
        idxs = [i for i, x in enumerate(ts) if x == t]
        sg = [signature(pid, N, k, t, kind, f"compile {N} {k} {t}", out=outs[i]) for i in idxs]
        if not sg or any(x is None or not known_lookup(pid, x) for x in sg):
            return None
        sigs.append(sg[0])
    return sigs[0] if sigs else None

def listed_kind(line):
    """what the committed list says about `ckind N k T`"""
    _, N, k, t = line.split(" ")
    N, k = int(N), int(k)
    return listed().get(("C06", N, k, t)) or listed().get(("C05", N, k, t)) or "ok"

def listed_lines(tier):
    out = []
    for N in range(3, 6 if tier == "thorough" else 5):
        for k in range(2, N):
            out += [f"ckind {N} {k} {t}" for t in all_targets(N)]
    return out

def helper_lines(rng, tier):
    """the search helpers one by one: left_map_over_a, subsystem_compiler, factor_w_orders, _candidate_decompositions, _bfs_case3"""
    th = tier == "thorough"
    rs = lambda n, al="IXYZ": "".join(rng.choice(al) for _ in range(n))
    out = ["lmap 3 XII IXX", "lmap 2 XI YZ", "lmap 2 X XY", "lmap 2 XY XY", "lmap 2 II XI", "lmap 0 - -", "lmap 2 XI II",
           "subc 3 2 I", "subc 3 2 XX", "subc 3 1 XX", "forders 5 2 YIY", "forders 6 2 YIYY", "forders 6 2 YYIY", "forders 7 2 YYIYY", "cdec 4 2 II", "bfs3 3 2 X 8 200000",
           "bfs3 3 3 X 2 10", "bfs3 4 2 IX 0 10", "bfs3 4 2 YY 8 0"]
    for k in (2, 3, 4):
        ts = all_targets(k) + ["I" * k]
        for _ in range(400 if th else (90 if k < 4 else 40)):
            out.append(f"lmap {k} {rng.choice(ts)} {rng.choice(ts)}")
    for _ in range(1200 if th else 260):
        N = rng.randint(3, 7)
        k = rng.randint(2, min(N - 1, 4))
        w = rs(N - k, "IXYZY")
        out.append(f"{rng.choice(['subc', 'subc', 'forders', 'cdec'])} {N} {k} {w}")
    for _ in range(120 if th else 30):
        N = rng.randint(3, 5)
        k = rng.randint(2, N - 1)
        out.append(f"bfs3 {N} {k} {rs(N - k)} {rng.randint(0, 8 if N < 5 else 5)} {rng.choice([5, 50, 500, 5000, 200000])}")
    # the two helper choices over the pool (`_choose_a1_a2` is never reached from compile_target for N<=6: only this stream ties it)
    out += ["a1a2 2 XI", "a1a2 2 II", "a1a2 3 XII", "a1a2 1 X", "aprime 2 XI II", "aprime 2 II II", "aprime 2 XI X"]
    for _ in range(200 if th else 60):
        k = rng.choice([2, 2, 3, 4])
        out.append(f"a1a2 {k} {rs(k, 'IIXYZ')}")
        out.append(f"aprime {k} {rs(k, 'IIXYZ')} {rs(k, 'IIXYZ')}")
    # interleaving generators: order of the yields and the cap
    for _ in range(400 if th else 120):
        nb = rng.choice([3, 3, 4])
        blocks = [[rs(2) for _ in range(rng.randint(0, 3))] for _ in range(nb)]
        flat = [(i, j) for i, b in enumerate(blocks) for j in range(len(b))]
        # a random interleaving that preserves the order inside every block (or, sometimes, an arbitrary list)
        pos = [0] * nb
        want = []
        while len(want) < len(flat):
            i = rng.choice([i for i in range(nb) if pos[i] < len(blocks[i])])
            want.append(blocks[i][pos[i]]); pos[i] += 1
        if rng.random() < 0.15:
            rng.shuffle(want)
        cap = rng.choice([0, 1, 2, 3, 5, 10, 50, 60000])
        out.append(f"il{nb} {cap} " + " ".join(",".join(b) or "-" for b in blocks) + " " + (",".join(want) or "-"))
    # _case3_best_reordering on blocks of which some arrangement of phase 2, 3 or 4 DOES evaluate to (I, W): a non-commuting walk over
    # the universal set whose value has an identity left part is cut into blocks / dealt out to blocks / dealt out with a repeated block
    import oracle as O
    made, tries = 0, 0
    while made < (300 if th else 90) and tries < 60000:
        tries += 1
        N = rng.choice([4, 4, 5]); k = 2
        U = impl_compiler.handle(f"uset {N} {k}").split(",")
        ph = rng.choice([2, 3, 3, 4, 4])
        L = rng.randint(3, 7)
        x = rng.choice(U)
        twice = sorted(rng.sample(range(L), 2)) if ph == 4 else []
        arr, cur = [], None
        for i in range(L):
            cands = [u for u in ([x] if i in twice else U) if cur is None or O.anti(O.enc(u), cur)]
            if not cands:
                break
            u = rng.choice(cands); arr.append(u)
            cur = O.enc(u) if cur is None else O.mul(O.enc(u), cur)
        if len(arr) < L:
            continue
        r = O.dec(cur, N)
        if set(r[:k]) != {"I"} or set(r[k:]) == {"I"}:
            continue
        rv = lambda l: list(reversed(l)) if rng.random() < 0.5 else list(l)
        if ph == 2:
            c1, c2 = sorted([rng.randint(0, L), rng.randint(0, L)])
            bl = [rv(arr[:c1]), rv(arr[c1:c2]), rv(arr[c2:])]
            rng.shuffle(bl)
            G1, G2, A = bl
        else:
            own = [rng.randrange(3) for _ in range(L)]
            if ph == 4:
                own[twice[0]] = own[twice[1]] = 2
                own = [o if (o != 2 or i in twice) else rng.randrange(2) for i, o in enumerate(own)]
            G1, G2, A = [rv([u for u, o in zip(arr, own) if o == b]) for b in range(3)]
            if ph == 4:
                A = [x]
        if not G1 or not G2:
            continue
        made += 1
        out.append(f"case3 {N} {k} {','.join(G1)} {','.join(G2)} {','.join(A) or '-'} {r[k:]}")
        if rng.random() < 0.2:
            out.append(f"case3 {N} {k} {','.join(G1)} {','.join(G2)} {','.join(A) or '-'} {rs(N - k)}")
    return list(dict.fromkeys(out))

def guard_lines(rng):
    """compile_target outside the admissible (N, k): the guards of compile_target and of the constructors"""
    out = ["compile 3 1 XYZ", "compile 3 3 XYZ", "compile 3 0 XYZ", "compile 3 -1 XYZ", "compile 2 1 XY", "compile 1 1 X",
           "compile 2 2 XY", "compile 4 7 XYZI"]
    return out

def compile_lines(rng, tier, corpus=()):
    """exhaustive N<=4 (quick) / N<=5 (thorough), every 2<=k<N; seeded samples above"""
    th = tier == "thorough"
    ex, smp = [], []
    for N in range(3, 6 if th else 5):
        for k in range(2, N):
            ex += [f"compile {N} {k} {t}" for t in all_targets(N)]
    if not th:
        for k in range(2, 5):
            ts = all_targets(5)
            smp += [f"compile 5 {k} {t}" for t in rng.sample(ts, 110)]
            # every target whose left block is the identity (the BFS fallback of the V=I branch works hardest on Y-heavy right
            # blocks), and the Y-heavy targets of the other branches
            smp += [f"compile 5 {k} {'I' * k + ''.join(w)}" for w in __import__("itertools").product("IXYZ", repeat=5 - k) if set(w) != {"I"}]
            smp += [f"compile 5 {k} {t}" for t in ts if t.count("Y") >= 4]
        smp = list(dict.fromkeys(smp))
    for N in (6, 7, 8):
        for k in range(2, N):
            cnt = (400 if N < 8 else 150) if th else (26 if N < 8 else 10)
            if (N, k) == (8, 7):
                cnt = 40 if th else 3          # _all_left_paulis(7) makes every call slow
            seen = set()
            for _ in range(cnt):
                r = rng.random()
                if r < 0.15:      # W = I
                    t = "".join(rng.choice("IXYZ") for _ in range(k)) + "I" * (N - k)
                elif r < 0.3:     # V = I
                    t = "I" * k + "".join(rng.choice("IXYZ") for _ in range(N - k))
                else:
                    t = "".join(rng.choice("IIXYZ") for _ in range(N))
                if set(t) != {"I"} and t not in seen:
                    seen.add(t)
                    smp.append(f"compile {N} {k} {t}")
    # sizes beyond those the exhaustive sweeps reach (N = 9..11, small k): identity left block with a LIGHT right block (the
    # bounded search of the V=I branch works hardest there and meets its node budget), and a few generic targets
    for _ in range(40 if th else 10):
        N = rng.choice([9, 9, 10, 11]); k = rng.choice([2, 2, 3, 4])
        w = ["I"] * (N - k)
        for i in rng.sample(range(N - k), rng.choice([1, 1, 2, 2, 3])):
            w[i] = rng.choice("XYZ")
        smp.append(f"compile {N} {k} {'I' * k}{''.join(w)}")
        if rng.random() < 0.3:
            t = "".join(rng.choice("IIIXYZ") for _ in range(N))
            if set(t) != {"I"}:
                smp.append(f"compile {N} {k} {t}")
    return ex, smp

def shrink_compile(line):
    """same target with a letter replaced by I; drop the last site"""
    N, k, t = parse_compile_line(line)
    for i, ch in enumerate(t):
        if ch != "I":
            c = t[:i] + "I" + t[i + 1:]
            if set(c) != {"I"}:
                yield f"compile {N} {k} {c}"
    if N > 3 and k < N - 1 and set(t[:-1]) != {"I"}:
        yield f"compile {N - 1} {k} {t[:-1]}"


# ---- compile_target on a target OBJECT assembled through the in-place / derived-object API (same text as the parsed one)
def handle_assembled_target(line):
    import random as _r, pollute
    r = _r.Random("asm:" + line)
    old = impl_compiler.get_pauli_string
    impl_compiler.get_pauli_string = lambda t, *a, **k: (pollute.assembled_string(t, r) if isinstance(t, str) and not a and not k else old(t, *a, **k))
    try:
        return impl_compiler.handle(line)
    finally:
        impl_compiler.get_pauli_string = old
ASSEMBLED_TARGETS = "compile:target-assembled-through-the-in-place-API"
