"""Tables of the application layer, appended to Generated/Tables.lean by gen_tables.py:
`construct_universal_set(N, k)` for every 0 <= k <= N <= 8 (letters as codes I=0 X=1 Y=2 Z=3, None where it raises) and
`get_optimal_edges_su_2_n(ng)` for ng < 400.  Proofs/TieApps.lean proves the Lean model equal to them (`decide +kernel`)."""
from __future__ import annotations

CODE = {"I": 0, "X": 1, "Y": 2, "Z": 3}

def tables():
    from paulie.application.pauli_compiler import construct_universal_set
    from paulie.application.get_optimal_su2_n import get_optimal_edges_su_2_n
    rows = []
    for N in range(0, 9):
        for k in range(0, N + 1):
            try:
                u = construct_universal_set(N, k)
                val = "(some [" + ", ".join("[" + ", ".join(str(CODE[c]) for c in str(p)) + "]" for p in u) + "])"
            except ValueError:
                val = "none"
            rows.append(f"(({N}, {k}), {val})")
    out = ["", "/-! application-layer tables (gen_tables_apps.py) -/",
           "def usetTable : List ((Nat × Nat) × Option (List (List Nat))) := [",
           ",\n".join("  " + r for r in rows), "]"]
    e = [f"({ng}, {int(get_optimal_edges_su_2_n(ng))})" for ng in range(0, 400)]
    out.append("def edgesTable : List (Nat × Int) := [" + ", ".join(e) + "]")
    return out
