"""Implementation side of the classifier commands (mirror of Model/CmdClassify.lean)."""
from __future__ import annotations
import re
from common import *
from impl_graph import strs, coll
from paulie.common.pauli_string_bitarray import PauliString
from paulie.common.pauli_string_collection import PauliStringCollection

def sorted_ps(ps):
    l = sorted(pstr(p) for p in ps)
    return ",".join(l) if l else "-"

def legs_text(legs):
    return "/".join(".".join(pstr(v) for v in leg) for leg in legs) if legs else "-"

def algebra_text(s: str) -> str:
    """canonical multiset form of `get_algebra()`: merged, sorted by name"""
    if s == "":
        return "[]"
    acc = {}
    for term in s.split("+"):
        if "*" in term:
            k, name = term.split("*")
            k = float(k) if "." in k else int(k)
        else:
            k, name = 1, term
        acc[name] = acc.get(name, 0) + k
    return "[" + ",".join((name if k == 1 else f"{k}*{name}") for name, k in sorted(acc.items())) + "]"

def classify_obj(c):
    cls = c.get_class()
    alg = guard(lambda: algebra_text(str(cls.get_algebra())))
    dim = guard(lambda: str(c.get_dla_dim()))
    deps = sorted_ps(cls.get_dependents())
    verts = sorted_ps(cls.get_vertices())
    morphs = sorted(legs_text(m.get_legs()) for m in cls.get_morphs())
    return f"alg={alg} dim={dim} deps={deps} verts={verts} morphs={';'.join(morphs) if morphs else '-'}"

def strip_meta(model_out: str) -> str:
    """the model appends ` #lost=.. #tags=..` (not observable on the implementation)"""
    return model_out.split(" #")[0]

def handle(line: str) -> str:
    t = line.split(" ")
    try:
        if t[0] == "classify":
            return classify_obj(coll(t[1]))
        if t[0] == "isin":
            return "T" if coll(t[1]).is_in(coll(t[2])) else "F"
        if t[0] == "iseq":
            return "T" if coll(t[1]).is_eq(coll(t[2])) else "F"
        if t[0] == "seldep":
            r = coll(t[1]).select_dependents(coll(t[2]))
            return "None" if r is False else sorted_ps(r)
        if t[0] == "space":
            r = coll(t[1]).get_space()
            return "None" if r is False else sorted_ps(r)
    except Exception as e:
        return exc_name(e)
    return "bad-op"
