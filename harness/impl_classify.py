"""Implementation side of the classifier commands (mirror of Model/CmdClassify.lean)."""
from __future__ import annotations
import re
from common import *
from impl_graph import strs, coll
from paulie.common.pauli_string_bitarray import PauliString
from paulie.common.pauli_string_collection import PauliStringCollection

def sorted_ps(ps):
    l = sorted(pstr(p) for p in ps)
    return ",".join(l) if l else "-"

def legs_text(legs):
    return "/".join(".".join(pstr(v) for v in leg) for leg in legs) if legs else "-"

def algebra_text(s: str) -> str:
    """canonical multiset form of `get_algebra()`: merged, sorted by name"""
    if s == "":
        return "[]"
    acc = {}
    for term in s.split("+"):
        if "*" in term:
            k, name = term.split("*")
            k = float(k) if "." in k else int(k)
        else:
            k, name = 1, term
        acc[name] = acc.get(name, 0) + k
    return "[" + ",".join((name if k == 1 else f"{k}*{name}") for name, k in sorted(acc.items())) + "]"

def classify_obj(c):
    cls = c.get_class()
    alg = guard(lambda: algebra_text(str(cls.get_algebra())))
    dim = guard(lambda: str(c.get_dla_dim()))
    deps = sorted_ps(cls.get_dependents())
    verts = sorted_ps(cls.get_vertices())
    morphs = sorted(legs_text(m.get_legs()) for m in cls.get_morphs())
    return f"alg={alg} dim={dim} deps={deps} verts={verts} morphs={';'.join(morphs) if morphs else '-'}"

# ---------------------------------------------------------------- recording builder (C11)

def frame_text(f) -> str:
    """one frame: title, `@`+vertex list if it carries a graph, `^` if init (mirror of CmdClassify.showFrame)"""
    g = f.get_graph()
    t = str(f.get_title())
    if g is not None:
        t += "@" + (",".join(v if v else "-" for v in g[0]) if g[0] else "-")
    if f.get_init():
        t += "^"
    return t

def frames_digest(texts) -> str:
    h = 7
    for t in texts:
        for ch in t + "\n":
            h = (h * 131 + ord(ch)) % 1000000007
    return f"{len(texts)}:{h}"

def rec_segments(rec):
    """the frames of a record split into reductions: a new reduction starts at every `init` frame"""
    segs = []
    for i in range(rec.get_size()):
        f = rec.get_frame(i)
        if f.get_init() or not segs:
            segs.append([])
        segs[-1].append(f)
    return segs

def last_graph(seg):
    for f in reversed(seg):
        g = f.get_graph()
        if g is not None:
            return sorted((v if v else "-") for v in g[0])
    return None

class ReductionTimeout(BaseException):
    """the reduction did not finish within REC_TIMEOUT_S (a `while True` of the recording builder that does not terminate)"""

REC_TIMEOUT_S = 8

def _with_timeout(f):
    import signal
    def onalarm(signum, frame):
        raise ReductionTimeout()
    old = signal.signal(signal.SIGALRM, onalarm)
    signal.setitimer(signal.ITIMER_REAL, REC_TIMEOUT_S)
    try:
        return f()
    finally:
        signal.setitimer(signal.ITIMER_REAL, 0)
        signal.signal(signal.SIGALRM, old)

def classify_rec(c):
    from paulie.helpers.recording import RecordGraph
    rec = RecordGraph()
    c.set_record(rec)
    _with_timeout(c.get_class)          # a BaseException: the builders' `except Exception` must not swallow it
    base = classify_obj(c)
    segs = rec_segments(rec)
    parts = []
    for seg in segs:
        lg = last_graph(seg)
        parts.append(("none" if lg is None else (",".join(lg) if lg else "-")) + "@" + frames_digest([frame_text(f) for f in seg]))
    # the observation named by the property: RecordGraph.get_graph(last index)
    g = rec.get_graph(rec.get_size() - 1)
    final = "none" if g is None else (",".join(sorted((v if v else "-") for v in g[0])) if g[0] else "-")
    return base + " last=" + (";".join(sorted(parts)) if parts else "-") + " final=" + final, rec

def rec_frames(c):
    from paulie.helpers.recording import RecordGraph
    rec = RecordGraph()
    c.set_record(rec)
    _with_timeout(c.get_class)
    segs = ["/".join(frame_text(f).replace(" ", "_") for f in seg) for seg in rec_segments(rec)]
    return "||".join(sorted(segs)) if segs else "-"

def strip_meta(model_out: str) -> str:
    """the model appends ` #lost=.. #tags=..` (not observable on the implementation)"""
    return model_out.split(" #")[0]

def handle(line: str) -> str:
    t = line.split(" ")
    try:
        if t[0] == "classify":
            return classify_obj(coll(t[1]))
        if t[0] == "classifyrec":
            return classify_rec(coll(t[1]))[0]
        if t[0] == "recframes":
            return rec_frames(coll(t[1]))
        if t[0] == "isin":
            return "T" if coll(t[1]).is_in(coll(t[2])) else "F"
        if t[0] == "iseq":
            return "T" if coll(t[1]).is_eq(coll(t[2])) else "F"
        if t[0] == "seldep":
            r = coll(t[1]).select_dependents(coll(t[2]))
            return "None" if r is False else sorted_ps(r)
        if t[0] == "space":
            r = coll(t[1]).get_space()
            return "None" if r is False else sorted_ps(r)
    except ReductionTimeout:
        return "!ReductionTimeout"
    except Exception as e:
        return exc_name(e)
    return "bad-op"
