"""Independent Python oracle: commutator closure on bitmask integers, invariants
of a closed set, invariants of a named algebra.  Second opinion next to the
verified Lean checker, and the engine of the failing-input search."""
from __future__ import annotations
import re

LET = {"I": (0, 0), "X": (1, 0), "Y": (1, 1), "Z": (0, 1)}
INV = {v: k for k, v in LET.items()}

def enc(s: str):
    x = z = 0
    for ch in s:
        a, b = LET[ch]
        x = (x << 1) | a; z = (z << 1) | b
    return (x, z)

def dec(v, n):
    x, z = v
    return "".join(INV[((x >> (n - 1 - i)) & 1, (z >> (n - 1 - i)) & 1)] for i in range(n))

def anti(a, b):
    return (bin(a[0] & b[1]).count("1") + bin(a[1] & b[0]).count("1")) & 1

def mul(a, b):
    return (a[0] ^ b[0], a[1] ^ b[1])

def closure(gens):
    """least set containing gens closed under products of anticommuting members"""
    gens = list(dict.fromkeys(gens))
    seen = set(gens)
    frontier = list(gens)
    while frontier:
        x = frontier.pop()
        for g in gens:
            if anti(x, g):
                y = mul(x, g)
                if y not in seen:
                    seen.add(y); frontier.append(y)
    return seen

def closure_full(gens):
    """closure under products of ANY two anticommuting members (definition, no Nest shortcut); small inputs only"""
    seen = set(gens)
    changed = True
    while changed:
        changed = False
        l = list(seen)
        for a in l:
            for b in l:
                if anti(a, b):
                    y = mul(a, b)
                    if y not in seen:
                        seen.add(y); changed = True
    return seen

def pad(gs):
    m = max((len(g) for g in gs), default=0)
    return [g + "I" * (m - len(g)) for g in gs]

def closure_strs(strs):
    strs = pad(strs)
    n = len(strs[0]) if strs else 0
    return {dec(v, n) for v in closure([enc(s) for s in strs])}

def inv_of_closure(C):
    C = list(C)
    centre = [x for x in C if not any(anti(x, y) for y in C)]
    rest = [x for x in C if any(anti(x, y) for y in C)]
    pool = set(rest)
    simples = []
    while pool:
        x = next(iter(pool))
        comp = {x}; fr = [x]; pool.discard(x)
        while fr:
            u = fr.pop()
            nb = [y for y in pool if anti(u, y)]
            for y in nb:
                pool.discard(y); comp.add(y); fr.append(y)
        B = sorted(comp)
        x0 = B[0]
        sig0 = [anti(x0, z) for z in B]
        copies = sum(1 for y in B if [anti(y, z) for z in B] == sig0) if len(B) <= 1200 else None
        if copies is None:   # big component: signature by hashing rows
            rows = {}
            for y in B:
                rows.setdefault(tuple(anti(y, z) for z in B), []).append(y)
            copies = len(rows[tuple(sig0)])
        cent = sum(1 for y in B if not anti(x0, y))
        simples.append((len(B) // copies, label_of_block(len(B) // copies, cent // copies), copies))
    return len(centre), merge(simples)

def label_of_block(d, cent):
    for r in range(3, d + 1):
        if r * (2 * r + 1) == d:
            return 2 if cent == r * r else (1 if cent == 2 * r * r - 3 * r + 2 else 3)
        if r * (2 * r + 1) > d:
            break
    return 0

def merge(simples):
    acc = {}
    for d, c, k in simples:
        acc[(d, c)] = acc.get((d, c), 0) + k
    return sorted((d, c, k) for (d, c), k in acc.items())

def dim_name(ty, m):
    return {"u": 1, "su": m * m - 1, "sp": m * (2 * m + 1), "so": m * (m - 1) // 2}[ty]

def parse_algebra(text):
    """'[2*so(3),u(1)]' -> [(ty, m, mult)]"""
    out = []
    inner = text.strip()[1:-1]
    if not inner:
        return out
    for term in inner.split(","):
        k = 1
        if "*" in term:
            ks, term = term.split("*")
            k = int(ks)
        m = re.fullmatch(r"(u|su|sp|so)\((\d+)\)", term)
        out.append((m.group(1), int(m.group(2)), k))
    return out

def inv_of_name(summands):
    z, simples = 0, []
    for ty, m, k in summands:
        if ty == "u":
            z += k
        elif ty == "so" and m in (0, 1):
            pass
        elif ty == "so" and m == 2:
            z += k
        elif ty == "so" and m == 4:
            simples.append((3, 0, 2 * k))
        elif ty == "so":
            simples.append((m * (m - 1) // 2, 1 if (m % 2 == 1 and m >= 7) else 0, k))
        elif ty == "sp":
            simples.append((m * (2 * m + 1), 2 if m >= 3 else 0, k))
        elif ty == "su":
            simples.append((m * m - 1, label_of_block(m * m - 1, m * m // 2 - 1), k))  # su(64): 4095 = dim sp(45), label 3
    return z, merge(simples)

def show_inv(size, inv):
    z, simples = inv
    return f"size={size} z={z} simples=[" + ",".join(f"{d}:{c}:{k}" for d, c, k in simples) + "]"
