"""Writes /verif/MANIFEST.json from the table below (kept next to the checks so the two cannot drift)."""
import json, os
V = os.path.dirname(os.path.dirname(os.path.abspath(__file__)))
NOTE = ("Trusted base: Lean 4.33 kernel; axioms of every property theorem ⊆ {propext, Classical.choice, Quot.sound} (audited on every run, "
        "no native_decide/bv_decide/sorry/own axioms); the hand-written Lean model is tied to /repo by the differential correspondence "
        "streams of this check and by tables regenerated from the live package; Python harness, bitarray/networkx/numpy; Lean compiler for "
        "verdicts computed by the compiled model. ")
CLAIMS = {
 "C04": ("proof", "6.C04", "Lean proof for ALL lengths n of product/phase/commutation/adjoint/conjugation/length-guard against the 2^n x 2^n matrices "
         "(M P r c = prod_i sigma(P i)(r i)(c i), tied to np.kron layout), about the Lean model of PauliString; model tied to the code by exhaustive "
         "correspondence for n<=3 and random pairs to n=64/256; numpy oracle for the failing-input search.",
         "Lean proof (tensor factorisation, all n) + exhaustive/random differential correspondence"),
 "C18": ("proof", "6.C18", "Lean proof that the three bit views stay synchronised along EVERY edit history (set_substring incl. negative/out-of-range starts "
         "and IndexError exits, inc), that every observation equals that of a freshly built string, functional spec of set_substring, tensor/expand/copy, "
         "and that gen_all enumerates each of the 4^n strings once in index order; correspondence on random histories with all views dumped after each step.",
         "Lean invariant proof by induction over edit histories + differential correspondence of histories"),
 "C17": ("proof", "6.C17", "Lean proof of print/parse round trip, sparse and mixed notation expansion, exact grammar characterisation of accepted texts "
         "(every ill-formed text is rejected with ValueError, only ValueError), termination certificate, size padding; k-local expansion PROVED for all generator lists and all n (C17_klocal: result = first occurrences of "
         "the translates of the right-padded generators, in order; length n, no duplicates, exact membership; ValueError below the longest length / on the empty list). Parser model tied by 30k grammar-directed and mutated texts per run.",
         "Lean proof of parser grammar equivalence + grammar-directed differential correspondence"),
 "C14": ("proof", "6.C14", "Lean characterisation theorems (commutant, anticommutation graph edges/labels, components partition and connectivity, commutator "
         "graph, pair counts) for the model of get_graph / collection graph queries; correspondence on random collections n<=6 and 4^n-vertex "
         "commutator graphs n<=3 (thorough 5).",
         "Lean characterisation proofs + differential correspondence against double-loop oracle"),
 "C01": ("other", "6.C01", "Partial proof + verified per-input decision. Proved in Lean for ALL n: the executable closure checker closureList enumerates exactly the "
         "inductively defined commutator closure (sound, complete, duplicate-free, never out of fuel), Clo = right-nested closure. The hand model of the whole "
         "classifier (get_subgraphs, queue, pipeline steps I-VII, Morph.counts, name table) is tied to the code by exact comparison of legs/dependents/algebra. "
         "PROVED for all sizes (Properties/C01Star.lean): the closure of a pure single-leg star is {c+sum S} u {sum S, |S| odd} with 3*2^(k-1) strings, of a path the intervals "
         "(dim so(m+1)), of a general type-A star 2^(k-1)*dim so(r+3) strings — each equal to the dimension of the name the model classifier reports for those legs "
         "(C01_star, C01_path, C01_typeA), and through C02_closure_partial the reported dimension equals |Clo generators| for every input whose guarded reduction ends in "
         "such a star with independent vertices (C01_from_C02_*); the span test of the repaired check_dependency_one_leg is proved correct (C01Star_inSpan); the census->name "
         "table is tied to the Python by census_tie; the library's own is_algebra comparison is proved sound w.r.t. the invariants (C01Names_sound_classifier). Also proved: closure, size and invariants add over the connected components "
         "(C01_componentwise_full), full invariants for every type-A input under the guard (C01_componentwise_typeA_full), the dimension of the reported name = |Clo| for every independent "
         "realisation of a B1/B2/B3 star (C01_typeB*_dim), and the dimension clause per input at any n under the verified certificate (C01_cert_dim). "
         "Per input (n<=5 quick, n<=6 thorough; every collection of <=3 strings on 2 qubits): invariants of the verified closure (size, centre, per block "
         "simple dimension / centraliser / copies) must equal those of the reported name. That the reduction is correct for all inputs is the classification "
         "theorem of arXiv:2408.00081 and is NOT proved.",
         "Lean-verified closure checker evaluated per input + exact differential correspondence of the classifier model"),
 "C02": ("other", "6.C02", "Closure preservation PROVED in Lean for ALL inputs under an executable condition (C02_closure_partial / C02_classify_partial): if a guarded run of the "
         "reduction — which checks a local certificate at every move (contraction with an anticommuting vertex, twist v*(p*q), verdicts of dependency) — reports no failed check, the "
         "canonical vertices generate exactly the closure of the generators and every dependent lies in it; the guarded run erases to the plain model (C02_erasure), every "
         "primitive and every step I-VII preserves the invariant (Hoare-style program logic). The condition (the star-shape theorem of arXiv:2408.00081) is evaluated per input at "
         "ANY n by the model command `guards` (all inputs of the check), and additionally the closure is compared per input with the Lean-verified closureList "
         "(n<=6); star-of-paths shape (Lean checker, PROVED equivalent to the declarative notion IsCanonicalStar: C02_shape_checker), accounting (vertices + dependents == distinct inputs) and one graph per "
         "component at any n (to 16/24 qubits). Closure preservation of the reduction for all inputs is not proved.",
         "Lean-verified closure/shape checkers per input + differential correspondence of the reduction model"),
 "C08": ("other", "6.C08", "SOUNDNESS of the membership verdicts PROVED in Lean for all inputs under an executable guard (C08_partial, C08_dependent_sound, C08_select_sound, C08_isin_sound): "
         "if the guarded run of a query against the stored canonical legs passes its certificate checks, every string reported dependent lies in the closure, so "
         "select_dependents G X is a subset of X and of Clo G, is_in true implies X inside Clo G, get_space inside Clo G (together with C02_classify_partial). Three checked "
         "certificates of NON-membership are proved sound (separating commuting string; identity; quadratic form q with polar form omega on independent vertices) — they "
         "certify most non-member answers; completeness in general is not proved. Per input: every query also goes through the guarded run (`mguards`, verdict must equal "
         "the implementation's) and is compared with the Lean-verified commutator closure (all 4^n single queries for n<=3, sampled query sets to n=5/6, queries on edited collections).",
         "Lean soundness proof under per-query guards + Lean-verified closure checker per query + differential correspondence"),
 "C09": ("other", "6.C09", "Proved in Lean for EVERY classification (C09_name_dim): get_dla_dim() answers iff get_algebra() answers and equals the sum over the summands of the reported name of multiplicity x dimension (u(1) = 1) — the model of the two methods is tied to the code by correspondence. First clause: a per-input certificate verified in Lean (Model/Cert.lean, C09_cert): if certDim G = true — guarded reduction per component without failed guard, legs a point / A / B1 / B3 / B2 profile with pattern and independence checks or one dependency with q=1 — then get_dla_dim() = |Clo G| at ANY n, no enumeration; evaluated on every input to 16/24 qubits (>99.9% certified, the rest counted) and cross-checked against the Lean-verified closure size for n<=6; that the certificate accepts is not proved.",
         "Lean-verified per-input certificate (any n) + Lean-verified closure size (n<=6) + name-dimension arithmetic + differential correspondence"),
 "C10": ("proof", "6.C10", "Lean refinement proof, parametric in the classifier: abstract state = list of generators, abstract step = the plain list edit; invariant "
         "'cache empty or = classify(current list)' is kept by every one of the 9 public edits with every argument (error exits included) and by every query; "
         "hence along EVERY finite history of edits and queries each answer equals the answer of a freshly built collection (C10_history), read-only queries "
         "change nothing, no edit loses a string other than the named one (C10_lossless, per edit), a copy is a fresh collection. `sort` keeps the cache: sound iff "
         "the classifier is order-independent — explicit hypothesis, shown necessary in Lean. For the MODELLED classifier both hypotheses of the generic theorem are discharged "
         "(C10_model_total): order-independence through C03.getSubgraphs_perm, and 'classify() never raises' (editList_uniform, getSubgraphs_total, build_total, "
         "build_strict_adequate) — C10 holds for the model along ALL histories with no side condition. Model tied to the code by exact comparison of the state after "
         "each edit and of 20 kinds of query answers on random histories; independently the implementation is compared with a freshly built collection.",
         "Lean refinement/invariant proof over edit-query histories + differential correspondence of histories"),
 "C15": ("proof", "6.C15", "Lean proof, all n: the BFS of average_otoc enumerates exactly the orbit of V under commutation with members of G (never out of fuel), "
         "result = (|{x in Orbit : x anticommutes with W}|, |Orbit|); the graph-complexity BFS assigns every orbit element its shortest-path distance "
         "(exists and is unique), sum and count as defined; consequences proved: range [-1,1], +-1 when V commutes with G, generator independence "
         "(equal closures give equal orbits), and SYMMETRY a(V,W)*s(W,V) = a(W,V)*s(V,W) by double counting with the transvection moves; fourpoint. "
         "Final float division excluded (compared at 1e-12). Source-level model refined to the core BFS in Lean and tied to the code by correspondence.",
         "Lean BFS/orbit proofs (soundness, completeness, distances, symmetry) + differential correspondence + independent orbit oracle"),
 "C12": ("proof", "6.C12", "Lean proof for ALL n and ALL term lists (repeats, zero coefficients, cancellations, the empty list) over exact Gaussian rationals, with den(a) = sum c*M(P): "
         "den(a@b) = den a * den b, den(a+b), den(c*a), den(a.h) = conjugate transpose, trace = matrix trace (tr M(P) = 2^n [P=I]), den(simplify a) = den a, "
         "a == b iff den a = den b and is_zero iff den a = 0 (linear independence of the Pauli matrices by trace orthogonality), get_matrix entrywise, kron/quadratic; "
         "printing only partly (parse-back checked by the oracle). Model tied to the code by exact comparison on dyadic coefficients (every float operation exact), "
         "dense numpy oracle on every clause; generic floats against numpy at 1e-9. Floating-point rounding and tolerance semantics are outside the theorems. "
         "Known finding: get_matrix of the empty combination raises IndexError (no qubit count).",
         "Lean proofs of every algebraic clause (all n, all term lists) + exact dyadic differential correspondence + dense numpy oracle"),
 "C13": ("proof", "6.C13", "Lean proof for ALL n>=1 and ALL 2^n x 2^n matrices / diagonals over Q(i) (exact arithmetic), about the Lean model of "
         "matrix_decomposition / matrix_decomposition_diagonal (in-place slice loops as written: while h<len, for i in range(0,len,4h), h*=4; _pauli_ord/_mat_to_vec), "
         "get_index / get_diagonal_index / get_weight_in_matrix and get_pauli_weights / average_pauli_weight: the number a string P looks up is tr(M(P)A)/2^n; "
         "sum_P w[P] M(P) = A; the diagonal variant returns the same numbers as the general one on np.diag(d); the weight table at P.get_index() is the "
         "letter count of P (same index function); influence = sum_P |P| |c_P|^2 exactly; shapes other than (2^n,2^n)/(2^n,), n>=1, give ValueError. "
         "Model tied to the code by exact comparison on dyadic Gaussian matrices n<=4/5 (all binary64 arithmetic exact), every string as lookup key n<=3, "
         "malformed shapes/lengths; full-precision float matrices n<=6, entropy and influence against an independent numpy oracle at 1e-9. "
         "Not covered: floating-point rounding, np.abs, log2 and the 1e-12 cut-off of the entropy.",
         "Lean proof (loop invariant -> recursive per-qubit transform -> trace formula -> Pauli completeness, all n) + exact differential correspondence on dyadic inputs + numpy oracle"),
 "C03": ("other", "6.C03", "Proved in Lean for ALL n: the model classifier depends only on the SET of members (classify_perm, classify_dup: reorder / duplicate invariance of "
         "get_subgraphs and of the whole classification); at specification level the commutator closure is carried isomorphically by every additive, form-preserving, "
         "injective map (qubit permutations, independent X/Y/Z relabellings per qubit, appended identity qubits) and is unchanged by contraction with / addition of a "
         "product of anticommuting generators; hence any C03 failure is a C01 failure on one side. Classifier invariance where the closure cannot be enumerated is "
         "decided metamorphically on the implementation (7 transformations, n=2..6 with the verified closure attributing the side, n=8..16/24), repeated calls and a "
         "PYTHONHASHSEED sweep in fresh subprocesses.",
         "Lean proofs (permutation/duplication invariance of the model classifier; closure invariance under form maps) + metamorphic differential checks + hash-seed sweep"),
 "C20": ("other", "6.C20", "Proved in Lean for ALL n, all collections of synchronised strings, all targets and ALL streams of random values: every collection the search moves to "
         "is the current one or a contraction by an anticommuting member (C20_iterate_moves), a contraction keeps the commutator closure, the number of strings and "
         "their length (C20_move_closure), hence every run that returns keeps closure and size (C20_run_preserves); the exhaustive exploration of the random choices "
         "contains the result of every run (C20_explore_covers_run). Termination (no stuck retry loop, no IndexError) is NOT proved for all inputs: decided per input "
         "by exploring every random choice in the model (n<=3/4), with the model tied to the code by scripted-randint correspondence; closure equality with the INPUT "
         "(through the canonical vertices) per input with the Lean-verified closure. Size/distinctness clause proved as a theorem about su(2^n), n>=2: a generating list has at least "
         "2n+1 distinct strings, 2n+1 generating strings are pairwise distinct, every run from 2n+1 canonical vertices returns 2n+1 distinct strings generating su(2^n) "
         "(C20_min_generators, C20_distinct, C20_run_distinct; C20_min_fails_n1 shows n=1 is the exception, where the check uses 2). Two recorded findings (known_findings.json): "
         "dependents-not-removable, and IndexError with repeated members (both reproduced by the exact Lean models).",
         "Lean invariant proof over all random streams + exhaustive exploration of random choices per input + scripted-randint correspondence"),
 "C11": ("other", "6.C11", "C11 is FALSE on this tree (the recording builder is a drifted copy of the plain one) and is recorded as known findings made SPECIFIC by an exact "
         "Lean model of the drifted builder (Model/MorphRec.lean, frames as a log), tied to the code by exact comparison of legs/dependents/algebra/last frames: a C11 "
         "failure is known iff the recorded output equals the drift model's output, the plain output the plain model's, and the failure kind (wrong closure / overcount / "
         "other dependents / non-termination) is the one the model pair exhibits; anything else is a VIOLATION. Per input the property is evaluated independently "
         "(invariants of the names, dependents sets, Lean-verified closure of both vertex sets, last frame per reduction). Lean: refutation witnesses, step-wise "
         "simulation theorems between the two builders for the non-drifted steps.",
         "exact Lean model of the drifted recorder + differential correspondence + Lean-verified closure per input; refutation and simulation theorems"),
 "C19": ("other", "6.C19", "Translator tie: G_LIE and two_local_algebras(n) for 3<=n<=40 (28x38 rows, exact text and parsed) are regenerated from the live package on every run and "
         "proved equal to the Lean closed forms (tl_table_tie, gLie_tie, iso_tie). Proved for ALL n>=3: name arithmetic and the low-rank coincidences; the DIMENSION clause of all 28 rows with the closure in closed form "
         "(C19_dimension_all; a11, a12, a17 from n>=4, their n=3 rows are refuted = known findings); nine rows with all invariants (C19_rows). Invariants beyond the dimension for the other "
         "19 rows and the classifier clause are decided per (family,n) by the Lean-verified closure invariants for 3<=n<=6/7 (size at 8) and classifier-vs-table to n=16/40.",
         "generated-table tie theorems + all-n closed-form closure theorems for all 28 families (dimension) + Lean-verified closure per (family,n) + classifier correspondence"),
 "C05": ("other", "6.C05", "Partial proof + exact model of the search + verified per-output decision + refutation. The WHOLE compile pipeline (subsystem_compiler, left_map_over_a, _case3_best_reordering with its interleaving generators and caps, _bfs_case3 with depth/node caps, compile, compile_target) is modelled in Lean (Model/CompilerSearch.lean, structural recursion on fuel) and tied to the code by exact correspondence: same returned sequence or same exception type raised by the same function for all 4^N-1 targets, N<=4 (thorough N<=5), every 2<=k<N, samples 6<=N<=8, and helper by helper. Proved in Lean for ALL N, k, targets, sequences: the executable validator validSeq accepts exactly the sequences that are non-empty, inside construct_universal_set(N,k) (closed form proved) and whose nested commutator of the 2^N x 2^N matrices in the documented orientation equals c*M(target), c != 0; orientation lemma; C05_verified_return: every sequence leaving compile through a return guarded by _nested_commutator_result == target reads as the target (never zero, never another string); C05_wI_valid: the W=I branch returns only valid sequences. The property is FALSE on the tree: C05_refuted_model / C05_refuted_zero_model are kernel-evaluated runs of the model ((3,2,YIY) -> [XIZ,YII,XIZ] via the unverified return). Per output: every returned sequence is judged by the compiled validator (dense numpy cross-check N<=4); the 1709 failing targets with N<=5 are recorded findings (known/compiler_failures.json, checked on every run to be exactly what the model produces); a failure at N>=6 is known only if the model returns the same sequence through the same unverified return with the same kind; anything else is a violation. NOT proved: universal-set membership on the verified returns of V!=I / V=I; the unverified returns; that the model's fuel is never exhausted. ALSO PROVED for all N, 2<=k<N: every return guarded by the self-check (W=I, the three V!=I candidates, all four case-3 phases) is Valid, i.e. also INSIDE the universal set (C05_verified_return_valid), so every invalid output leaves through one of the three returns without self-check (C05_failures_only_unverified); compile_target never runs out of fuel (compileTarget_total).",
         "exact Lean model of the search diffed against the implementation + Lean-verified validator on every returned sequence + kernel-evaluated refutation + soundness theorems for the verified returns"),
 "C06": ("other", "6.C05", "Refuted inside Lean, partially explained by proof. The whole search is modelled exactly (see C05) and tied by correspondence (sequence or exception type@function). C06_refuted / C06_refuted_left_only / C06_refuted_even_k: kernel-evaluated runs of the model of compile_target raising RuntimeError in left_map_over_a / compile at (4,3,IXXX), (4,3,IXXI), (5,2,IIXXX). Proved for ALL inputs: front end (guards, slicing) and guards end to end; left_search_sound (a returned path is a walk of the generator graph from start to goal) and left_search_complete ('Left map BFS failed.' is raised only if the goal is unreachable); for every N and odd k: no sequence over the universal set evaluates to a Q=0 target (C06_obstruction_odd), the left search cannot join strings of different Q, and the model NEVER returns for V x I..I with an even number of non-identity letters in V (C06_fails_odd_wI). The harness runs compile_target on all targets N<=4/5 and samples to N=8; the 612 raising targets with N<=5 are recorded findings (= what the model produces, checked); a raise at N>=6 is known only if the model raises the same type in the same function; any other raise is a violation. NOT proved: that the model's fuel never runs out (separate error value, never observed); that the even-k raises are unavoidable. ALSO PROVED: the model never runs out of fuel on any input (compileTarget_total) and left_map_over_a returns iff a walk exists (left_search_decides); for every even k and every N the left walk graph is connected and compile_target RETURNS a Valid sequence on every V x I..I and V x X_j / Z_j, V != I (C06_holds_even_wI, C06_holds_even_single); exact exceptions for odd k on those families.",
         "exact Lean model of the search diffed against the implementation (exhaustive/sampled) + kernel-evaluated raise + BFS soundness/completeness + odd-k obstruction theorems"),
 "C07": ("other", "6.C07", "Size/distinctness/length of construct_universal_set: Lean proof for ALL N and 2<=k<N about the model (closed form), model tied by exhaustive correspondence N<=10/12. "
         "Generation: REFUTED in Lean for every N and every odd k (quadratic invariant Q with polar form omega, all 2N+1 generators have Q=1, X_{k+1} has Q=0), kernel anchor (4,3); "
         "PROVED for every even k and every N (C07_even_universal, C07_even_count: the closure of the model's set is exactly the 4^N-1 non-identity strings; left-walk connectivity + "
         "induction on the right block), hence C07_generation_iff_even: for all 2<=k<N generation holds iff k is even. The implementation's printed set is additionally closed by the "
         "Lean-verified checker for N<=6/8 (+ Python closure) and classified (get_algebra()==su(2^N), also with a recorder attached) to N=10/14; the classifier clause is not a Lean statement.",
         "Lean proof (size; generation iff k even, all N) + Lean-verified closure checker per (N,k) + differential correspondence"),
 "C16": ("other", "6.C16", "Proved in Lean for ALL n and all non-empty collections (exact Gaussian rationals): every returned quadratic symmetry commutes with g(x)1 + 1(x)g for every member g "
         "(involution s <-> s*g on a component); distinct symmetries are trace-orthogonal with non-zero norm; the twirl (rational form Q*tr(Q^H M)/tr(Q^H Q) of the normalised code path) "
         "never raises on 2n-qubit operands, is linear, idempotent, fixes every symmetry, its output commutes, the residual is orthogonal to every symmetry, and it is self-adjoint "
         "(orthogonal projector); the symmetries are linearly independent members of the commutant (count <= dimension); COMPLETENESS is proved as well (C16_complete, C16_count, C16_twirl_is_projection): every matrix "
         "commuting with all g(x)1+1(x)g is the combination of the returned symmetries, their number is the finrank of the commutant, the twirl is the unique orthogonal projection onto it — "
         "C16_full is the whole statement without hypothesis, about the model. The count is still re-decided per input on the implementation's printed basis by an exact null-space "
         "computation (n<=2 quick, 3 thorough). Floats and sqrt compared at 1e-9.",
         "Lean proofs (commutation, orthogonality, projector algebra, independence, completeness) + exact rank per input on the implementation + differential correspondence"),
}
PENDING = {}
ACTIVE = ["C04", "C18", "C17", "C14", "C01", "C02", "C08", "C09", "C10", "C15", "C12", "C13", "C03", "C20", "C11", "C19", "C05", "C06", "C07", "C16"]
def main():
    props = [json.loads(l) for l in open(os.path.join(V, "properties.jsonl"))]
    checks, na = [], []
    for p in props:
        pid = p["id"]
        if pid in CLAIMS and pid in ACTIVE:
            cat, ref, text, tech = CLAIMS[pid]
            checks.append({
                "property_id": pid,
                "quick_cmd": f"./check {pid} --tier quick",
                "thorough_cmd": f"./check {pid} --tier thorough",
                "evidence_file": f"evidence/{pid}.json",
                "replay_cmd_template": f"./check {pid} --replay {{path}}",
                "engine": "lean4-proof+correspondence",
                "level_claimed": {"category": cat, "text": text, "design_ref": ref},
                "level_note": NOTE,
                "technique": tech,
            })
        else:
            na.append({"property_id": pid, "reason": PENDING.get(pid, "stage not built yet in this round: no theorem and no correspondence stream exists for it; not claimed rather than claimed on sampling")})
    m = {
        "version": 1,
        "setup_cmd": "cd lean && lake build PauLieVerif paulie_model",
        "hooks": {"guard": "PAULIE_VERIF", "enable": "export PAULIE_VERIF=1 (no hook is currently needed: every observable is public)",
                  "baseline_off_cmd": "cd /repo && env -u PAULIE_VERIF /venv/bin/python -m pytest -ra -q -p no:cacheprovider --timeout=900 --continue-on-collection-errors",
                  "source_commits": [], "add_only": True},
        "engines": [{"name": "lean4-proof+correspondence", "path": "lean/ + harness/",
                     "serves_properties": sorted(ACTIVE), "kind_free_text": "Lean 4 theorems about a hand-written executable model; model tied to /repo by differential execution over a line protocol and regenerated tables"}],
        "checks": checks,
        "not_applicable": na,
        "notes": "See DESIGN.md. fix: commits in /repo are listed in known_findings.json under 'fixed'.",
    }
    json.dump(m, open(os.path.join(V, "MANIFEST.json"), "w"), indent=1, ensure_ascii=False)
if __name__ == "__main__":
    main()
