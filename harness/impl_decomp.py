"""Implementation side of the decomposition commands (mirror of Model/CmdDecomp.lean).

Numbers travel as exact rationals `p` or `p/q`; a float result is rendered through
`float.as_integer_ratio`, so nothing is ever compared as decimal text.  Arrays are
built from the line alone (dtype int64 / float64 / complex128 chosen from the
data), the input array is checked to be unchanged after every call.

A trailing token `layout=A,B,…` chooses how the *same logical array* is held in memory
(the model ignores the token):
  C  C-contiguous (default)          F  Fortran-contiguous (np.asfortranarray)
  T  transposed view of the transpose (`A.T.copy().T`, not owning its data)
  S  strided view `big[::2, ::2]` / `big[::2]` of a larger array
  O  offset window `big[1:1+r, 2:2+c]` of a larger array (contiguous rows only)
  N  negative strides (`rev[::-1, ::-1]`)
  R  read-only (`flags.writeable = False`)
  E  non-native byte order (big-endian dtype)
Every variant is asserted to be element-wise equal to the logical array."""
from __future__ import annotations
from fractions import Fraction
import numpy as np
from common import *
from paulie.application.matrix_decomposition import matrix_decomposition, matrix_decomposition_diagonal
from paulie.application.average_pauli_weight import get_pauli_weights, average_pauli_weight, quantum_fourier_entropy
from paulie.common.pauli_string_bitarray import PauliString

# ---------------------------------------------------------------- text <-> numbers

def frac(s: str) -> Fraction:
    if "/" in s:
        p, q = s.split("/")
        return Fraction(int(p), int(q))
    return Fraction(int(s))

def show_frac(f: Fraction) -> str:
    return str(f.numerator) if f.denominator == 1 else f"{f.numerator}/{f.denominator}"

def show_float(x: float) -> str:
    x = float(x)
    if x != x or x in (float("inf"), float("-inf")):
        return "?" + repr(x)
    return show_frac(Fraction(*x.as_integer_ratio()))

def show_c(z) -> str:
    z = complex(z)
    return f"{show_float(z.real)}:{show_float(z.imag)}"

def parse_entries(s: str):
    """-> list of (Fraction, Fraction)"""
    if s == "-":
        return []
    out = []
    for e in s.split(","):
        a, b = e.split(":")
        out.append((frac(a), frac(b)))
    return out

def to_float(f: Fraction) -> float:
    x = float(f)
    if Fraction(*x.as_integer_ratio()) != f:
        raise AssertionError(f"harness: {f} is not a double")
    return x

def parse_shape(s: str):
    return () if s == "-" else tuple(int(x) for x in s.split("x"))

def apply_layout(arr: np.ndarray, layout: str) -> np.ndarray:
    """the same logical array in another memory layout"""
    logical = arr.copy()
    rng_fill = 7      # foreign values around the window, so that reading outside it is visible
    for tag in [x for x in layout.split(",") if x and x != "C"]:
        if tag == "F":
            if arr.ndim >= 1:          # (asfortranarray would promote a 0-d array to shape (1,))
                arr = np.asfortranarray(arr)
        elif tag == "T":
            if arr.ndim >= 2:
                arr = np.ascontiguousarray(arr.T).T
        elif tag == "S":
            if arr.ndim >= 1:
                big = np.full(tuple(2 * d + 1 for d in arr.shape), rng_fill, dtype=arr.dtype)
                sl = tuple(slice(0, 2 * d, 2) for d in arr.shape)
                big[sl] = arr
                arr = big[sl]
        elif tag == "O":
            if arr.ndim >= 1:
                big = np.full(tuple(d + 3 for d in arr.shape), rng_fill, dtype=arr.dtype)
                sl = tuple(slice(1 + k, 1 + k + d) for k, d in enumerate(arr.shape))
                big[sl] = arr
                arr = big[sl]
        elif tag == "N":
            if arr.ndim >= 1:
                rev = tuple(slice(None, None, -1) for _ in arr.shape)
                arr = np.ascontiguousarray(arr[rev])[rev]
        elif tag == "R":
            arr = arr.view()
            arr.flags.writeable = False
        elif tag == "E":
            arr = arr.astype(arr.dtype.newbyteorder(">"))
        else:
            raise AssertionError("harness: unknown layout " + tag)
    assert arr.shape == logical.shape and np.array_equal(arr, logical), "harness: layout changed the logical array"
    return arr

def mk_array(sh: str, dt: str, layout: str = "C") -> np.ndarray:
    ent = parse_entries(dt)
    shape = parse_shape(sh)
    if all(b == 0 for _, b in ent):
        if all(a.denominator == 1 and abs(a.numerator) < 2 ** 62 for a, _ in ent):
            arr = np.array([int(a) for a, _ in ent], dtype=np.int64)
        else:
            arr = np.array([to_float(a) for a, _ in ent], dtype=np.float64)
    else:
        arr = np.array([complex(to_float(a), to_float(b)) for a, b in ent], dtype=np.complex128)
    return apply_layout(arr.reshape(shape), layout)

def show_vec(v) -> str:
    v = np.asarray(v).reshape(-1)
    return ",".join(show_c(z) for z in v) if len(v) else "-"

def guard(f):
    """like common.guard, but a RecursionError of the package (``_pauli_ord`` without its
    scalar guard) is an answer to be judged, not a harness failure"""
    try:
        return f()
    except Exception as e:  # noqa
        return exc_name(e)

def mkp(s: str) -> PauliString:
    return PauliString(pauli_str="" if s == "-" else s)

def _unchanged(f, arr):
    keep = arr.copy()
    base = arr.base if isinstance(arr.base, np.ndarray) else None
    keep_base = base.copy() if base is not None else None
    strides = arr.strides
    r = f(arr)
    if (arr.shape != keep.shape or arr.dtype != keep.dtype or arr.strides != strides or not np.array_equal(arr, keep)
            or (base is not None and not np.array_equal(base, keep_base))):
        return "!INPUT-MUTATED"
    return r

# ---------------------------------------------------------------- commands

def decomp(sh, dt, diag=False, layout="C"):
    a = mk_array(sh, dt, layout)
    f = matrix_decomposition_diagonal if diag else matrix_decomposition
    return guard(lambda: _unchanged(lambda x: show_vec(f(x)), a))

def weight(p, dt, layout="C"):
    ent = parse_entries(dt)
    b = apply_layout(np.array([complex(to_float(a), to_float(c)) for a, c in ent], dtype=np.complex128), layout)
    P = mkp(p)
    return guard(lambda: _unchanged(lambda x: show_c(P.get_weight_in_matrix(x)), b))

def dlook(ps, sh, dt, diag=False, layout="C"):
    a = mk_array(sh, dt, layout)
    f = matrix_decomposition_diagonal if diag else matrix_decomposition
    try:
        w = f(a)
    except Exception as e:
        return exc_name(e)
    strs = [] if ps == "-" else ps.split(",")
    return ",".join(guard(lambda: show_c(mkp(s).get_weight_in_matrix(w))) for s in strs) if strs else "-"

def pweights(n, ip):
    def run():
        w = get_pauli_weights(int(n), int(ip))
        return ",".join(str(int(x)) for x in w) if len(w) else "-"
    return guard(run)

def infl(sh, dt, ws, layout="C"):
    a = mk_array(sh, dt, layout)
    w = np.array([int(x) for x in ws.split(",")] if ws != "-" else [], dtype=int)
    if "S" in layout.split(","):        # the weight table as a strided view as well
        w = apply_layout(w, "S")
    return guard(lambda: _unchanged(lambda x: show_float(average_pauli_weight(x, w)), a))

def probs(sh, dt, layout="C"):
    a = mk_array(sh, dt, layout)
    return guard(lambda: ",".join(show_float(abs(z) ** 2) for z in matrix_decomposition(a)))

def stats(sh, dt, layout="C"):
    """entropy and influence (with the package's own weight table) as exact renderings of the floats"""
    a = mk_array(sh, dt, layout)
    def run():
        n = int(a.shape[0]).bit_length() - 1 if a.ndim >= 1 else 0
        h = quantum_fourier_entropy(a)
        i = average_pauli_weight(a, get_pauli_weights(n))
        return f"H={show_float(h)} I={show_float(i)}"
    return guard(lambda: _unchanged(lambda x: run(), a))

def split_layout(line: str):
    """-> (line without layout tokens, layout string)"""
    t = line.split(" ")
    lay = [x[len("layout="):] for x in t if x.startswith("layout=")]
    return " ".join(x for x in t if not x.startswith("layout=")), (",".join(lay) or "C")

def handle(line: str) -> str:
    base, lay = split_layout(line)
    t = base.split(" ")
    if t[0] == "decomp": return decomp(t[1], t[2], layout=lay)
    if t[0] == "decompd": return decomp(t[1], t[2], diag=True, layout=lay)
    if t[0] == "weight": return weight(t[1], t[2], layout=lay)
    if t[0] == "dlook": return dlook(t[1], t[2], t[3], layout=lay)
    if t[0] == "dlookd": return dlook(t[1], t[2], t[3], diag=True, layout=lay)
    if t[0] == "pweights": return pweights(t[1], t[2])
    if t[0] == "infl": return infl(t[1], t[2], t[3], layout=lay)
    if t[0] == "probs": return probs(t[1], t[2], layout=lay)
    if t[0] == "stats": return stats(t[1], t[2], layout=lay)
    return "bad-op"
