"""Implementation side of the two-local table commands (mirror of Model/CmdTwoLocal.lean)."""
from __future__ import annotations
import re
from common import *
import impl_classify
from paulie.common.two_local_generators import G_LIE, two_local_algebras
from paulie.common.pauli_string_factory import get_pauli_string

def expansion(n: int, fam: str):
    """get_pauli_string(G_LIE[name], n=n) — the observable named by the property"""
    return get_pauli_string(G_LIE[fam], n=n)

def table_text(n: int, fam: str) -> str:
    t = two_local_algebras(n)[fam]
    return "None" if t is None else t

def handle(line: str) -> str:
    t = line.split(" ")
    if t[0] in ("tl", "tlclassify") and (len(t) != 3 or not re.fullmatch(r"[0-9]+", t[1])):
        return "bad-op"
    if t[0] == "tlgens" and len(t) != 2:
        return "bad-op"
    try:
        if t[0] == "tlgens":
            return ",".join(G_LIE[t[1]])
        if t[0] == "tl":
            n = int(t[1])
            if n < 3:
                return "out-of-domain"
            text = table_text(n, t[2])          # KeyError first, as in the model
            gens = guard(lambda: plist(expansion(n, t[2])))
            return f"gens={gens} table={text}"
        if t[0] == "tlclassify":
            n = int(t[1])
            if n < 3:
                return "out-of-domain"
            return impl_classify.classify_obj(expansion(n, t[2]))
    except Exception as e:
        return exc_name(e)
    return "bad-op"
