"""Decision table of the census -> name part of the classifier (properties C01, C09), appended to
Generated/Tables.lean by gen_tables.py: for every leg profile in a box
    (single legs, legs of length two, long leg, a second long leg)
the values of `Morph.counts()`, `Morph.get_properties()`, `Morph.get_algebra_properties()` and, for the
classification holding that one morph, the copy count in `get_algebra()` and `get_dla_dim()` — or None where the
call raises.  Proofs/TieCensus.lean proves the Lean model equal to this table (`decide +kernel`), so a change
of the Python table breaks a proof obligation on the next run."""
from __future__ import annotations
import re

ONE, TWO, LONGS = range(0, 7), range(0, 7), [0, 3, 4, 5, 6, 7, 8, 9, 10, 11, 12]

def opt(x):
    return "none" if x is None else f"(some {x})"

def tup(t):
    return "(" + ", ".join(str(int(v)) for v in t) + ")"

def tables():
    from paulie.classifier.classification import Morph, Classification, TypeGraph, TypeAlgebra
    from paulie.common.pauli_string_bitarray import PauliString
    tg = {TypeGraph.A: 0, TypeGraph.B1: 1, TypeGraph.B2: 2, TypeGraph.B3: 3, TypeGraph.NONE: 4}
    ta = {TypeAlgebra.U: 0, TypeAlgebra.SU: 1, TypeAlgebra.SP: 2, TypeAlgebra.SO: 3}
    names = {"u": 0, "su": 1, "sp": 2, "so": 3}
    p = PauliString(pauli_str="X")
    def guard(f):
        try:
            return f()
        except Exception:
            return None
    rows = []
    profiles = [(a, b, c, d) for a in ONE for b in TWO for c in LONGS for d in (0, 3)]
    profiles += [(-1, 0, 0, 0)]          # centre only: u(1)
    for (a, b, c, d) in profiles:
        if a < 0:
            legs, key = [[p]], (0, 0, 0, 9)          # marker 9: no leg besides the centre
        else:
            legs = [[p]] + [[p]] * a + [[p, p]] * b + ([[p] * c] if c else []) + ([[p] * d] if d else [])
            key = (a, b, c, d)
        m = Morph(legs, [])
        cnt = guard(lambda: m.counts())
        prop = guard(lambda: m.get_properties())
        alg = guard(lambda: m.get_algebra_properties())
        cl = Classification(); cl.add(m)
        name = guard(lambda: cl.get_algebra())
        dim = guard(lambda: cl.get_dla_dim())
        nm = None
        if name is not None:
            mm = re.fullmatch(r"(?:([0-9.]+)\*)?(u|su|sp|so)\(([0-9]+)\)", name)
            if mm and (mm.group(1) is None or re.fullmatch(r"[0-9]+", mm.group(1))):
                nm = (int(mm.group(1) or 1), names[mm.group(2)], int(mm.group(3)))
        rows.append("(" + ", ".join([
            tup(key),
            opt(tup(cnt)) if cnt is not None else "none",
            opt(tup((tg[prop[0]],) + tuple(prop[1:]))) if prop is not None else "none",
            opt(tup((ta[alg[0]],) + tuple(alg[1:]))) if alg is not None else "none",
            opt(tup(nm)) if nm is not None else "none",
            # the dimension is recorded together with a well-formed name only (no single leg gives the multiplicity 0.5:
            # "0.5*so(8)", dimension 14.0 -- a star without single legs is never produced by the builder; the model reports an error)
            opt(int(dim)) if (nm is not None and dim is not None and float(dim) == int(dim)) else "none"]) + ")")
    out = ["", "/-! census -> name decision table of the classifier (gen_tables_classifier.py) -/",
           "def censusTable : List ((Nat × Nat × Nat × Nat) × Option (Nat × Nat × Nat) × Option (Nat × Nat × Nat × Nat) × "
           "Option (Nat × Nat × Nat) × Option (Nat × Nat × Nat) × Option Nat) := ["]
    out.append(",\n".join("  " + r for r in rows))
    out.append("]")
    return out
