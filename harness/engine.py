"""Generic stream engine: corpus + generated cases are run through the model
executable and through the implementation; outputs are diffed; an independent
oracle evaluates the property on the implementation's own output."""
from __future__ import annotations
import json, os, random, time
from common import *

class Stream:
    """name; lines; impl(line)->str; oracle(line, impl_out)->None|str (why the
    property fails on the implementation); nontrivial(line, impl_out)->bool;
    shrink(line)->iterable of smaller candidate lines; tag(line, out)->str for
    the branch histogram; known(line, why)->None|str (known finding id)"""
    def __init__(self, name, lines, impl, oracle=None, nontrivial=None, shrink=None, tag=None,
                 model=True, batch_oracle=None, canon=None):
        self.name, self.lines, self.impl = name, lines, impl
        self.oracle, self.nontrivial, self.shrink, self.tag = oracle, nontrivial, shrink, tag
        self.model = model
        self.batch_oracle = batch_oracle   # (lines, impl_outs) -> [why|None]; used to batch verified-checker calls
        self.canon = canon                 # canonicalise the model's reply before diffing (strip model-only meta data)
        if batch_oracle and not oracle:
            self.oracle = lambda l, io: batch_oracle([l], [io])[0]

LINE_LIMIT_S = float(os.environ.get("VERIF_LINE_LIMIT_S", "60"))

def timed_impl(impl, line):
    """one protocol line on the implementation, under a time limit: a handler that does not come back (a mutated loop that
    never ends) answers `!Timeout` instead of hanging the check"""
    import signal, threading
    if threading.current_thread() is not threading.main_thread():
        return impl(line)
    def onalarm(signum, frame):
        raise CallTimeout()
    old = signal.signal(signal.SIGALRM, onalarm)
    signal.setitimer(signal.ITIMER_REAL, call_limit(LINE_LIMIT_S * LIMIT_SCALE["x"]))
    try:
        return impl(line)
    except CallTimeout:
        TIMEOUTS["seen"] += 1
        return "!Timeout"
    finally:
        signal.setitimer(signal.ITIMER_REAL, 0)
        signal.signal(signal.SIGALRM, old)

def timed_call(f, limit, *args):
    """f(*args) under a time limit; raises CallTimeout (oracles call into the implementation as well)"""
    import signal, threading
    if threading.current_thread() is not threading.main_thread():
        return f(*args)
    def onalarm(signum, frame):
        raise CallTimeout()
    old = signal.signal(signal.SIGALRM, onalarm)
    signal.setitimer(signal.ITIMER_REAL, limit)
    try:
        return f(*args)
    finally:
        signal.setitimer(signal.ITIMER_REAL, 0)
        signal.signal(signal.SIGALRM, old)

def _shrink(stream, line, still_bad, budget=300):
    if not stream.shrink:
        return line
    cur, n = line, 0
    improved = True
    while improved and n < budget:
        improved = False
        for cand in stream.shrink(cur):
            n += 1
            if n >= budget:
                break
            try:
                if still_bad(cand):
                    cur, improved = cand, True
                    break
            except Exception:
                continue
    return cur

def run_streams(res: Result, streams: list[Stream], broken, known_match=None, max_report=3):
    """broken: list of (what, detail) proof-obligation failures from prepare()."""
    model_ok = not any("lake build" in b[0] or "table generation" in b[0] for b in broken)
    divergences, failures = [], []
    res.cov.setdefault("streams", {})
    for st in streams:
        if not getattr(st, "_timed", False):     # every later use (shrinking, replays of the reduced line) is under the limit too
            st.impl = (lambda f: (lambda l: timed_impl(f, l)))(st.impl)
            if st.oracle:
                def timed_oracle(l, o, f=st.oracle):
                    try:
                        return timed_call(f, 20 * call_limit(LINE_LIMIT_S * LIMIT_SCALE["x"]), l, o)
                    except CallTimeout:
                        TIMEOUTS["seen"] += 1
                        return "the evaluation of the property on this reply called the implementation and did not return (Timeout)"
                st.oracle = timed_oracle
            st._timed = True
    for st in streams:
        t0 = time.time()
        impl_out = []
        for l in st.lines:
            impl_out.append(st.impl(l))
        model_out = None
        if model_ok and st.model:
            try:
                model_out = run_model(st.lines)
            except Exception as e:  # driver crashed: treat as broken correspondence
                broken = broken + [(f"model driver failed on stream {st.name}", str(e)[:500])]
        if model_out is not None and st.canon:
            model_out = [st.canon(m) for m in model_out]
        batch = None
        if st.batch_oracle and st.lines:
            try:
                batch = st.batch_oracle(st.lines, impl_out)
            except Exception:
                # evaluate line by line so that one unreadable reply does not take the whole stream down
                batch = []
                for l1, o1 in zip(st.lines, impl_out):
                    try:
                        batch.append(st.batch_oracle([l1], [o1])[0])
                    except Exception as e:
                        batch.append(f"the implementation's reply cannot be evaluated ({type(e).__name__}: {str(e)[:120]}); reply: {o1[:160]}")
        ndiv = 0
        for k, l in enumerate(st.lines):
            io = impl_out[k]
            nt = st.nontrivial(l, io) if st.nontrivial else True
            res.count(st.name + " " + l, nt)
            if st.tag:
                res.hist("branches", st.tag(l, io))
            if model_out is not None and model_out[k] != io:
                ndiv += 1
                if len(divergences) < 50:
                    divergences.append((st, l, model_out[k], io))
            if batch is not None:
                if batch[k]:
                    failures.append((st, l, io, batch[k]))
            elif st.oracle:
                try:
                    why = st.oracle(l, io)
                except Exception as e:     # a reply the oracle cannot even read (NaN, truncated text, ...) is a failed reply
                    why = f"the implementation's reply cannot be evaluated ({type(e).__name__}: {str(e)[:120]}); reply: {io[:160]}"
                if why:
                    failures.append((st, l, io, why))
        if st.lines:
            res.sample({"stream": st.name, "line": st.lines[len(st.lines) // 2][:400],
                        "impl": impl_out[len(st.lines) // 2][:400]}, cap=12)
        res.cov["streams"][st.name] = {"cases": len(st.lines), "divergences": ndiv,
                                       "compared_with_model": model_out is not None,
                                       "oracle_checked": bool(st.oracle), "wall_s": round(time.time() - t0, 2)}
    res.cov["traces_validated_against_impl"] = sum(v["cases"] for v in res.cov["streams"].values() if v["compared_with_model"])
    # ---- property failures on the implementation
    unmatched = 0
    seen_known = set()
    for st, l, io, why in failures:
        sig = known_match(st.name, l, why) if known_match else None
        kf = known_lookup(res.pid, sig) if sig else None
        if kf:
            if sig not in seen_known:
                seen_known.add(sig)
                res.known.append(f"[{sig}] {kf['what']} (e.g. {l[:120]})")
            res.hist("known_finding_cases", sig)
            continue
        unmatched += 1
        if unmatched <= max_report:
            def safe_oracle(c, o):
                try:
                    return st.oracle(c, o)
                except Exception as e:
                    return f"the implementation's reply cannot be evaluated ({type(e).__name__}); reply: {o[:160]}"
            small = _shrink(st, l, lambda c: bool(safe_oracle(c, st.impl(c))) and not (known_match and known_lookup(res.pid, known_match(st.name, c, safe_oracle(c, st.impl(c))))))
            sio = st.impl(small)
            res.violation(f"stream={st.name} {safe_oracle(small, sio) or why}"[:300],
                          {"kind": "property-fails-on-implementation", "stream": st.name, "line": small,
                           "original_line": l, "implementation_output": sio, "why": safe_oracle(small, sio) or why})
    # ---- broken tie without a failing input
    if unmatched == 0 and (divergences or broken):
        rep = {"kind": "proof-or-correspondence-broken", "broken_obligations": [list(b) for b in broken]}
        if divergences:
            st, l, mo, io = divergences[0]
            def still(c):
                m = run_model([c])[0]
                return (st.canon(m) if st.canon else m) != st.impl(c)
            small = _shrink(st, l, still) if model_ok else l
            rep.update({"stream": st.name, "line": small, "original_line": l,
                        "model_output": (lambda m: st.canon(m) if st.canon else m)(run_model([small])[0]) if model_ok else mo,
                        "implementation_output": st.impl(small),
                        "divergent_cases": len(divergences),
                        "searched": f"{res.cov['evaluations']} cases evaluated by the oracle on the implementation without a property failure"})
            what = f"correspondence stream {st.name} diverges"
        else:
            what = broken[0][0]
        res.violation(what, rep, no_input=True)
    return failures, divergences

POLLUTED_TAG = " @after-in-place-edits-of-handed-out-objects"

def polluted_variants(streams, rng, tier):
    """a sample of every stream asked again in a process in which objects HANDED OUT by earlier library calls (factory
    results, enumerations, commutants, products, copies and the lists they came in) have been edited in place: PauliStrings
    and lists are mutable, so every public function must hand out objects of its own; same oracle, same model comparison"""
    import pollute
    k = 150 if tier == "thorough" else 40
    out = []
    for st in streams:
        if not st.lines or getattr(st, "no_pollution", False):
            continue
        idx = sorted(rng.sample(range(len(st.lines)), min(k, len(st.lines))))
        state = {"done": 0}
        def impl(l, st=st, state=state):
            if state["done"] % 20 == 0:
                pollute.pollute_all(f"{st.name}:{state['done']}")
            state["done"] += 1
            return st.impl(l)
        v = Stream(st.name + POLLUTED_TAG, [st.lines[i] for i in idx], impl, oracle=st.oracle, nontrivial=st.nontrivial,
                   shrink=None, tag=(lambda l, o, st=st: "polluted:" + str(st.tag(l, o))) if st.tag else None, model=st.model,
                   batch_oracle=st.batch_oracle, canon=st.canon)
        out.append(v)
    return out

def standard_main(pid, tier, level, theorems, imports, build_streams, known_match=None, rule="", assumptions=()):
    res = Result(pid, tier, level)
    res.cov["rule"] = rule
    res.assumptions = list(assumptions)
    if level == "other":
        res.cov["explanation"] = ("partial proof + verified per-input decision: " + rule + " | not proved for all inputs: " + "; ".join(assumptions))
    if tier == "thorough" and "VERIF_LINE_LIMIT_S" not in os.environ:
        LIMIT_SCALE["x"] = 15.0
    try:
        broken, info = prepare(res, theorems, imports)
        rng = random.Random(seed() * 1000003 + int(pid[1:]))
        streams = build_streams(rng, tier)
        # minimised past failures first: lines on which a stored seeded change was caught (tools/harvest_corpus.py)
        reg = {}
        rp = os.path.join(VERIF, "corpus_regress", f"{pid}.jsonl")
        if os.path.exists(rp):
            for l in open(rp):
                if l.strip():
                    e = json.loads(l); reg.setdefault(e["stream"], []).append(e["line"])
        for st in streams:
            have = set(st.lines)
            extra = [l for l in dict.fromkeys(reg.get(st.name, [])) if l not in have]
            if extra:
                st.lines = extra + list(st.lines)
                res.cov.setdefault("regression_corpus_lines", {})[st.name] = len(extra)
        if os.environ.get("VERIF_NO_POLLUTION") != "1":
            streams = streams + polluted_variants(streams, random.Random(seed() * 7919 + int(pid[1:])), tier)
        run_streams(res, streams, broken, known_match)
    except Exception as e:
        traceback.print_exc()
        res.notes.append("infrastructure error: " + repr(e))
        res.finish()
        return 2
    return res.finish()
