"""Structured generators of Pauli-string collections (mostly valid, from the
repo's own notions: stars of legs, paths, commuting sets, unions, with
duplicates / identity / dependent products injected)."""
from __future__ import annotations
import itertools
import oracle as O

def rs(rng, n, wI=1):
    return "".join(rng.choice("I" * wI + "XYZ") for _ in range(n))

def realise(rng, m, edges, n=None):
    """Pauli strings v_0..v_{m-1} on m qubits whose anticommutation graph is `edges`:
    v_i = X_i * prod_{j<i, {i,j} in edges} Z_j ; then a random qubit permutation and
    per-qubit relabelling (graph automorphisms of the representation)."""
    adj = {(min(a, b), max(a, b)) for a, b in edges}
    strs = []
    for i in range(m):
        s = ["I"] * m
        s[i] = "X"
        for j in range(i):
            if (j, i) in adj:
                s[j] = "Z"
        strs.append(s)
    perm = list(range(m)); rng.shuffle(perm)
    relabel = [dict(zip("XYZ", rng.sample("XYZ", 3))) for _ in range(m)]
    out = []
    for s in strs:
        t = ["I"] * m
        for q, ch in enumerate(s):
            t[perm[q]] = ch if ch == "I" else relabel[q][ch]
        out.append("".join(t))
    return out

def star_edges(legs):
    """legs: list of leg lengths; vertex 0 = centre"""
    edges, k = [], 1
    for L in legs:
        prev = 0
        for _ in range(L):
            edges.append((prev, k)); prev = k; k += 1
    return k, edges

def mulstr(a, b):
    n = len(a)
    return O.dec(O.mul(O.enc(a), O.enc(b)), n)

def obfuscate(rng, gs, steps):
    """contraction moves (replace a by a*b for anticommuting b) keep the algebra"""
    gs = list(gs)
    for _ in range(steps):
        if len(gs) < 2:
            break
        i, j = rng.sample(range(len(gs)), 2)
        if O.anti(O.enc(gs[i]), O.enc(gs[j])):
            c = mulstr(gs[i], gs[j])
            if c not in gs:
                gs[i] = c
    return gs

def star_collection(rng, max_vertices):
    """canonical-type star (A: singles + one long leg; B: singles + twos + long leg of length <=4) """
    while True:
        kind = rng.choice("AAB")
        singles = rng.choice([0, 1, 1, 2, 2, 3, 4])
        if kind == "A":
            legs = [1] * singles + ([rng.randint(2, 6)] if rng.random() < 0.8 else [])
        else:
            legs = [1] * max(1, singles) + [2] * rng.randint(1, 3) + rng.choice([[], [2], [3], [4]])
        m, edges = star_edges(legs)
        if 1 <= m <= max_vertices:
            return realise(rng, m, edges)

def compact_bstar(rng, k, t, r=0):
    """B-type canonical star (k >= 1 single legs, t legs of length two, long leg r in {0, 3, 4}) realised by linearly
    independent strings on FEW qubits - the canonical realisation of lean/PauLieVerif/Proofs/C01TypeBTwins.lean:
    qubit 0: centre Z_0, first single leg X_0; leg s of length two: X_0 Z_s - X_s on its own qubit s; every further single leg
    X_0 Z_q on its own qubit; a long leg of 3 is a leg of length two continued by Z_s Z_p (own qubit p), a long leg of 4
    continues with X_p.  Vertices in leg order (centre, single legs, legs of length two, long leg); then a random qubit
    permutation and per-qubit relabelling."""
    assert k >= 1 and r in (0, 3, 4)
    pairs = t + (1 if r else 0)
    n = 1 + pairs + (k - 1) + (1 if r else 0)
    def st(d):
        return "".join(d.get(q, "I") for q in range(n))
    out = [st({0: "Z"}), st({0: "X"})]
    for i in range(k - 1):
        out.append(st({0: "X", 1 + pairs + i: "Z"}))
    for s_ in range(1, pairs + 1):
        out += [st({0: "X", s_: "Z"}), st({s_: "X"})]
    if r:
        out.append(st({pairs: "Z", n - 1: "Z"}))
        if r == 4:
            out.append(st({n - 1: "X"}))
    perm = list(range(n)); rng.shuffle(perm)
    relabel = [dict(zip("XYZ", rng.sample("XYZ", 3))) for _ in range(n)]
    res = []
    for s_ in out:
        u = ["I"] * n
        for q, ch in enumerate(s_):
            u[perm[q]] = ch if ch == "I" else relabel[q][ch]
        res.append("".join(u))
    return res

def collection(rng, maxn, maxk, kind=None):
    kind = kind or rng.choice(["random", "random", "sparse", "star", "star", "star+", "star-dep", "star-dep", "clo-dep", "path", "commuting", "union", "2local", "chain+", "chain+", "eq-summands", "eq-summands", "bstar", "bstar"])
    if kind == "bstar":
        # B-type stars on few qubits (sp / su / so(2^m) names), plain, shuffled or obfuscated by contractions, sometimes with a
        # dependent product, a duplicate or a spectator qubit
        opts = [(k, t, r) for k in (1, 2, 3) for t in (1, 2, 3) for r in (0, 3, 4)
                if (t >= 2 or r) and t + k + (2 if r else 0) <= maxn]
        if not opts:
            return collection(rng, maxn, maxk, "star")
        k, t, r = rng.choice(opts)
        gs = compact_bstar(rng, k, t, r)
        mode = rng.random()
        if mode < 0.3:
            rng.shuffle(gs)
        elif mode < 0.8:
            gs = obfuscate(rng, gs, rng.randint(1, 4 * len(gs)))
            rng.shuffle(gs)
        if rng.random() < 0.25:
            a, b = rng.sample(gs, 2)
            if O.anti(O.enc(a), O.enc(b)):
                gs.append(mulstr(a, b))
        if len(gs[0]) < maxn and rng.random() < 0.2:
            q = rng.randint(0, len(gs[0]))
            gs = [g[:q] + "I" + g[q:] for g in gs]
        return gs
    if kind == "random":
        n = rng.randint(1, maxn)
        return [rs(rng, n) for _ in range(rng.randint(1, maxk))]
    if kind == "sparse":
        n = rng.randint(min(2, maxn), maxn)
        return [rs(rng, n, 3) for _ in range(rng.randint(1, maxk))]
    if kind == "star":
        gs = star_collection(rng, maxn)
        rng.shuffle(gs)
        return gs
    if kind == "star+":
        gs = star_collection(rng, maxn)
        gs = obfuscate(rng, gs, rng.randint(0, 12))
        extra = []
        for _ in range(rng.randint(0, 4)):          # dependent products
            a, b = rng.choice(gs), rng.choice(gs)
            if O.anti(O.enc(a), O.enc(b)):
                extra.append(mulstr(a, b))
        gs = gs + extra
        r = rng.random()
        if r < 0.2:
            gs.append(rng.choice(gs))
        elif r < 0.35:
            gs.append("I" * len(gs[0]))
        rng.shuffle(gs)
        return gs
    if kind == "star-dep":
        # many single legs (+ optional long leg) plus members of the closure that are products of >= 3 generators:
        # dependents whose dependency avoids some of the legs
        singles = rng.randint(2, min(5, max(2, maxn - 1)))
        legs = [1] * singles + ([rng.randint(2, 3)] if rng.random() < 0.3 and singles + 3 <= maxn else [])
        m, edges = star_edges(legs)
        if m > maxn:
            m, edges = star_edges([1] * (maxn - 1))
        gs = realise(rng, m, edges)
        base = list(gs)
        for _ in range(rng.randint(1, 3)):
            k = rng.choice([3, 3, 3, 5, 2])
            sub = rng.sample(base, min(k, len(base)))
            acc = sub[0]
            for t in sub[1:]:
                acc = mulstr(acc, t)
            C = O.closure_strs(base) if len(base[0]) <= 6 else None
            if acc not in gs and acc != "I" * len(acc) and (C is None or acc in C):
                gs.append(acc)
        if rng.random() < 0.5:
            rng.shuffle(gs)
        return gs
    if kind == "clo-dep":
        gs = collection(rng, min(maxn, 5), max(2, maxk - 3), rng.choice(["random", "star", "star+", "path", "2local"]))
        gs = O.pad(gs)
        C = sorted(O.closure_strs(gs) - set(gs))
        for _ in range(rng.randint(1, 3)):
            if C:
                gs.append(rng.choice(C))
        if rng.random() < 0.7:
            rng.shuffle(gs)
        return gs
    if kind == "eq-summands":
        # disconnected union whose components get the SAME algebra name (copies of so(3)): stars K_{1,k} realised on k qubits
        # (centre X I.., legs Z I.., Z Z I.., Z I Z ..), k = 1 is a single edge {X, Z}; the copy counts 2^(k-1) must add up
        comps, left = [], maxn
        while left >= 1 and len(comps) < 3:
            k = rng.choice([x for x in (1, 1, 2, 3, 3, 3, 4) if x <= left])
            comps.append(k); left -= k
            if len(comps) >= 2 and rng.random() < 0.4:
                break
        n = sum(comps)
        out, off = [], 0
        for k in comps:
            loc = ["X" + "I" * (k - 1), "Z" + "I" * (k - 1)] + ["Z" + "I" * (i - 1) + "Z" + "I" * (k - 1 - i) for i in range(1, k)]
            out += ["I" * off + t + "I" * (n - off - k) for t in loc]
            off += k
        perm = list(range(n)); rng.shuffle(perm)
        relabel = [dict(zip("XYZ", rng.sample("XYZ", 3))) for _ in range(n)]
        res = []
        for t in out:
            u = ["I"] * n
            for q, ch in enumerate(t):
                u[perm[q]] = ch if ch == "I" else relabel[q][ch]
            res.append("".join(u))
        rng.shuffle(res)
        return res
    if kind == "chain+":
        # nearest-neighbour chain (two or three 2-local couplings translated along >= 5 qubits) plus long-range strings:
        # long legs that get cut and re-attached (steps IV / VI of the reduction)
        n = rng.randint(min(5, maxn), max(min(5, maxn), min(maxn, 8)))
        base = rng.sample(["ZZ", "ZX", "XZ", "XX", "YY", "XY", "YZ", "ZY", "YX"], rng.randint(2, 3))
        out = []
        for b in base:
            for k in range(n - 1):
                st = "I" * k + b + "I" * (n - 2 - k)
                if st not in out:
                    out.append(st)
        for _ in range(rng.randint(1, 2)):
            st = rs(rng, n, 2)
            if st not in out and st != "I" * n:
                out.append(st)
        r = rng.random()
        if r < 0.4:
            rng.shuffle(out)
        elif r < 0.7:
            out = out[-2:] + out[:-2]
        return out
    if kind == "path":
        m = rng.randint(min(2, maxn), maxn)
        return realise(rng, m, [(i, i + 1) for i in range(m - 1)])
    if kind == "commuting":
        n = rng.randint(1, maxn)
        pool = "IZ" if rng.random() < 0.5 else "IX"
        return [("".join(rng.choice(pool) for _ in range(n))) for _ in range(rng.randint(1, maxk))]
    if kind == "union":
        a = collection(rng, max(1, maxn // 2), max(1, maxk // 2), rng.choice(["random", "star", "path"]))
        b = collection(rng, max(1, maxn - len(a[0])), max(1, maxk // 2), rng.choice(["random", "star", "commuting"]))
        na, nb = len(a[0]), len(b[0])
        gs = [x + "I" * nb for x in a] + ["I" * na + y for y in b]
        rng.shuffle(gs)
        return gs
    if kind == "2local":
        n = rng.randint(2, max(2, maxn))
        base = [rs(rng, 2) for _ in range(rng.randint(1, 3))] + ([rng.choice("XYZ") + "I"] if rng.random() < 0.4 else [])
        out = []
        for b in base:
            for k in range(n - 1):
                s = "I" * k + b + "I" * (n - 2 - k)
                if s not in out:
                    out.append(s)
        return out
    raise ValueError(kind)

def line_of(cmd, gs, *rest):
    return " ".join([cmd, ",".join(g or "-" for g in gs) or "-", *rest])
