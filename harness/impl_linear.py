"""Implementation side of the linear-combination commands (mirror of Model/CmdLinear.lean).

coefficient `a_b_d` = (a + b i)/d exactly; the Python value handed to the library is an `int`
(b = 0, d = 1), a `float` (b = 0) or a `complex`, so that all three scalar types the library
accepts are exercised.  A second spelling `x<hex>~<hex>` carries arbitrary doubles (generic-float
stream, never sent to the model).  Results are rendered exactly (`float.as_integer_ratio`)."""
from __future__ import annotations
from fractions import Fraction
from math import lcm
import numpy as np
from common import *
from paulie.common.pauli_string_bitarray import PauliString
from paulie.common.pauli_string_linear import PauliStringLinear

def coef_in(tok: str):
    if tok.startswith("x"):
        r, i = tok[1:].split("~")
        return complex(float.fromhex(r), float.fromhex(i))
    a, b, d = (int(x) for x in tok.split("_"))
    if b == 0 and d == 1:
        return a
    if b == 0:
        return a / d
    return complex(a / d, b / d)

def coef_exact(tok: str):
    """(Fraction re, Fraction im) of an input token"""
    if tok.startswith("x"):
        r, i = tok[1:].split("~")
        return Fraction(float.fromhex(r)), Fraction(float.fromhex(i))
    a, b, d = (int(x) for x in tok.split("_"))
    return Fraction(a, d), Fraction(b, d)

def coef_out(z) -> str:
    z = complex(z)
    if not (np.isfinite(z.real) and np.isfinite(z.imag)):
        return "?" + repr(z)
    re, im = Fraction(z.real), Fraction(z.imag)
    d = lcm(re.denominator, im.denominator)
    return f"{re.numerator * (d // re.denominator)}_{im.numerator * (d // im.denominator)}_{d}"

def terms_in(s: str):
    if s == "-":
        return []
    out = []
    for t in s.split(","):
        c, p = t.split("*")
        out.append((coef_in(c), "" if p == "-" else p))
    return out

def mk(s: str) -> PauliStringLinear:
    return PauliStringLinear(terms_in(s))

def show_lin(x) -> str:
    if not isinstance(x, PauliStringLinear):
        return "?" + type(x).__name__
    if not x.combinations:
        return "-"
    return ",".join(f"{coef_out(c)}*{pstr(p)}" for c, p in x.combinations)

def show_mat(m) -> str:
    m = np.asarray(m)
    if m.ndim != 2:
        return "?shape" + repr(m.shape)
    return ";".join(",".join(coef_out(x) for x in row) for row in m)

def B(b) -> str:
    if b is True or b is np.True_:
        return "T"
    if b is False or b is np.False_:
        return "F"
    return "?" + repr(b)

def lin1(a: str, c: str, p: str) -> str:
    sc = coef_in(c)
    P = PauliString(pauli_str="" if p == "-" else p)
    f = []
    f.append("h=" + guard(lambda: show_lin(mk(a).h)))
    f.append("tr=" + guard(lambda: coef_out(mk(a).trace())))
    f.append("simp=" + guard(lambda: show_lin(mk(a).simplify())))
    f.append("zero=" + guard(lambda: B(mk(a).is_zero())))
    def smul():
        x = mk(a)
        l, r = x * sc, sc * x
        sl, sr = show_lin(l), show_lin(r)
        return sl if sl == sr else f"?mul/rmul differ {sl} {sr}"
    f.append("smul=" + guard(smul))
    f.append("kron=" + guard(lambda: show_lin(mk(a).kron(P))))
    f.append("rkron=" + guard(lambda: show_lin(mk(a).rkron(P))))
    f.append("quad=" + guard(lambda: show_lin(mk(a).quadratic(P))))
    f.append("mat=" + guard(lambda: show_mat(mk(a).get_matrix())))
    f.append("str=" + guard(lambda: str(mk(a))))
    return " | ".join(f)

def lin2(a: str, b: str) -> str:
    f = []
    def mm():
        if a == b:            # the same object on both sides (a @ a)
            x = mk(a)
            same = show_lin(x @ x)
            other = show_lin(mk(a) @ mk(b))
            return same if same == other else f"?a@a differs from a@copy {same} {other}"
        return show_lin(mk(a) @ mk(b))
    f.append("mm=" + guard(mm))
    f.append("add=" + guard(lambda: show_lin(mk(a) + mk(b))))
    def iadd():
        x = mk(a); y = x
        x += mk(b)
        return show_lin(x) if x is y else "?iadd rebinds"
    f.append("iadd=" + guard(iadd))
    def eq():
        x, y = mk(a), mk(b)
        r1, r2 = x == y, y == x
        return B(r1) if r1 is r2 or r1 == r2 else f"?eq not symmetric {r1} {r2}"
    f.append("eq=" + guard(eq))
    return " | ".join(f)

def text_terms(s: str):
    """combination whose strings are raw texts for the parser (hex coded)"""
    if s == "-":
        return []
    out = []
    for t in s.split(","):
        c, p = t.split("*")
        out.append((coef_in(c), unhx(p)))
    return out

def obs(x) -> str:
    if not isinstance(x, PauliStringLinear):
        return "?" + type(x).__name__
    f = []
    f.append("tr=" + guard(lambda: coef_out(x.trace())))
    f.append("size=" + guard(lambda: str(x.get_size())))
    f.append("len=" + guard(lambda: str(len(x))))
    f.append("zero=" + guard(lambda: B(x.is_zero())))
    f.append("simp=" + guard(lambda: show_lin(x.simplify())))
    f.append("sq=" + guard(lambda: show_lin(x @ x.h)))
    f.append("mat=" + guard(lambda: show_mat(x.get_matrix())))
    f.append("str=" + guard(lambda: str(x)))
    return " | ".join(f)

def linhist(line: str) -> str:
    parts = line[8:].split("|")
    outs = []
    try:
        x = PauliStringLinear(text_terms(parts[0])); st = "ok"
    except Exception as e:
        x = PauliStringLinear([]); st = exc_name(e)
    outs.append(st + "@" + obs(x))
    for op in parts[1:]:
        t = op.split(" ")
        st = "ok"
        try:
            if t[0] == "iadd":
                y = PauliStringLinear(text_terms(t[1]))
                old = x
                x += y
                if x is not old: st = "?iadd rebinds"
            elif t[0] == "add":
                x = x + PauliStringLinear(text_terms(t[1]))
            elif t[0] == "cancel":
                x = x + x * (-1)
            elif t[0] == "smul":
                x = x * coef_in(t[1])
            elif t[0] == "mm":
                x = x @ PauliStringLinear(text_terms(t[1]))
            elif t[0] == "rmm":
                x = PauliStringLinear(text_terms(t[1])) @ x
            elif t[0] == "simp":
                x = x.simplify()
            elif t[0] == "h":
                x = x.h
            else:
                return "bad-op"
        except Exception as e:
            st = exc_name(e)
        outs.append(st + "@" + obs(x))
    return " || ".join(outs)

def handle(line: str) -> str:
    t = line.split(" ")
    if t[0] == "lin1" and len(t) == 4: return lin1(t[1], t[2], t[3])
    if t[0] == "lin2" and len(t) == 3: return lin2(t[1], t[2])
    if t[0] == "linhist": return linhist(line)
    return "bad-op"
