"""Shared machinery of the PauLie verification harness.

Every check goes through `run_check(spec)`:
  0 regenerate Generated/Tables.lean from /repo (gen_tables.py)
  1 `lake build` (proof obligations + model executable)         -- under a file lock
  2 hygiene grep + axiom audit of the property theorems
  3 corpus + correspondence stream (model executable vs. implementation)
  4 property evaluation on the implementation by an independent oracle
  5 evidence + KNOWN-FINDING / VIOLATION lines
"""
from __future__ import annotations
import fcntl, hashlib, json, os, random, re, subprocess, sys, time, traceback

VERIF = os.path.dirname(os.path.dirname(os.path.abspath(__file__)))
REPO = os.environ.get("PAULIE_REPO", "/repo")
LEAN = os.path.join(VERIF, "lean")
MODEL_EXE = os.path.join(LEAN, ".lake", "build", "bin", "paulie_model")
EVID = os.path.join(VERIF, "evidence")
REPLAY = os.path.join(VERIF, "replay")
CORPUS = os.path.join(VERIF, "corpus")
ALLOWED_AXIOMS = {"propext", "Classical.choice", "Quot.sound"}

sys.path.insert(0, os.path.join(REPO, "src"))
os.environ.setdefault("PAULIE_VERIF", "1")

def seed() -> int:
    try:
        return int(os.environ.get("VERIF_SEED", "0"))
    except ValueError:
        return 0

def sh(cmd, cwd=None, timeout=None, env=None):
    e = dict(os.environ)
    if env:
        e.update(env)
    p = subprocess.run(cmd, cwd=cwd, shell=isinstance(cmd, str), capture_output=True, text=True,
                       timeout=timeout, env=e)
    out = "\n".join(l for l in (p.stdout + p.stderr).splitlines() if "WARNING" not in l or "conda" not in l.lower())
    return p.returncode, out

class Lock:
    def __init__(self, name="build"):
        self.path = os.path.join(LEAN, f".{name}.lock")
    def __enter__(self):
        self.f = open(self.path, "w")
        fcntl.flock(self.f, fcntl.LOCK_EX)
    def __exit__(self, *a):
        fcntl.flock(self.f, fcntl.LOCK_UN)
        self.f.close()

# ---------------------------------------------------------------- build / audit

def gen_tables():
    """Regenerate Generated/Tables.lean from the live package (fresh subprocess
    so that the import is of the current working tree)."""
    rc, out = sh([sys.executable, os.path.join(VERIF, "harness", "gen_tables.py")], timeout=600)
    return rc == 0, out

def lake_build(modules=()):
    """Builds the library, the model executable and — explicitly, so that no stale
    .olean can be picked up by the audit — every module the audit imports."""
    extra = " ".join("+" + m for m in modules)
    rc, out = sh(f"lake build PauLieVerif paulie_model {extra}", cwd=LEAN, timeout=3600)
    return rc == 0, out

_HYGIENE = re.compile(r"\b(sorry|admit|native_decide|bv_decide|implemented_by|unsafe|maxHeartbeats\s+0)\b|^\s*axiom\s", re.M)

def strip_comments(src: str) -> str:
    # remove nested /- -/ block comments and -- line comments
    out, i, depth = [], 0, 0
    while i < len(src):
        if src.startswith("/-", i):
            depth += 1; i += 2; continue
        if depth and src.startswith("-/", i):
            depth -= 1; i += 2; continue
        if depth:
            i += 1; continue
        if src.startswith("--", i):
            j = src.find("\n", i)
            i = len(src) if j < 0 else j
            continue
        out.append(src[i]); i += 1
    return "".join(out)

def hygiene():
    bad = []
    for root, _, files in os.walk(os.path.join(LEAN, "PauLieVerif")):
        for f in files:
            if f.endswith(".lean"):
                p = os.path.join(root, f)
                code = strip_comments(open(p).read())
                # string literals may mention the words; drop them
                code = re.sub(r'"(\\.|[^"\\])*"', '""', code)
                for m in _HYGIENE.finditer(code):
                    bad.append(f"{os.path.relpath(p, LEAN)}: {m.group(0).strip()}")
    for p in [os.path.join(LEAN, "Main.lean")]:
        code = strip_comments(open(p).read())
        code = re.sub(r'"(\\.|[^"\\])*"', '""', code)
        for m in _HYGIENE.finditer(code):
            bad.append(f"Main.lean: {m.group(0).strip()}")
    return bad

def audit(theorems: list[str], imports: list[str]):
    """`#print axioms` for each theorem; returns {thm: [axioms]} or error text."""
    if not theorems:
        return {}, ""
    src = "".join(f"import {m}\n" for m in imports) + "".join(f"#print axioms {t}\n" for t in theorems)
    h = hashlib.sha1(src.encode()).hexdigest()[:12]
    path = os.path.join(LEAN, ".lake", f"audit_{h}_{os.getpid()}.lean")
    os.makedirs(os.path.dirname(path), exist_ok=True)
    open(path, "w").write(src)
    try:
        rc, out = sh(f"lake env lean {path}", cwd=LEAN, timeout=1800)
    finally:
        try: os.remove(path)
        except OSError: pass
    res = {}
    # "'thm' depends on axioms: [a, b]" or "'thm' does not depend on any axioms"
    flat = re.sub(r"\s+", " ", out)
    for t in theorems:
        m = re.search(r"'" + re.escape(t) + r"' depends on axioms: \[([^\]]*)\]", flat)
        if m:
            res[t] = [a.strip() for a in m.group(1).split(",") if a.strip()]
        elif re.search(r"'" + re.escape(t) + r"' does not depend on any axioms", flat):
            res[t] = []
        else:
            res[t] = None
    return res, out

# ---------------------------------------------------------------- model driver

def _run_model_chunk(lines: list[str]) -> list[str]:
    p = subprocess.run([MODEL_EXE], input="\n".join(lines) + "\n", capture_output=True, text=True,
                       timeout=7200)
    out = p.stdout.split("\n")
    if out and out[-1] == "":
        out.pop()
    if p.returncode != 0 or len(out) != len(lines):
        raise RuntimeError(f"model driver failed rc={p.returncode} got {len(out)} lines for {len(lines)}: {p.stderr[:500]}")
    return out

MODEL_JOBS = max(1, min(12, (os.cpu_count() or 2) - 2))

def run_model(lines: list[str]) -> list[str]:
    """pipes the lines through the compiled model; long batches are split over several driver processes
    (the driver is stateless: one line in, one line out), order preserved"""
    if not lines:
        return []
    for l in lines:
        assert "\n" not in l
    if len(lines) < 64 or MODEL_JOBS == 1:
        return _run_model_chunk(lines)
    from concurrent.futures import ThreadPoolExecutor
    k = min(MODEL_JOBS, max(1, len(lines) // 16))
    # interleave so that expensive neighbouring lines are spread over the workers
    chunks = [lines[i::k] for i in range(k)]
    with ThreadPoolExecutor(max_workers=k) as ex:
        res = list(ex.map(_run_model_chunk, chunks))
    out = [None] * len(lines)
    for i, r in enumerate(res):
        out[i::k] = r
    return out

# ---------------------------------------------------------------- text helpers

def hx(text: str) -> str:
    return ".".join(format(ord(c), "x") for c in text) if text else "-"

def unhx(s: str) -> str:
    return "" if s == "-" else "".join(chr(int(h, 16)) for h in s.split("."))

def pstr(p) -> str:
    s = str(p)
    return s if s else "-"

def plist(ps) -> str:
    l = [pstr(p) for p in ps]
    return ",".join(l) if l else "-"

def bits(b) -> str:
    s = b.to01()
    return s if s else "-"

def exc_name(e: BaseException) -> str:
    return "!" + type(e).__name__

class CallTimeout(BaseException):
    """an implementation call did not return within CALL_LIMIT_S (derived from BaseException: the library has bare
    `except Exception` handlers that would otherwise swallow it and carry on)"""

CALL_LIMIT_S = float(os.environ.get("VERIF_CALL_LIMIT_S", "12"))
TIMEOUTS = {"seen": 0}
LIMIT_SCALE = {"x": 1.0}      # the thorough tier has legitimately heavy calls (4^5 strings, pairwise): its limits are 15 times longer

def call_limit(base):
    """the limit shrinks once calls have timed out (a tree on which calls hang would otherwise cost limit x cases): after 3
    time-outs 2 s, after 25 a tenth of a second — by then the hang is established and reported"""
    n = TIMEOUTS["seen"]
    return base if n < 3 else (min(base, 2.0) if n < 25 else 0.1)

def guard(f):
    """runs one call into the implementation; an exception becomes `!<TypeName>`; a call that does not return within
    CALL_LIMIT_S becomes `!Timeout` (every property here implies termination; a hang must be a reply, not a hung check)"""
    import signal, threading
    use_alarm = threading.current_thread() is threading.main_thread()
    if use_alarm:
        def onalarm(signum, frame):
            raise CallTimeout()
        old = signal.signal(signal.SIGALRM, onalarm)
        prev = signal.setitimer(signal.ITIMER_REAL, call_limit(CALL_LIMIT_S * LIMIT_SCALE["x"]))
    try:
        return f()
    except RecursionError:
        raise
    except CallTimeout:
        TIMEOUTS["seen"] += 1
        return "!Timeout"
    except Exception as e:  # noqa
        return exc_name(e)
    finally:
        if use_alarm:
            # restore an enclosing guard's timer (with what is left of it) or switch the timer off
            signal.setitimer(signal.ITIMER_REAL, prev[0] if prev and prev[0] > 0 else 0)
            signal.signal(signal.SIGALRM, old)

# ---------------------------------------------------------------- known findings

def load_known():
    p = os.path.join(VERIF, "known_findings.json")
    if not os.path.exists(p):
        return {"findings": [], "fixed": []}
    return json.load(open(p))

_KNOWN = None
def known_lookup(pid, sig):
    """A failure is suppressed only if (property, signature) is listed in the
    committed known_findings.json; the file is never written at run time."""
    global _KNOWN
    if sig is None:
        return None
    if _KNOWN is None:
        _KNOWN = load_known()
    for f in _KNOWN.get("findings", []):
        if f.get("property") == pid and f.get("signature") == sig:
            return f
    return None

def corpus_lines(pid: str) -> list[str]:
    p = os.path.join(CORPUS, f"{pid}.jsonl")
    out = []
    if os.path.exists(p):
        for l in open(p):
            l = l.strip()
            if l:
                out.append(json.loads(l)["line"])
    return out

# ---------------------------------------------------------------- result object

class Result:
    def __init__(self, pid, tier, level):
        self.pid, self.tier, self.level = pid, tier, level
        self.t0 = time.time()
        self.violations = []     # (message, replay dict)
        self.known = []          # messages
        self.cov = {"evaluations": 0, "distinct_nontrivial": 0, "rule": "", "samples": []}
        self.assumptions = []
        self.notes = []
        self._distinct = set()

    def count(self, case: str, nontrivial: bool):
        self.cov["evaluations"] += 1
        if nontrivial:
            h = hashlib.sha1(case.encode()).digest()[:8]
            self._distinct.add(h)

    def sample(self, x, cap=6):
        if len(self.cov["samples"]) < cap:
            self.cov["samples"].append(x)

    def hist(self, key, sub):
        d = self.cov.setdefault(key, {})
        d[sub] = d.get(sub, 0) + 1

    def violation(self, msg: str, replay: dict, no_input=False):
        self.violations.append((msg, replay, no_input))

    def finish(self) -> int:
        os.makedirs(EVID, exist_ok=True)
        os.makedirs(REPLAY, exist_ok=True)
        self.cov["distinct_nontrivial"] = len(self._distinct)
        for m in self.known:
            print(f"KNOWN-FINDING: property={self.pid} {m}")
        for k, (msg, replay, no_input) in enumerate(self.violations[:5]):
            path = os.path.join(REPLAY, f"{self.pid}_{k}.json")
            replay = dict(replay)
            replay.update({"property": self.pid, "message": msg, "seed": seed(), "tier": self.tier})
            json.dump(replay, open(path, "w"), indent=1, default=str)
            tail = " no-failing-input-found" if no_input else ""
            print(f"VIOLATION property={self.pid} replay={path} {msg}{tail}")
        ev = {
            "property_id": self.pid, "tier": self.tier, "seed": seed(), "level": self.level,
            "coverage": self.cov, "assumptions": self.assumptions,
            "wall_s": round(time.time() - self.t0, 2), "violations": len(self.violations),
            "known_findings_seen": self.known, "notes": self.notes,
        }
        json.dump(ev, open(os.path.join(EVID, f"{self.pid}.json"), "w"), indent=1, default=str)
        return 1 if self.violations else 0

TRUSTED_BASE = [
    "Lean 4.33 kernel (leanchecker re-check in the thorough tier)",
    "axioms of each property theorem ⊆ {propext, Classical.choice, Quot.sound} (audited by #print axioms on every run); no native_decide/bv_decide/sorry/own axioms (source grep on every run)",
    "hand-written Lean model of the Python code; tie = differential correspondence over the line protocol (this harness) + tables regenerated from the live package",
    "Python harness (generators, canonicalisation, diff), bitarray/networkx/numpy as used by the package",
    "Lean compiler/runtime for verdicts computed by the compiled model executable",
]

def prepare(res: Result, theorems: list[str], imports: list[str]):
    """Steps 0-2.  Returns (ok, info).  A failure is recorded as a broken proof
    obligation (the caller then runs the failing-input search)."""
    info = {"tables": None, "build": None, "hygiene": [], "axioms": {}}
    broken = []
    with Lock():
        ok, out = gen_tables()
        info["tables"] = ok
        if not ok:
            broken.append(("table generation failed", out[-2000:]))
        ok, out = lake_build(imports)
        info["build"] = ok
        if not ok:
            errs = [l for l in out.splitlines() if "error" in l.lower()][:20]
            broken.append(("lake build failed (a theorem or the model no longer checks)", "\n".join(errs) or out[-2000:]))
    bad = hygiene()
    info["hygiene"] = bad
    if bad:
        broken.append(("forbidden construct in Lean sources", "; ".join(bad[:10])))
    discharged = 0
    if info["build"]:
        ax, raw = audit(theorems, imports)
        info["axioms"] = ax
        for t in theorems:
            a = ax.get(t)
            if a is None:
                broken.append((f"theorem {t} not found by the audit", raw[-800:]))
            elif not set(a) <= ALLOWED_AXIOMS:
                broken.append((f"theorem {t} depends on disallowed axioms {a}", ""))
            else:
                discharged += 1
    # thorough tier: the compiled modules holding this property's theorems are replayed by `leanchecker`, the toolchain's
    # independent re-checker of .olean files (guards against a compiled file that does not match what the kernel accepted)
    if res.tier == "thorough" and info["build"] and os.environ.get("VERIF_NO_LEANCHECKER") != "1":
        t0 = time.time()
        mods = [m for m in dict.fromkeys(imports) if m.startswith("PauLieVerif.")]
        try:
            p = subprocess.run(["lake", "env", "leanchecker"] + mods, cwd=LEAN, capture_output=True, text=True, timeout=1800)
            okc = p.returncode == 0
            tail = (p.stdout + p.stderr)[-600:]
        except Exception as e:
            okc, tail = False, repr(e)
        res.cov["leanchecker"] = {"modules": len(mods), "ok": okc, "wall_s": round(time.time() - t0, 1)}
        if not okc:
            broken.append(("leanchecker rejected a compiled module of this property", tail))
    res.cov["obligations"] = len(theorems)
    res.cov["discharged"] = discharged
    res.cov["theorems"] = {t: info["axioms"].get(t) for t in theorems}
    res.cov["checker_cmd"] = "cd lean && lake build PauLieVerif paulie_model && lake env lean <#print axioms file>"
    res.cov["trusted_base"] = TRUSTED_BASE
    return broken, info
