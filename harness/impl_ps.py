"""Implementation side of the substrate commands (mirror of Model/CmdPS.lean)."""
from __future__ import annotations
import numpy as np
from common import *
from paulie.common.pauli_string_bitarray import PauliString

def mk(s: str) -> PauliString:
    return PauliString(pauli_str="" if s == "-" else s)

def phase_k(z) -> str:
    for k in range(4):
        if abs(complex(z) - (-1j) ** k) < 1e-12:
            return str(k)
    return "?" + repr(z)

def sgn_k(z) -> str:
    if z == 1: return "0"
    if z == -1: return "1"
    return "?" + repr(z)

def B(b: bool) -> str:
    return "T" if b else "F"

def show_opt(x):
    return "None" if x is None else pstr(x)

def pair_of(P, Q) -> str:
    sg = guard(lambda: phase_k(P.sign(Q)))
    cm = guard(lambda: B(P.commutes_with(Q)))
    ml = guard(lambda: pstr(P.multiply(Q)))
    ad = guard(lambda: show_opt(P.adjoint_map(Q)))
    cj = guard(lambda: sgn_k(P.complex_conj()[0]))
    return f"sign={sg} comm={cm} mul={ml} adj={ad} conj={cj}"

def pair(p: str, q: str) -> str:
    return pair_of(mk(p), mk(q))

def gi(z) -> str:
    z = complex(z)
    return f"{int(round(z.real))}:{int(round(z.imag))}" if (z.real == round(z.real) and z.imag == round(z.imag)) else repr(z)

def mat(p: str) -> str:
    m = mk(p).get_matrix()
    if m is None:           # empty string: reduce() over nothing
        return "1:0"
    return ";".join(",".join(gi(x) for x in row) for row in np.asarray(m))

def dump(P) -> str:
    return f"{pstr(P)}/{bits(P.bits)}/{bits(P.bits_even)}/{bits(P.bits_odd)}"

def hist(line: str) -> str:
    parts = line[5:].split("|")
    s = mk(parts[0])
    outs = [dump(s)]
    for op in parts[1:]:
        t = op.split(" ")
        r = "ok"
        try:
            if t[0] == "set":
                s.set_substring(int(t[1]), unhx(t[2]))
            elif t[0] == "setps":
                s.set_substring(int(t[1]), mk(t[2]))
            elif t[0] == "inc":
                r0 = s.inc()
                assert r0 is s
            elif t[0] == "getsub":
                r = dump(s.get_substring(int(t[1]), int(t[2])))
            elif t[0] == "iter":
                r = "[" + ",".join(dump(x) for x in s) + "]"
            elif t[0] == "tensor":
                old, other = s, mk(t[1])
                s = s.tensor(other)
                assert s is not old and s is not other
            elif t[0] == "rtensor":
                s = mk(t[1]) + s
            elif t[0] == "expand":
                s = s.expand(int(t[1]))
            elif t[0] == "copy":
                old = s
                s = s.copy()
                assert s is not old and s.bits is not old.bits
            elif t[0] == "obs":
                q = mk(t[1])
                idx = guard(lambda: str(s.get_index()))
                didx = guard(lambda: str(s.get_diagonal_index()))
                cnt = guard(lambda: str(s.get_count_non_trivially()))
                r = (f"eq={B(s == q)} lt={B(s < q)} le={B(s <= q)} gt={B(s > q)} ge={B(s >= q)} ne={B(s != q)} "
                     f"len={len(s)} idx={idx} didx={didx} cnt={cnt} id={B(s.is_identity())} {pair_of(s, q)} "
                     f"rsign={guard(lambda: phase_k(q.sign(s)))}")
            else:
                return "bad-op"
        except Exception as e:
            r = exc_name(e)
        outs.append(r + "@" + dump(s))
    return ";".join(outs)

def genall(n: int) -> str:
    return ",".join(f"{pstr(p)}:{guard(lambda: str(p.get_index()))}" for p in PauliString(n=n).gen_all_pauli_strings())

def parse(h: str, n=None) -> str:
    return guard(lambda: pstr(PauliString(pauli_str=unhx(h), n=n)))

def pyint(h: str) -> str:
    try:
        return str(int(unhx(h)))
    except ValueError:
        return "None"

def handle(line: str) -> str:
    t = line.split(" ")
    if t[0] == "pair": return pair(t[1], t[2])
    if t[0] == "mat": return mat(t[1])
    if t[0] == "hist": return hist(line)
    if t[0] == "genall": return genall(int(t[1]))
    if t[0] == "parse": return parse(t[1])
    if t[0] == "parsen": return parse(t[1], int(t[2]))
    if t[0] == "pyint": return pyint(t[1])
    return "bad-op"
