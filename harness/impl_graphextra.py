"""Implementation side of the graph-helper commands (mirror of Model/CmdGraphExtra.lean)."""
from __future__ import annotations
from common import *
from impl_graph import strs, coll
from paulie.common.pauli_string_bitarray import PauliString
from paulie.common.pauli_string_collection import PauliStringCollection
from paulie.application.charges import non_commuting_charges
import networkx as nx

def ps(arg):
    return PauliString(pauli_str="" if arg == "-" else arg)

def opt_list(arg):
    return None if arg == "None" else [PauliString(pauli_str=s) for s in strs(arg)]

def opt_coll(arg):
    return None if arg == "None" else coll(arg)

def pairs(l):
    assert isinstance(l, list)
    out = sorted(f"{pstr(a)}~{pstr(b)}" for a, b in l)
    return ",".join(out) if out else "-"

def as_list(r):
    """a result that must be a list / a collection of PauliString"""
    assert isinstance(r, (list, PauliStringCollection)), type(r)
    return plist(r.get() if isinstance(r, PauliStringCollection) else r)

def handle(line: str) -> str:
    t = line.split(" ")
    try:
        if t[0] == "pscomm":
            return as_list(ps(t[1]).get_commutants(opt_list(t[2])))
        if t[0] == "psanti":
            return as_list(ps(t[1]).get_anti_commutants(opt_list(t[2])))
        if t[0] == "nested":
            return pairs(ps(t[1]).get_nested(opt_list(t[2])))
        if t[0] == "anticommutants":
            c = coll(t[1])
            h = c if t[2] == "self" else opt_coll(t[2])
            return as_list(c.get_anti_commutants(h))
        if t[0] == "commutates":
            return as_list(coll(t[1]).get_commutates(ps(t[2]), opt_coll(t[3])))
        if t[0] == "anticommutates":
            return as_list(coll(t[1]).get_anti_commutates(ps(t[2]), opt_coll(t[3])))
        if t[0] == "frame":
            c = coll(t[1])
            fp = c.get_frame_potential()
            v, e = c.get_commutator_graph()
            g = nx.Graph(); g.add_nodes_from(v); g.add_edges_from(e)
            nc, ni = nx.number_connected_components(g), len(list(nx.isolates(g)))
            assert isinstance(fp, int)
            # the two factors are recomputed from the library's own graph with the same networkx calls; the
            # product reported is the library's
            return f"comps={nc} iso={ni} fp={fp}"
        if t[0] == "charges":
            return as_list(non_commuting_charges(coll(t[1])))
    except RecursionError:
        raise
    except Exception as e:
        return exc_name(e)
    return "bad-op"
