"""Implementation side of the C15 commands (mirror of Model/CmdOtoc.lean).

The library functions return one float each (`1 - 2*a/s`, `sum/size`).  The
protocol compares integer pairs, so the float is canonicalised here: the orbit
SIZE `s` is recomputed by an independent enumerator (`orbit`, below — bitmask
integers, nothing of the package), the numerator is then read off the
implementation's float (`a = round((1-f)/2*s)`) and accepted only if the float
is within 1e-12 of `1 - 2a/s`; otherwise the raw float is printed, which no
model reply ever equals.  `done=T` is the model's fuel flag (Python has none).
"""
from __future__ import annotations
from common import *
import oracle as O
from paulie.common.pauli_string_bitarray import PauliString
from paulie.common.pauli_string_collection import PauliStringCollection
from paulie.application.otoc import average_otoc
from paulie.application.graph_complexity import average_graph_complexity
from paulie.application.fourpoint import fourpoint

TOL = 1e-12
RAW = {}          # line -> raw float of the last evaluation (read by the oracle)

def strs(arg):
    return [] if arg == "-" else ["" if s == "-" else s for s in arg.split(",")]

def one(arg):
    return "" if arg == "-" else arg

def mk(s):
    return PauliString(pauli_str=s)

def coll(gs):
    return PauliStringCollection([mk(s) for s in gs])

# ------------------------------------------------------------ independent orbit / distances

def orbit_dist(gs, v):
    """{x: d(v,x)} over the orbit of v under x -> x*g (g in gs anticommuting with x);
    level-synchronous BFS on bitmask integers"""
    G = [O.enc(g) for g in dict.fromkeys(gs)]
    v = O.enc(v)
    dist = {v: 0}
    level = [v]
    d = 0
    while level:
        d += 1
        nxt = []
        for x in level:
            for g in G:
                if O.anti(x, g):
                    y = O.mul(x, g)
                    if y not in dist:
                        dist[y] = d
                        nxt.append(y)
        level = nxt
    return dist

def orbit_pair(gs, v, w):
    """(number of orbit elements anticommuting with w, orbit size)"""
    orb = orbit_dist(gs, v)
    W = O.enc(w)
    return sum(1 for x in orb if O.anti(W, x)), len(orb)

# ------------------------------------------------------------ canonicalisation of the floats

def canon_otoc(f, s):
    a = round((1 - f) / 2 * s)
    if isinstance(f, float) and 0 <= a <= s and abs(f - (1 - 2 * a / s)) <= TOL:
        return f"anti={a} size={s} done=T"
    return f"float={f!r} size={s}"

def canon_agc(f, s):
    t = round(f * s)
    if isinstance(f, float) and t >= 0 and abs(f - t / s) <= TOL * max(1.0, abs(f)):
        return f"sum={t} size={s} done=T"
    return f"float={f!r} size={s}"

def handle(line: str) -> str:
    t = line.split(" ")
    try:
        if t[0] in ("otoc", "otoccore") and len(t) == 4:
            gs, v, w = O.pad(strs(t[1])), one(t[2]), one(t[3])
            f = average_otoc(coll(strs(t[1])), mk(v), mk(w))
            RAW[line] = f
            return canon_otoc(f, len(orbit_dist(gs, v)))
        if t[0] in ("agc", "splcore") and len(t) == 3:
            gs, p = O.pad(strs(t[1])), one(t[2])
            f = average_graph_complexity(coll(strs(t[1])), mk(p))
            RAW[line] = f
            return canon_agc(f, len(orbit_dist(gs, p)))
        if t[0] == "fourpoint" and len(t) == 6:
            gs = O.pad(strs(t[1]))
            p, q, r, s = (one(x) for x in t[2:6])
            f = fourpoint(coll(strs(t[1])), mk(p), mk(q), mk(r), mk(s))
            RAW[line] = f
            if isinstance(f, int) and not isinstance(f, bool) and f == 0:
                return "zero"
            return "otoc " + canon_otoc(f, len(orbit_dist(gs, p)))
    except Exception as e:
        return exc_name(e)
    return "bad-op"
