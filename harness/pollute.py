"""In-place edits of objects the library HANDS OUT (factory results, enumerations, commutants, products, copies ...).

PauliStrings are mutable; every public function that returns one must return an object of its own.  `pollute(n, seed)`
collects such objects from throw-away calls, edits each of them in place through the public API (set a letter, set a
substring, inc()) and returns how many were edited.  Nothing that is still in use is touched: only objects obtained from
calls whose receivers are dropped here.  A check then asks its question on FRESHLY built strings / collections: the answer
must be the one a process without the pollution gives (properties C07, C14, C15, C17, C18: 'a string freshly built',
'a newly constructed collection', 'independent objects').
"""
from __future__ import annotations
import random


def _scramble(p, r):
    n = len(p)
    if n == 0:
        return
    k = r.randrange(3)
    if k == 0:
        p[r.randrange(n)] = r.choice("IXYZ")
    elif k == 1:
        s = r.randrange(n)
        L = r.randint(1, n - s)
        p.set_substring(s, "".join(r.choice("IXYZ") for _ in range(L)))
    else:
        if str(p) != "Y" * n:
            p.inc()
        else:
            p[0] = "I"


def pollute(n: int, seed, members=None) -> int:
    """members: optional list of texts of a throw-away collection whose results are edited too"""
    from paulie.common.pauli_string_bitarray import PauliString
    from paulie.common.pauli_string_collection import PauliStringCollection
    from paulie.common.pauli_string_factory import get_identity, get_single, get_last, get_pauli_string
    r = random.Random(f"pollute:{n}:{seed}")
    objs, lists = [], []
    def grab(f):
        try:
            x = f()
        except Exception:
            return
        if isinstance(x, PauliString):
            objs.append(x)
        elif x is not None and not isinstance(x, (str, bool, int)):
            try:
                objs.extend(y for y in x if isinstance(y, PauliString))
            except TypeError:
                pass
            if isinstance(x, list) and x:
                lists.append(x)
    if n >= 1:
        grab(lambda: get_identity(n)); grab(lambda: get_last(n))
        for i in range(n):
            for lab in "XYZ":
                grab(lambda: get_single(n, i, lab))
        base = PauliString(pauli_str="".join(r.choice("IXYZ") for _ in range(n)))
        other = PauliString(pauli_str="".join(r.choice("XYZ") for _ in range(n)))
        grab(lambda: base.copy()); grab(lambda: base @ other); grab(lambda: base ^ other); grab(lambda: base.multiply(other))
        grab(lambda: base.adjoint_map(other)); grab(lambda: base.expand(n)); grab(lambda: base.get_substring(0, n))
        grab(lambda: base[0]); grab(lambda: list(iter(base))); grab(lambda: base.create_instance(n=n))
        grab(lambda: get_pauli_string("X" * n)); grab(lambda: get_pauli_string(["Z" * n, "X"], n=n))
        if n <= 4:
            grab(lambda: list(base.gen_all_pauli_strings()))
            grab(lambda: PauliString(n=n).get_commutants())
            grab(lambda: base.get_anti_commutants())
            grab(lambda: base.get_nested())
    if members is not None and n <= 4:
        def tmp():
            return PauliStringCollection([PauliString(pauli_str=s) for s in members])
        grab(lambda: tmp().get_commutants())
        grab(lambda: tmp().get_space() or [])
        grab(lambda: tmp().copy().get())
    for p in objs:
        try:
            _scramble(p, r)
        except Exception:
            pass
    for x in lists:          # the returned containers are the caller's as well: drop, reorder, duplicate entries
        try:
            del x[0]
            x.reverse()
            if x:
                x.append(x[0])
        except Exception:
            pass
    return len(objs)


def pollute_all(seed, maxn=8) -> int:
    """every length 1..maxn (enumerations only up to 4 qubits)"""
    return sum(pollute(n, f"{seed}:{n}", ["X" * n, "Z" + "I" * (n - 1)]) for n in range(1, maxn + 1))


def _mulstr(a, b):
    T = {"I": 0, "X": 1, "Z": 2, "Y": 3}
    return "".join("IXZY"[T[x] ^ T[y]] for x, y in zip(a, b))


# ---- a PauliString with the text `s`, ASSEMBLED through the in-place / derived-object API instead of parsed
def assembled_string(s, r):
    from paulie.common.pauli_string_bitarray import PauliString
    from paulie.common.pauli_string_factory import get_identity, get_single
    n = len(s)
    if n == 0:
        return PauliString(pauli_str=s)
    k = r.randrange(9)
    if k == 0:
        p = PauliString(n=n)
        i = 0
        while i < n:
            b = r.randint(2, 3)
            p.set_substring(i, s[i:i + b]); i += b
        return p
    if k == 1:
        p = PauliString(pauli_str="".join(r.choice("IXYZ") for _ in range(n)))
        i = 0
        while i < n:
            b = r.randint(1, 4)
            p[i] = s[i:i + b]; i += b
        return p
    if k == 2 and n >= 2:
        h = r.randint(1, n - 1)
        return PauliString(pauli_str=s[:h]) + PauliString(pauli_str=s[h:])
    if k == 3:
        u = "".join(r.choice("IXYZ") for _ in range(n))
        return PauliString(pauli_str=u) @ PauliString(pauli_str=_mulstr(u, s))
    if k == 4:
        t = s.rstrip("I") or s[:1]
        return PauliString(pauli_str=t).expand(n)
    if k == 5:
        p = PauliString(pauli_str="".join(r.choice("XYZ") for _ in range(n))).copy()
        hash(p); p.get_index() if n <= 20 else None
        p.set_substring(0, PauliString(pauli_str=s))
        return p
    if k == 6:
        p = get_identity(n)
        for i, ch in enumerate(s):
            if ch != "I":
                p.set_substring(i, get_single(1, 0, ch))
        return p
    if k == 7 and n <= 6:
        # walk there with inc() from a smaller string of the enumeration order
        p = PauliString(pauli_str=s)
        idx = p.get_index() if hasattr(p, "get_index") else None
        q = PauliString(pauli_str=s)
        back = r.randint(1, 3)
        allp = None
        try:
            allp = list(PauliString(n=n).gen_all_pauli_strings())
            pos = [str(x) for x in allp].index(s)
            if pos >= back:
                q = allp[pos - back].copy()
                for _ in range(back):
                    q.inc()
                return q
        except Exception:
            pass
        return p
    return PauliString(pauli_str=s)

