"""In-place edits of objects the library HANDS OUT (factory results, enumerations, commutants, products, copies ...).

PauliStrings are mutable; every public function that returns one must return an object of its own.  `pollute(n, seed)`
collects such objects from throw-away calls, edits each of them in place through the public API (set a letter, set a
substring, inc()) and returns how many were edited.  Nothing that is still in use is touched: only objects obtained from
calls whose receivers are dropped here.  A check then asks its question on FRESHLY built strings / collections: the answer
must be the one a process without the pollution gives (properties C07, C14, C15, C17, C18: 'a string freshly built',
'a newly constructed collection', 'independent objects').
"""
from __future__ import annotations
import random


def _scramble(p, r):
    n = len(p)
    if n == 0:
        return
    k = r.randrange(3)
    if k == 0:
        p[r.randrange(n)] = r.choice("IXYZ")
    elif k == 1:
        s = r.randrange(n)
        L = r.randint(1, n - s)
        p.set_substring(s, "".join(r.choice("IXYZ") for _ in range(L)))
    else:
        if str(p) != "Y" * n:
            p.inc()
        else:
            p[0] = "I"


def pollute(n: int, seed, members=None) -> int:
    """members: optional list of texts of a throw-away collection whose results are edited too"""
    from paulie.common.pauli_string_bitarray import PauliString
    from paulie.common.pauli_string_collection import PauliStringCollection
    from paulie.common.pauli_string_factory import get_identity, get_single, get_last, get_pauli_string
    r = random.Random(f"pollute:{n}:{seed}")
    objs = []
    def grab(f):
        try:
            x = f()
        except Exception:
            return
        if isinstance(x, PauliString):
            objs.append(x)
        elif x is not None and not isinstance(x, (str, bool, int)):
            try:
                objs.extend(y for y in x if isinstance(y, PauliString))
            except TypeError:
                pass
    if n >= 1:
        grab(lambda: get_identity(n)); grab(lambda: get_last(n))
        for i in range(n):
            for lab in "XYZ":
                grab(lambda: get_single(n, i, lab))
        base = PauliString(pauli_str="".join(r.choice("IXYZ") for _ in range(n)))
        other = PauliString(pauli_str="".join(r.choice("XYZ") for _ in range(n)))
        grab(lambda: base.copy()); grab(lambda: base @ other); grab(lambda: base ^ other); grab(lambda: base.multiply(other))
        grab(lambda: base.adjoint_map(other)); grab(lambda: base.expand(n)); grab(lambda: base.get_substring(0, n))
        grab(lambda: base[0]); grab(lambda: list(iter(base))); grab(lambda: base.create_instance(n=n))
        grab(lambda: get_pauli_string("X" * n)); grab(lambda: get_pauli_string(["Z" * n, "X"], n=n))
        if n <= 4:
            grab(lambda: list(base.gen_all_pauli_strings()))
            grab(lambda: PauliString(n=n).get_commutants())
            grab(lambda: base.get_anti_commutants())
            grab(lambda: base.get_nested())
    if members is not None and n <= 4:
        def tmp():
            return PauliStringCollection([PauliString(pauli_str=s) for s in members])
        grab(lambda: tmp().get_commutants())
        grab(lambda: tmp().get_space() or [])
        grab(lambda: tmp().copy().get())
    for p in objs:
        try:
            _scramble(p, r)
        except Exception:
            pass
    return len(objs)
