"""In-place edits of objects the library HANDS OUT (factory results, enumerations, commutants, products, copies ...).

PauliStrings are mutable; every public function that returns one must return an object of its own.  `pollute(n, seed)`
collects such objects from throw-away calls, edits each of them in place through the public API (set a letter, set a
substring, inc()) and returns how many were edited.  Nothing that is still in use is touched: only objects obtained from
calls whose receivers are dropped here.  A check then asks its question on FRESHLY built strings / collections: the answer
must be the one a process without the pollution gives (properties C07, C14, C15, C17, C18: 'a string freshly built',
'a newly constructed collection', 'independent objects').
"""
from __future__ import annotations
import random


def _scramble(p, r):
    n = len(p)
    if n == 0:
        return
    k = r.randrange(3)
    if k == 0:
        p[r.randrange(n)] = r.choice("IXYZ")
    elif k == 1:
        s = r.randrange(n)
        L = r.randint(1, n - s)
        p.set_substring(s, "".join(r.choice("IXYZ") for _ in range(L)))
    else:
        if str(p) != "Y" * n:
            p.inc()
        else:
            p[0] = "I"


def pollute(n: int, seed, members=None) -> int:
    """members: optional list of texts of a throw-away collection whose results are edited too"""
    from paulie.common.pauli_string_bitarray import PauliString
    from paulie.common.pauli_string_collection import PauliStringCollection
    from paulie.common.pauli_string_factory import get_identity, get_single, get_last, get_pauli_string
    r = random.Random(f"pollute:{n}:{seed}")
    objs, lists = [], []
    def grab(f):
        try:
            x = f()
        except Exception:
            return
        if isinstance(x, PauliString):
            objs.append(x)
        elif x is not None and not isinstance(x, (str, bool, int)):
            try:
                objs.extend(y for y in x if isinstance(y, PauliString))
            except TypeError:
                pass
            if isinstance(x, list) and x:
                lists.append(x)
    if n >= 1:
        grab(lambda: get_identity(n)); grab(lambda: get_last(n))
        for i in range(n):
            for lab in "XYZ":
                grab(lambda: get_single(n, i, lab))
        base = PauliString(pauli_str="".join(r.choice("IXYZ") for _ in range(n)))
        other = PauliString(pauli_str="".join(r.choice("XYZ") for _ in range(n)))
        grab(lambda: base.copy()); grab(lambda: base @ other); grab(lambda: base ^ other); grab(lambda: base.multiply(other))
        grab(lambda: base.adjoint_map(other)); grab(lambda: base.expand(n)); grab(lambda: base.get_substring(0, n))
        grab(lambda: base[0]); grab(lambda: list(iter(base))); grab(lambda: base.create_instance(n=n))
        grab(lambda: get_pauli_string("X" * n)); grab(lambda: get_pauli_string(["Z" * n, "X"], n=n))
        if n <= 4:
            grab(lambda: list(base.gen_all_pauli_strings()))
            grab(lambda: PauliString(n=n).get_commutants())
            grab(lambda: base.get_anti_commutants())
            grab(lambda: base.get_nested())
    if members is not None and n <= 4:
        def tmp():
            return PauliStringCollection([PauliString(pauli_str=s) for s in members])
        grab(lambda: tmp().get_commutants())
        grab(lambda: tmp().get_space() or [])
        grab(lambda: tmp().copy().get())
    for p in objs:
        try:
            _scramble(p, r)
        except Exception:
            pass
    for x in lists:          # the returned containers are the caller's as well: drop, reorder, duplicate entries
        try:
            del x[0]
            x.reverse()
            if x:
                x.append(x[0])
        except Exception:
            pass
    return len(objs)


def pollute_all(seed, maxn=8) -> int:
    """every length 1..maxn (enumerations only up to 4 qubits)"""
    k = sum(pollute(n, f"{seed}:{n}", ["X" * n, "Z" + "I" * (n - 1)]) for n in range(1, maxn + 1))
    return k + exercise(seed)


def _mulstr(a, b):
    T = {"I": 0, "X": 1, "Z": 2, "Y": 3}
    return "".join("IXZY"[T[x] ^ T[y]] for x, y in zip(a, b))


# ---- a PauliString with the text `s`, ASSEMBLED through the in-place / derived-object API instead of parsed
def assembled_string(s, r):
    from paulie.common.pauli_string_bitarray import PauliString
    from paulie.common.pauli_string_factory import get_identity, get_single
    n = len(s)
    if n == 0:
        return PauliString(pauli_str=s)
    def seen(p):
        """everything is observed BEFORE the object is edited: whatever an observation caches must not survive the edit"""
        try:
            str(p); repr(p); hash(p); len(p); p == p; [str(x) for x in p]; p.get_index() if len(p) <= 16 else None
            p.commutes_with(p); p.get_count_non_trivially(); p.is_identity(); p.get_matrix() if len(p) <= 3 else None
        except Exception:
            pass
        return p
    k = r.randrange(10)
    if k == 0:
        p = seen(PauliString(n=n))
        i = 0
        while i < n:
            b = r.randint(2, 3)
            p.set_substring(i, s[i:i + b]); i += b
            seen(p) if r.random() < 0.5 else None
        return p
    if k == 1:
        p = seen(PauliString(pauli_str="".join(r.choice("IXYZ") for _ in range(n))))
        i = 0
        while i < n:
            b = r.randint(1, 4)
            p[i] = s[i:i + b]; i += b
            seen(p) if r.random() < 0.5 else None
        return p
    if k == 2 and n >= 2:
        h = r.randint(1, n - 1)
        return PauliString(pauli_str=s[:h]) + PauliString(pauli_str=s[h:])
    if k == 3:
        u = "".join(r.choice("IXYZ") for _ in range(n))
        return PauliString(pauli_str=u) @ PauliString(pauli_str=_mulstr(u, s))
    if k == 4:
        t = s.rstrip("I") or s[:1]
        return PauliString(pauli_str=t).expand(n)
    if k == 5:
        p = seen(PauliString(pauli_str="".join(r.choice("XYZ") for _ in range(n))).copy())
        p.set_substring(0, PauliString(pauli_str=s))
        return p
    if k == 6:
        p = seen(get_identity(n))
        for i, ch in enumerate(s):
            if ch != "I":
                p.set_substring(i, get_single(1, 0, ch))
        return p
    if k == 8:
        # a TEMPLATE whose copies were edited in place afterwards (the template itself must stay what it was)
        import copy as _copy
        p = seen(PauliString(pauli_str=s))
        for c in (p.copy(), _copy.copy(p), p.get_substring(0, n), p.expand(n)):
            for _ in range(2):
                i = r.randrange(n)
                c[i] = r.choice("IXYZ")
            c.set_substring(0, "".join(r.choice("XYZ") for _ in range(n)))
            c.inc() if str(c) != "Y" * n else None
        return p
    if k == 7 and n <= 6:
        # walk there with inc() from a smaller string of the enumeration order
        p = PauliString(pauli_str=s)
        idx = p.get_index() if hasattr(p, "get_index") else None
        q = PauliString(pauli_str=s)
        back = r.randint(1, 3)
        allp = None
        try:
            allp = list(PauliString(n=n).gen_all_pauli_strings())
            pos = [str(x) for x in allp].index(s)
            if pos >= back:
                q = allp[pos - back].copy()
                for _ in range(back):
                    q.inc()
                return q
        except Exception:
            pass
        return p
    return PauliString(pauli_str=s)



# ---- earlier CALLS in the same process: throw-away uses of every public module, whose arguments and results are dropped.
# A library without hidden state shared between calls (module-level caches keyed too coarsely, shared mutable defaults,
# constants scaled in place, cursors) answers every later question as a fresh process does.
def exercise(seed) -> int:
    import itertools
    import numpy as np
    from paulie.common.pauli_string_bitarray import PauliString
    from paulie.common.pauli_string_collection import PauliStringCollection
    from paulie.common.pauli_string_linear import PauliStringLinear
    from paulie.common.pauli_string_factory import get_pauli_string, get_identity, get_single
    r = random.Random(f"exercise:{seed}")
    done = [0]
    def run(f):
        try:
            f(); done[0] += 1
        except Exception:
            pass
    def P(s):
        return PauliString(pauli_str=s)
    def C(ss):
        return PauliStringCollection([P(s) for s in ss])
    def rs(n):
        return "".join(r.choice("IXYZ") for _ in range(n))
    # linear combinations (dense matrices of one- and two-letter terms with non-unit coefficients)
    for terms in ([(0.5, "Y"), (0.5, "X")], [(2j, "Y")], [(0.25, "Z"), (-3, "I")], [(0.5, "YY"), (1.5, "XZ")], [(1j, rs(3)), (2.0, rs(3))]):
        run(lambda: PauliStringLinear(terms).get_matrix())
        run(lambda: PauliStringLinear(terms).exponential())
        run(lambda: (PauliStringLinear(terms) @ PauliStringLinear(terms)).simplify())
        run(lambda: str(PauliStringLinear(terms) + PauliStringLinear(terms)))
        run(lambda: PauliStringLinear(terms).trace())
    # strings: same object on both sides, iteration left half-way, matrices
    for n in (1, 2, 3, 4):
        p = P(rs(n))
        run(lambda: (p.sign(p), p | p, p @ p, p ^ p)); run(lambda: next(iter(p))); run(lambda: p.get_matrix()); run(lambda: hash(p))
    # classifier: with and without recorder, several lengths, membership with outsiders, alternative generator sets
    def classify_things(ss, rec):
        c = C(ss)
        if rec:
            from paulie.helpers.recording import RecordGraph
            c.set_record(RecordGraph())
        c.get_algebra(); c.get_dla_dim(); c.get_dependents(); c.get_canonic_vertices()
        n = len(ss[0])
        c.is_in(C([rs(n), rs(n)])); c.is_eq(C([rs(n)] + ss[:1])); c.select_dependents(C([rs(n), ss[0]]))
        for _g in itertools.islice(c.gen_generators(), 3):
            pass
        if n <= 3:
            c.get_space(); c.get_commutants(); c.get_commutator_graph()
        c.sort(); c.find(P(ss[0])); c.replace(P(ss[0]), P("Y" * n)); c.find(P(ss[-1])); c.get_algebra()
    pools = [["XI", "ZI", "IX"], ["XII", "ZII", "XXI", "IZI", "IXX"], ["XX", "YY"], ["XI", "IZ"], ["XIII", "ZZII", "IXXI", "IIZZ", "IIIX"],
             ["ZIIII", "XXIII", "IZIII", "IXIII", "IXXII", "IIZII", "IIXXI", "IIIZI", "IIIXX"], [rs(3) for _ in range(4)], [rs(4) for _ in range(5)]]
    for ss in pools:
        for rec in (False, True):
            run(lambda: classify_things(list(ss), rec))
    # k-local expansions and the two-local table, descending and ascending sizes
    for n in (12, 9, 7, 6, 5, 4, 3, 8):
        run(lambda: __import__("paulie.common.two_local_generators", fromlist=["x"]).two_local_algebras(n))
    run(lambda: get_pauli_string(["XX", "Z"], n=5)); run(lambda: get_pauli_string([P("XY"), P("Z")], n=4)); run(lambda: get_pauli_string("X_2s4"))
    # compiler: several (N, k), targets that reach the fallback search, one compiler object reused
    def compiler_things():
        from paulie.application import pauli_compiler as pc
        for N, k, ts in ((4, 2, ["IIXY", "IIYZ", "XIII", "XYZI"]), (4, 3, ["XYZX", "IIIZ"]), (3, 2, ["IIX", "XYI"]), (5, 2, ["IIYIY", "ZIIXI"]), (5, 3, ["IIIYY"])):
            for t in ts:
                try:
                    pc.compile_target(P(t), k_left=k)
                except Exception:
                    pass
            pc.construct_universal_set(N, k)
    run(compiler_things)
    # applications
    def apps():
        from paulie.application.otoc import average_otoc
        from paulie.application.graph_complexity import average_graph_complexity
        from paulie.application.fourpoint import fourpoint
        from paulie.application.matrix_decomposition import matrix_decomposition, matrix_decomposition_diagonal
        from paulie.application.get_optimal_su2_n import get_optimal_su_2_n_generators
        g = C(["XI", "ZI", "IX", "IZ", "XX"])
        average_otoc(g, P("XY"), P("ZI")); average_graph_complexity(g, P("YI")); fourpoint(g, P("XI"), P("IX"), P("XI"), P("IX"))
        matrix_decomposition(np.arange(16, dtype=float).reshape(4, 4)); matrix_decomposition_diagonal(np.array([1, 2, 3, 4]))
        get_optimal_su_2_n_generators(C(["XI", "ZI", "IX", "IZ", "XX", "YZ"]))
        C(["XX", "YY"]).get_full_quadratic_basis()
    run(apps)
    return done[0]
