"""Implementation side of the algebra-name commands (mirror of Model/CmdAlgebraNames.lean).

Arbitrary text travels hex-encoded (`common.hx` / `unhx`).  The `...text` commands run the REAL
`_parse_algebra` / `is_algebra` / `contains_algebra` / `get_subalgebras` / `get_isomorphism` on a
`Classification` whose `get_algebra()` is stubbed to return the given text (that is the only thing
those methods read from the classification), so that the comparison code is exercised on every reported
text, not only on the ones the classifier can produce.  The collection-level commands call the public
methods of `PauliStringCollection` / its `Classification`."""
from __future__ import annotations
from common import *
from impl_graph import coll
from paulie.classifier.classification import Classification

class Stub(Classification):
    """a classification that reports a given text"""
    def __init__(self, reported: str):
        super().__init__()
        self._reported = reported
    def get_algebra(self) -> str:
        return self._reported

def texts(l) -> str:
    return ",".join(hx(x) for x in l) if l else "[]"

def tf(b) -> str:
    assert b is True or b is False, repr(b)
    return "T" if b else "F"

def opt_arg(s):
    return None if s == "None" else unhx(s)

def reported_of(c) -> str:
    """hex of the text `get_algebra()` returns, in the implementation's own order"""
    return hx(str(c.get_class().get_algebra()))

def handle(line: str) -> str:
    t = line.split(" ")
    try:
        if t[0] == "parsealg":
            r = Classification()._parse_algebra(unhx(t[1]))
            assert isinstance(r, list) and all(isinstance(x, str) for x in r)
            return texts(r)
        if t[0] == "iso":
            r = Classification().get_isomorphism(unhx(t[1]))
            assert r is None or isinstance(r, str)
            return "None" if r is None else hx(r)
        if t[0] == "isalgtext":
            return tf(Stub(unhx(t[1])).is_algebra(unhx(t[2])))
        if t[0] == "containsalgtext":
            return tf(Stub(unhx(t[1])).contains_algebra(unhx(t[2])))
        if t[0] == "subalgstext":
            return texts(Stub(unhx(t[1])).get_subalgebras(opt_arg(t[2])))
        if t[0] == "isalg":
            return tf(coll(t[1]).is_algebra(unhx(t[2])))
        if t[0] == "containsalg":
            # answer together with the text it was computed on (the order of the summands is the
            # iteration order of a set of objects): `<hex reported> <T|F>`
            c = coll(t[1])
            cls = c.get_class()
            return reported_of(c) + " " + tf(cls.contains_algebra(unhx(t[2])))
        if t[0] == "subalgs":
            a = opt_arg(t[2])
            r = coll(t[1]).get_class().get_subalgebras(a)
            return texts(sorted(r) if a is None else r)
    except RecursionError:
        raise
    except Exception as e:
        return exc_name(e)
    return "bad-op"
