import PauLieVerif.Model.CmdPS
import PauLieVerif.Model.CmdGraph
import PauLieVerif.Model.CmdClassify
import PauLieVerif.Model.CmdCollection
import PauLieVerif.Model.CmdOptimise
import PauLieVerif.Model.CmdOtoc
import PauLieVerif.Model.CmdLinear
import PauLieVerif.Model.CmdDecomp
import PauLieVerif.Model.CmdTwoLocal
import PauLieVerif.Model.CmdCompiler
import PauLieVerif.Model.CmdSecondMoment
import PauLieVerif.Model.CmdAlgebraNames
import PauLieVerif.Model.CmdGraphExtra
import PauLieVerif.Model.CmdCert

open PauLie

def handlers : List (String → Option String) := [CmdPS.handle, CmdGraph.handle, CmdClassify.handle, CmdCollection.handle, CmdOptimise.handle, CmdOtoc.handle, CmdLinear.handle, CmdDecomp.handle, CmdTwoLocal.handle, CmdCompiler.handle, CmdSecondMoment.handle, CmdAlgebraNames.handle, CmdGraphExtra.handle, CmdCert.handle]

def respond (line : String) : String :=
  match handlers.findSome? (fun h => h line) with
  | some r => r
  | none => "bad-op"

partial def loop (h : IO.FS.Stream) (out : IO.FS.Stream) : IO Unit := do
  let line ← h.getLine
  if line.isEmpty then return ()
  let l := if line.back == '\n' then (line.dropEnd 1).toString else line
  out.putStrLn (respond l)
  loop h out

def main : IO Unit := do
  let out ← IO.getStdout
  loop (← IO.getStdin) out
  out.flush
