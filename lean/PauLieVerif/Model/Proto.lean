/-
Line-protocol helpers shared by all command handlers of the model driver.
One request per line, space separated tokens; one reply line per request.
  Pauli string  : dense text over IXYZ, `-` for the empty string
  list of them  : comma separated, `-` for the empty list
  arbitrary text: code points in hex separated by `.`, `-` for empty
-/
import PauLieVerif.Model.PS
import PauLieVerif.Model.Parser

namespace PauLie
namespace Proto

def hexDigit? (c : Char) : Option Nat :=
  if '0' ≤ c ∧ c ≤ '9' then some (c.toNat - '0'.toNat)
  else if 'a' ≤ c ∧ c ≤ 'f' then some (c.toNat - 'a'.toNat + 10)
  else if 'A' ≤ c ∧ c ≤ 'F' then some (c.toNat - 'A'.toNat + 10)
  else none

def hexNat? (s : String) : Option Nat :=
  if s.isEmpty then none
  else s.toList.foldlM (fun acc c => (hexDigit? c).map (fun d => 16 * acc + d)) 0

/-- decode a `.`-separated list of hex code points -/
def text? (s : String) : Option (List Char) :=
  if s == "-" then some []
  else (s.splitOn ".").mapM (fun h => (hexNat? h).map Char.ofNat)

def ps? (s : String) : Option PS :=
  if s == "-" then some (PS.ofLetters [])
  else (lettersOfString? s).map PS.ofLetters

def psList? (s : String) : Option (List PS) :=
  if s == "-" then some []
  else (s.splitOn ",").mapM ps?

def showPS (p : PS) : String :=
  let t := p.toString
  if t.isEmpty then "-" else t

def showBits (b : List Bool) : String :=
  if b.isEmpty then "-" else String.ofList (b.map (fun x => if x then '1' else '0'))

def showPSList (l : List PS) : String :=
  if l.isEmpty then "-" else String.intercalate "," (l.map showPS)

/-- all three views, for C18 -/
def dumpPS (p : PS) : String :=
  s!"{showPS p}/{showBits p.bits}/{showBits p.even}/{showBits p.odd}"

def showExcept {α} (f : α → String) : Except Err α → String
  | .ok a => f a
  | .error e => s!"!{e}"

def showBool (b : Bool) : String := if b then "T" else "F"

def showOpt {α} (f : α → String) : Option α → String
  | some a => f a
  | none => "None"

def int? (s : String) : Option Int := s.toInt?

end Proto
end PauLie
