/-
Model of the SEARCH part of `src/paulie/application/pauli_compiler.py`
(properties C05, C06): `_all_left_paulis`, `SubsystemCompiler` (`factor_w_orders`,
`_choose_a1_a2`, `_choose_aprime`, `_rest_full_after`, `subsystem_compiler`),
`left_map_over_a`, `OptimalPauliCompiler` (`_left_factor_from_sequence`,
`_candidate_decompositions`, `_all_interleavings_preserving(4)`,
`_case3_best_reordering`, `_bfs_case3`, `compile`) and `compile_target` end to end.

Branch by branch, in the order the Python code tries things: the order of the
generators in the BFS, the order of the pool in the helper choice, the order of
the candidates, the caps of the interleaving generators and of the fallback BFS.
Python exceptions are `Except Fail _`, `Fail` = exception type + the function of
`pauli_compiler.py` whose frame is innermost when it is raised.

Loops that are `while` in Python run on fuel (structural recursion, no `partial`,
no well-founded recursion, no `for`/`mut`), with the explicit result
`⟨.other, .fuel⟩` when the fuel runs out (never observed; bounds in the docstrings).

Representation choices that are not literal (each is observationally the same):
* `left_map_over_a` keeps, with every queued string, the list of generators that
  led to it instead of the `parent` dictionary (an entry of `parent` is written once,
  when the key enters `seen`, so the chain read back at the goal is that list);
* the queue is a pair of lists (front, reversed back): same FIFO order;
* `seen` / `visited` are bit tables indexed by the number `ba2int(bits)` of the string:
  all strings of one search have the same length, for which this is injective;
* the generators `_all_interleavings_preserving(4)` are consumed by a caller that stops
  at the first sequence passing the test, so the model threads the test and the
  counter `count` through the recursion and returns the first hit;
* `Aset = left_a_minimal(self.k)`, evaluated in every branch of `compile`, is evaluated
  once at its top (a pure <| function of `k` that `__init__` has already evaluated).

Import-free apart from the model's own substrate.
-/
import PauLieVerif.Model.Compiler

namespace PauLie
namespace Compiler

/-- the function of `pauli_compiler.py` in which an exception surfaces -/
inductive Site where
  | compileTarget | init | compile | subsystemCompiler | factorWOrders | restFullAfter
  | chooseA1A2 | chooseAprime | leftMapOverA | leftFactor | candidateDecompositions
  | case3 | bfsCase3 | universalSet | leftAMinimal | chooseU | allLeftPaulis | extendLeft
  | commutes | multiply | fuel
  deriving DecidableEq, Repr, Inhabited

def Site.name : Site → String
  | .compileTarget => "compile_target"
  | .init => "__init__"
  | .compile => "compile"
  | .subsystemCompiler => "subsystem_compiler"
  | .factorWOrders => "factor_w_orders"
  | .restFullAfter => "_rest_full_after"
  | .chooseA1A2 => "_choose_a1_a2"
  | .chooseAprime => "_choose_aprime"
  | .leftMapOverA => "left_map_over_a"
  | .leftFactor => "_left_factor_from_sequence"
  | .candidateDecompositions => "_candidate_decompositions"
  | .case3 => "_case3_best_reordering"
  | .bfsCase3 => "_bfs_case3"
  | .universalSet => "construct_universal_set"
  | .leftAMinimal => "left_a_minimal"
  | .chooseU => "choose_u_for_b"
  | .allLeftPaulis => "rec"
  | .extendLeft => "extend_left"
  | .commutes => "_commutes"
  | .multiply => "_multiply"
  | .fuel => "MODEL-OUT-OF-FUEL"

structure Fail where
  err : Err
  site : Site
  deriving DecidableEq, Repr, Inhabited

/-- exception type as Python names it: in this file `.other` stands for the `assert` statements
(AssertionError) and, at site `fuel`, for the model's own out-of-fuel result -/
def Fail.typeName (f : Fail) : String :=
  if f.err == .other && f.site != .fuel then "AssertionError" else f.err.toString

def Fail.toString (f : Fail) : String := s!"{f.typeName}@{f.site.name}"
instance : ToString Fail := ⟨Fail.toString⟩

def liftAt {α} (s : Site) : Except Err α → Except Fail α
  | .ok a => .ok a
  | .error e => .error ⟨e, s⟩

/-- `_commutes(a, b)` = `a | b` -/
def cCommutes (a b : PS) : Except Fail Bool := liftAt .commutes (PS.commutesWith a b)
/-- `_multiply(a, b)` = `a @ b` -/
def cMultiply (a b : PS) : Except Fail PS := liftAt .multiply (PS.multiply a b)
/-- `_nested_commutator_result(G)`; a length mismatch surfaces in `_commutes` -/
def cNested (G : List PS) : Except Fail (Option PS) := liftAt .commutes (nestedCommutatorResult G)

/-- `_left_part(p, k)` -/
def leftPart (p : PS) (k : Int) : PS := p.getSubstring 0 k
/-- `_right_part(p, k)` -/
def rightPart (p : PS) (k : Int) : PS := p.getSubstring k ((p.len : Int) - k)

/-- `_key(p)` = `str(p)` -/
def key (p : PS) : List Letter := p.letters

/-- slot of a string in a bit table over the strings of its length -/
def slot (p : PS) : Nat := PS.bitsToNat p.bits

/-- two-list FIFO queue: `popleft` -/
def qPop {α} : List α → List α → Option (α × List α × List α)
  | x :: f, b => some (x, f, b)
  | [], b =>
    match b.reverse with
    | [] => none
    | x :: f => some (x, f, [])

/-! ### `_all_left_paulis` -/

/-- all `4^k` texts in the order of the recursion `rec` (labels `I, X, Y, Z`, first site slowest) -/
def allTexts : Nat → List (List Letter)
  | 0 => [[]]
  | k + 1 => [Letter.I, .X, .Y, .Z].flatMap (fun l => (allTexts k).map (fun t => l :: t))

/-- `set(s) != {"I"}` -/
def notAllI (t : List Letter) : Bool := t.isEmpty || !(t.all (fun l => l == Letter.I))

/-- `_all_left_paulis(k)`: every text except the identity, through `get_pauli_string` (the parser) -/
def allLeftPaulis (k : Int) : Except Fail (List PS) :=
  liftAt .allLeftPaulis (((allTexts k.toNat).filter notAllI).mapM (fun t => Parser.mkPS (t.map Letter.toChar)))

/-! ### `SubsystemCompiler` / `OptimalPauliCompiler` objects -/

/-- the fields of the two objects that the methods read -/
structure Ctx where
  k : Int
  nTotal : Int
  nRight : Int
  uTag : PS
  pool : List PS
  fallbackDepth : Nat := 8
  fallbackNodes : Nat := 200000
  deriving Repr

/-- `OptimalPauliCompiler.__init__` (which runs `SubsystemCompiler.__init__`) -/
def mkCtx (k nTotal : Int) : Except Fail Ctx := do
  if k < 2 then throw ⟨.valueError, .init⟩
  let _aLeft ← liftAt .leftAMinimal (leftAMinimal k)
  let u ← liftAt .chooseU (chooseUForB k)
  -- SubsystemCompiler.__init__: the same guard, the same tag, the pool
  let pool ← allLeftPaulis k
  pure <| { k := k, nTotal := nTotal, nRight := nTotal - k, uTag := u, pool := pool }

/-- `extend_left(a)` = `a ⊗ identity(n_right)` -/
def extendLeft (c : Ctx) (a : PS) : Except Fail PS := do
  let idR ← liftAt .extendLeft (getIdentity c.nRight)
  pure <| PS.tensor a idR

/-! ### `factor_w_orders` -/

/-- the options of one site -/
def siteOpts (c : Ctx) (j : Nat) (ch : Letter) : Except Fail (List (List PS)) :=
  match ch with
  | .Y => do
    let x ← liftAt .factorWOrders (getSingle c.nRight j .X)
    let z ← liftAt .factorWOrders (getSingle c.nRight j .Z)
    pure <| [[x, z], [z, x]]
  | .X => do
    let x ← liftAt .factorWOrders (getSingle c.nRight j .X)
    pure <| [[x]]
  | .Z => do
    let z ← liftAt .factorWOrders (getSingle c.nRight j .Z)
    pure <| [[z]]
  | .I => pure <| [[]]

def siteOptsAll (c : Ctx) : Nat → List Letter → Except Fail (List (List (List PS)))
  | _, [] => pure <| []
  | j, ch :: rest => do
    let o ← siteOpts c j ch
    let os ← siteOptsAll c (j + 1) rest
    pure <| o :: os

/-- `del acc[-n:]` — for `n = 0` this is `del acc[0:]`, which empties the list -/
def delTail (acc : List PS) (n : Nat) : List PS :=
  if n == 0 then [] else acc.take (acc.length - n)

/-- the `for seg in per_site_opts[i]` loop of the inner `rec(i, acc)` of `factor_w_orders`, given the
recursive call `rec(i + 1, ·)`: returns the sequences appended and the state of the shared list
`acc` afterwards -/
def fwSegs (next : List PS → List (List PS) × List PS) : List (List PS) → List PS → List (List PS) × List PS
  | [], acc => ([], acc)
  | seg :: segs, acc =>
    let (out1, acc1) := next (acc ++ seg)
    let acc2 := delTail acc1 seg.length
    let (out2, acc3) := fwSegs next segs acc2
    (out1 ++ out2, acc3)

/-- the inner `rec(i, acc)` of `factor_w_orders` -/
def fwRec : List (List (List PS)) → List PS → List (List PS) × List PS
  | [], acc => ([acc], acc)
  | opts :: rest, acc => fwSegs (fwRec rest) opts acc

/-- `factor_w_orders(w_right)` -/
def factorWOrders (c : Ctx) (w : PS) : Except Fail (List (List (PS × PS))) := do
  if (w.len : Int) ≠ c.nRight then throw ⟨.other, .factorWOrders⟩   -- assert
  let opts ← siteOptsAll c 0 w.letters
  let seqs := (fwRec opts []).1
  pure <| seqs.map (fun flat => flat.map (fun b => (c.uTag, b)))

/-! ### helper choice -/

/-- inner loop of `_choose_a1_a2` (`a2 is a1` is an index comparison) -/
def findA2 (u a1 : PS) (i1 : Nat) : List PS → Nat → Except Fail (Option PS)
  | [], _ => pure <| none
  | a2 :: rest, j => do
    if j == i1 then findA2 u a1 i1 rest (j + 1)
    else if (← cCommutes a2 u) then findA2 u a1 i1 rest (j + 1)
    else if (← cCommutes a1 a2) then pure <| some a2
    else findA2 u a1 i1 rest (j + 1)

def findA1 (pool : List PS) (u : PS) : List PS → Nat → Except Fail (PS × PS)
  | [], _ => throw ⟨.runtimeError, .chooseA1A2⟩
  | a1 :: rest, i => do
    if (← cCommutes a1 u) then findA1 pool u rest (i + 1)
    else
      match (← findA2 u a1 i pool 0) with
      | some a2 => pure <| (a1, a2)
      | none => findA1 pool u rest (i + 1)

/-- `_choose_a1_a2(u_op)` -/
def chooseA1A2 (c : Ctx) (u : PS) : Except Fail (PS × PS) := findA1 c.pool u c.pool 0

/-- `_choose_aprime(u_i, p_left)` -/
def chooseAprime (u pLeft : PS) : List PS → Except Fail PS
  | [] => throw ⟨.runtimeError, .chooseAprime⟩
  | a :: rest => do
    if (← cCommutes a u) then chooseAprime u pLeft rest
    else if (← cCommutes a pLeft) then pure <| a
    else chooseAprime u pLeft rest

def mulAll (p : PS) : List PS → Except Fail PS
  | [] => pure <| p
  | x :: rest => do mulAll (← cMultiply p x) rest

/-- `_rest_full_after(ui_bi, i, helpers)` -/
def restFullAfter (c : Ctx) (uiBi : List (PS × PS)) (i : Nat) (helpers : List PS) : Except Fail (PS × PS) := do
  let tail := uiBi.drop (i + 1)
  let idL ← liftAt .restFullAfter (getIdentity c.k)
  let pL ← mulAll idL (tail.map (·.1))
  let pL ← mulAll pL helpers
  let idR ← liftAt .restFullAfter (getIdentity c.nRight)
  let pR ← mulAll idR (tail.map (·.2))
  pure <| (pL, pR)

/-! ### `subsystem_compiler` -/

/-- the `while i >= 1` loop; `gRev` is `G` reversed, `used` the dictionary `helper_used_for_i`.
Every iteration either decrements `i` or makes `used[i] ≥ 1` (after which the next one
decrements), so `2·r + 1` iterations suffice. -/
def subLoop (c : Ctx) (uiBi : List (PS × PS)) :
    Nat → Nat → List PS → List PS → List (Nat × Nat) → Except Fail (List PS)
  | 0, _, _, _, _ => throw ⟨.other, .fuel⟩
  | fuel + 1, i, gRev, H, used =>
    if i < 1 then pure <| gRev.reverse
    else do
      let (ui, bi) ← (match uiBi[i]? with
        | some x => pure <| x
        | none => throw ⟨.indexError, .subsystemCompiler⟩ : Except Fail (PS × PS))
      let (pL, pR) ← restFullAfter c uiBi i H
      let cnt := (used.lookup i).getD 0
      let current := PS.tensor ui bi
      if (← cMultiply pL ui).isIdentity then
        if cnt ≥ 1 then subLoop c uiBi fuel (i - 1) (current :: gRev) H used
        else do
          let (a1, a2) ← chooseA1A2 c ui
          let e1 ← extendLeft c a1
          let e2 ← extendLeft c a2
          subLoop c uiBi fuel i (e2 :: e1 :: gRev) [a1, a2] ((i, cnt + 1) :: used)
      else do
        let restFull := PS.tensor pL pR
        if (← cCommutes current restFull) then
          if cnt ≥ 1 then subLoop c uiBi fuel (i - 1) (current :: gRev) H used
          else do
            let ap ← chooseAprime ui pL c.pool
            let e ← extendLeft c ap
            subLoop c uiBi fuel i (e :: gRev) [ap] ((i, cnt + 1) :: used)
        else subLoop c uiBi fuel (i - 1) (current :: gRev) H used

/-- `subsystem_compiler(w_right)`: the `for ui_bi in factor_w_orders(…)` loop returns in its first
iteration, so only the first ordering is ever used -/
def subsystemCompiler (c : Ctx) (w : PS) : Except Fail (List PS) := do
  if (w.len : Int) ≠ c.nRight then throw ⟨.other, .subsystemCompiler⟩   -- assert
  match (← factorWOrders c w) with
  | [] => pure <| []
  | uiBi :: _ =>
    match uiBi.getLast? with
    | none => pure <| []
    | some (u, b) => subLoop c uiBi (2 * uiBi.length + 1) (uiBi.length - 1) [PS.tensor u b] [] []

/-! ### `left_map_over_a` -/

/-- the `for a in A` loop for the popped string `cur` (reached by `path`, newest generator first) -/
def lmExpand (cur : PS) (path : List PS) :
    List PS → List (PS × List PS) → Array Bool → Except Fail (List (PS × List PS) × Array Bool)
  | [], back, seen => pure <| (back, seen)
  | a :: rest, back, seen => do
    if (← cCommutes a cur) then lmExpand cur path rest back seen
    else
      let nxt ← cMultiply a cur
      if seen.getD (slot nxt) false then lmExpand cur path rest back seen
      else lmExpand cur path rest ((nxt, a :: path) :: back) (seen.setIfInBounds (slot nxt) true)

/-- the `while q` loop -/
def lmLoop (goal : List Letter) (A : List PS) :
    Nat → List (PS × List PS) → List (PS × List PS) → Array Bool → Except Fail (List PS)
  | 0, _, _, _ => throw ⟨.other, .fuel⟩
  | fuel + 1, front, back, seen =>
    match qPop front back with
    | none => throw ⟨.runtimeError, .leftMapOverA⟩          -- RuntimeError("Left map BFS failed.")
    | some ((cur, path), front', back') =>
      if key cur == goal then pure <| path.reverse
      else do
        let (back'', seen') ← lmExpand cur path A back' seen
        lmLoop goal A fuel front' back'' seen'

/-- `left_map_over_a(V_from, V_to, A)`.  Every string is queued at most once and there are
`2^(number of bits)` strings of the length of `V_from`, so that many iterations (+1) suffice. -/
def leftMapOverA (vFrom vTo : PS) (A : List PS) : Except Fail (List PS) :=
  if key vFrom == key vTo then pure <| []
  else
    let size := 2 ^ vFrom.bits.length
    lmLoop (key vTo) A (size + 1) [(vFrom, [])] []
      ((Array.replicate size false).setIfInBounds (slot vFrom) true)

/-! ### `OptimalPauliCompiler` helpers -/

/-- `_left_factor_from_sequence(ops)` -/
def leftFactor (c : Ctx) (ops : List PS) : Except Fail PS := do
  match (← cNested ops) with
  | none => liftAt .leftFactor (getSingle c.k 0 .X)
  | some r => pure <| leftPart r c.k

/-- the test used before every verified return: the internal nested commutator of `G` is not
`None`, its left part reads `v` and its right part reads `w` -/
def checkRes (c : Ctx) (v w : List Letter) (G : List PS) : Except Fail Bool := do
  match (← cNested G) with
  | none => pure <| false
  | some r => pure <| ((leftPart r c.k).letters == v && (rightPart r c.k).letters == w)

def firstOk (chk : List PS → Except Fail Bool) : List (List PS) → Nat → Except Fail (Option (Nat × List PS))
  | [], _ => pure <| none
  | s :: rest, i => do
    if (← chk s) then pure <| some (i, s) else firstOk chk rest (i + 1)

/-- labels tried for a right letter in `_candidate_decompositions` -/
def decompLabels : Letter → List Letter
  | .I => []
  | .Y => [.X, .Z]
  | .X => [.Z]
  | .Z => [.X]

def candLabels (c : Ctx) (w : PS) (j : Nat) : List Letter → Except Fail (List (PS × PS))
  | [] => pure <| []
  | lab :: rest => do
    let w1 ← liftAt .candidateDecompositions (getSingle (w.letters.length : Int) j lab)
    let w2 ← cMultiply w1 w
    let more ← candLabels c w j rest
    if (← cCommutes w1 w2) then pure <| more else pure <| (w1, w2) :: more

def candSites (c : Ctx) (w : PS) : Nat → List Letter → Except Fail (List (PS × PS))
  | _, [] => pure <| []
  | j, ch :: rest => do
    let here ← candLabels c w j (decompLabels ch)
    let more ← candSites c w (j + 1) rest
    pure <| here ++ more

/-- order-preserving removal of duplicates by the key `(str(a), str(b))` -/
def dedupPairs : List (PS × PS) → List (List Letter × List Letter) → List (PS × PS)
  | [], _ => []
  | (a, b) :: rest, seen =>
    if seen.contains (key a, key b) then dedupPairs rest seen
    else (a, b) :: dedupPairs rest ((key a, key b) :: seen)

/-- `_candidate_decompositions(W)` -/
def candidateDecompositions (c : Ctx) (w : PS) : Except Fail (List (PS × PS)) := do
  let cand ← candSites c w 0 w.letters
  pure <| dedupPairs cand []

/-! ### interleaving generators, consumed up to the first hit -/

/-- `_all_interleavings_preserving(A, B, C, cap)`; `pre` is the prefix reversed, the result is the
counter and the first complete interleaving that passes `chk` (the consumer returns there) -/
def inter3 (chk : List PS → Except Fail Bool) (cap : Nat) :
    Nat → List PS → List PS → List PS → List PS → Nat → Except Fail (Nat × Option (List PS))
  | 0, _, _, _, _, _ => throw ⟨.other, .fuel⟩
  | fuel + 1, A, B, C, pre, count =>
    if count ≥ cap then pure <| (count, none)
    else
      match A, B, C with
      | [], [], [] => do
        let seq := pre.reverse
        if (← chk seq) then pure <| (count + 1, some seq) else pure <| (count + 1, none)
      | _, _, _ => do
        let (count, r) ← (match A with
          | a :: A' => inter3 chk cap fuel A' B C (a :: pre) count
          | [] => pure <| (count, none))
        if r.isSome || count ≥ cap then pure <| (count, r)
        else
          let (count, r) ← (match B with
            | b :: B' => inter3 chk cap fuel A B' C (b :: pre) count
            | [] => pure <| (count, none))
          if r.isSome || count ≥ cap then pure <| (count, r)
          else
            match C with
            | x :: C' => inter3 chk cap fuel A B C' (x :: pre) count
            | [] => pure <| (count, none)

/-- `_all_interleavings_preserving4(A, B, C, D, cap)` -/
def inter4 (chk : List PS → Except Fail Bool) (cap : Nat) :
    Nat → List PS → List PS → List PS → List PS → List PS → Nat → Except Fail (Nat × Option (List PS))
  | 0, _, _, _, _, _, _ => throw ⟨.other, .fuel⟩
  | fuel + 1, A, B, C, D, pre, count =>
    if count ≥ cap then pure <| (count, none)
    else
      match A, B, C, D with
      | [], [], [], [] => do
        let seq := pre.reverse
        if (← chk seq) then pure <| (count + 1, some seq) else pure <| (count + 1, none)
      | _, _, _, _ => do
        let (count, r) ← (match A with
          | a :: A' => inter4 chk cap fuel A' B C D (a :: pre) count
          | [] => pure <| (count, none))
        if r.isSome || count ≥ cap then pure <| (count, r)
        else
          let (count, r) ← (match B with
            | b :: B' => inter4 chk cap fuel A B' C D (b :: pre) count
            | [] => pure <| (count, none))
          if r.isSome || count ≥ cap then pure <| (count, r)
          else
            let (count, r) ← (match C with
              | x :: C' => inter4 chk cap fuel A B C' D (x :: pre) count
              | [] => pure <| (count, none))
            if r.isSome || count ≥ cap then pure <| (count, r)
            else
              match D with
              | d :: D' => inter4 chk cap fuel A B C D' (d :: pre) count
              | [] => pure <| (count, none)

/-- first hit over a list of lazily produced searches -/
def firstSome {α} : List (Unit → Except Fail (Option α)) → Except Fail (Option α)
  | [] => pure <| none
  | f :: rest => do
    match (← f ()) with
    | some x => pure <| some x
    | none => firstSome rest

/-! ### `_case3_best_reordering` -/

/-- `permutations(range(3))` -/
def perms3 : List (Nat × Nat × Nat) := [(0, 1, 2), (0, 2, 1), (1, 0, 2), (1, 2, 0), (2, 0, 1), (2, 1, 0)]

def rv (b : Bool) (l : List PS) : List PS := if b then l.reverse else l

/-- the 48 block orders of the second phase, in the order of the loops -/
def phase2Seqs (G1 G2 Aext : List PS) : List (List PS) :=
  perms3.flatMap (fun (p : Nat × Nat × Nat) =>
    let blk (i : Nat) : List PS := if i == 0 then G1 else if i == 1 then G2 else Aext
    [false, true].flatMap (fun r0 => [false, true].flatMap (fun r1 => [false, true].map (fun r2 =>
      rv r0 (blk p.1) ++ rv r1 (blk p.2.1) ++ rv r2 (blk p.2.2)))))

/-- `_case3_best_reordering(G1, G2, Aext, W)`; the number is the phase (1–4) that found the result -/
def case3BestReordering (c : Ctx) (G1 G2 Aext : List PS) (w : PS) : Except Fail (Option (Nat × List PS)) := do
  let chk := checkRes c (List.replicate c.k.toNat Letter.I) (key w)
  let G1r := G1.reverse
  let G2r := G2.reverse
  let Ar := Aext.reverse
  -- phase 1
  match (← firstOk chk
      [G1 ++ Aext ++ G2r ++ Aext, G1r ++ Aext ++ G2 ++ Aext, Aext ++ G1 ++ Aext ++ G2r,
       Aext ++ G1r ++ Aext ++ G2, G2 ++ Aext ++ G1r ++ Aext, G2r ++ Aext ++ G1 ++ Aext] 0) with
  | some (_, s) => pure <| some (1, s)
  | none =>
  -- phase 2
  match (← firstOk chk (phase2Seqs G1 G2 Aext) 0) with
  | some (_, s) => pure <| some (2, s)
  | none =>
  -- phase 3
  let combos3 : List (List PS × List PS × List PS) :=
    [G1, G1r].flatMap (fun g1 => [G2, G2r].flatMap (fun g2 => [Aext, Ar].map (fun a => (g1, g2, a))))
  match (← firstSome (combos3.map (fun (g : List PS × List PS × List PS) => fun (_ : Unit) => do
      let (_, r) ← inter3 chk 60000 (g.1.length + g.2.1.length + g.2.2.length + 1) g.1 g.2.1 g.2.2 [] 0
      pure <| r))) with
  | some s => pure <| some (3, s)
  | none =>
  -- phase 4
  let combos4 : List (List PS × List PS × List PS × List PS) :=
    [G1, G1r].flatMap (fun g1 => [G2, G2r].flatMap (fun g2 => [Aext, Ar].flatMap (fun a1 =>
      [Aext, Ar].map (fun a2 => (g1, g2, a1, a2)))))
  match (← firstSome (combos4.map (fun (g : List PS × List PS × List PS × List PS) => fun (_ : Unit) => do
      let (g1, g2, a1, a2) := g
      match (← firstOk chk [g1 ++ a1 ++ g2 ++ a2, g2 ++ a1 ++ g1 ++ a2, a1 ++ g1 ++ a2 ++ g2, a1 ++ g2 ++ a2 ++ g1] 0) with
      | some (_, s) => pure <| some s
      | none =>
        let (_, r) ← inter4 chk 120000 (g1.length + g2.length + a1.length + a2.length + 1) g1 g2 a1 a2 [] 0
        pure <| r))) with
  | some s => pure <| some (4, s)
  | none => pure <| none

/-! ### `_bfs_case3` -/

inductive BfsR where
  | found (seq : List PS)
  | capped
  | cont (nodes : Nat) (visited : Array Bool) (nfRev : List (Option PS × List PS))

/-- the `for j, op in enumerate(S)` loop for one frontier entry (`seqRev`: operators so far, newest first) -/
def bfsOps (c : Ctx) (tL tR : List Letter) (depth : Nat) (res : Option PS) (seqRev : List PS) :
    List PS → Nat → Array Bool → List (Option PS × List PS) → Except Fail BfsR
  | [], nodes, visited, nfRev => pure <| .cont nodes visited nfRev
  | op :: rest, nodes, visited, nfRev =>
    let nodes := nodes + 1
    if nodes > c.fallbackNodes then pure <| .capped
    else do
      let newRes ← (match res with
        | none => pure <| (some op)
        | some r => liftAt .commutes (adApply op (some r)) : Except Fail (Option PS))
      match newRes with
      | none => bfsOps c tL tR depth res seqRev rest nodes visited nfRev
      | some nr =>
        if visited.getD (slot nr) false then bfsOps c tL tR depth res seqRev rest nodes visited nfRev
        else
          let visited := visited.setIfInBounds (slot nr) true
          let newSeq := op :: seqRev
          if depth ≥ 2 && (leftPart nr c.k).letters == tL && (rightPart nr c.k).letters == tR then
            pure <| .found newSeq.reverse
          else bfsOps c tL tR depth res seqRev rest nodes visited ((some nr, newSeq) :: nfRev)

/-- the `for res, seq_idx in frontier` loop -/
def bfsFrontier (c : Ctx) (S : List PS) (tL tR : List Letter) (depth : Nat) :
    List (Option PS × List PS) → Nat → Array Bool → List (Option PS × List PS) → Except Fail BfsR
  | [], nodes, visited, nfRev => pure <| .cont nodes visited nfRev
  | (res, seqRev) :: rest, nodes, visited, nfRev => do
    match (← bfsOps c tL tR depth res seqRev S nodes visited nfRev) with
    | .cont nodes visited nfRev => bfsFrontier c S tL tR depth rest nodes visited nfRev
    | r => pure <| r

/-- the `for depth in range(1, depth_cap + 1)` loop; `rem` = iterations left -/
def bfsDepths (c : Ctx) (S : List PS) (tL tR : List Letter) (tableSize : Nat) :
    Nat → Nat → List (Option PS × List PS) → Nat → Except Fail (Option (List PS))
  | 0, _, _, _ => pure <| none
  | rem + 1, depth, frontier, nodes => do
    -- `visited` is keyed by (depth, string): a fresh table per depth
    match (← bfsFrontier c S tL tR depth frontier nodes (Array.replicate tableSize false) []) with
    | .found s => pure <| some s
    | .capped => pure <| none
    | .cont nodes _ nfRev => bfsDepths c S tL tR tableSize rem (depth + 1) nfRev.reverse nodes

/-- `_bfs_case3(W, depth_cap, node_cap)` -/
def bfsCase3 (c : Ctx) (w : PS) : Except Fail (Option (List PS)) := do
  let S ← liftAt .universalSet (universalSet c.nTotal c.k)
  let tL ← liftAt .bfsCase3 (getIdentity c.k)
  bfsDepths c S (key tL) (key w) (2 ^ (2 * c.nTotal.toNat)) c.fallbackDepth 1 [(none, [])] 0

/-! ### `compile` -/

/-- which `return` of `compile` produced the sequence -/
inductive Branch where
  | wI                      -- W = I: verified by `_nested_commutator_result`
  | vNeICand (i : Nat)      -- V ≠ I: candidate `i` (0, 1, 2), verified
  | vNeIFallback            -- V ≠ I: the final, UNVERIFIED return
  | vICase3 (phase : Nat)   -- V = I: `_case3_best_reordering`, verified
  | vIBfs                   -- V = I: `_bfs_case3`
  | vILast                  -- V = I: the final, UNVERIFIED return
  deriving DecidableEq, Repr, Inhabited

/-- the returns that are guarded by `_nested_commutator_result(G) == target` -/
def Branch.verified : Branch → Bool
  | .wI | .vNeICand _ | .vICase3 _ => true
  | _ => false

def Branch.name : Branch → String
  | .wI => "W=I:verified"
  | .vNeICand i => s!"V!=I:candidate{i}:verified"
  | .vNeIFallback => "V!=I:unverified-return"
  | .vICase3 p => s!"V=I:case3-phase{p}:verified"
  | .vIBfs => "V=I:bfs_case3"
  | .vILast => "V=I:unverified-return"

def extendAll (c : Ctx) : List PS → Except Fail (List PS)
  | [] => pure <| []
  | a :: rest => do
    let e ← extendLeft c a
    let es ← extendAll c rest
    pure <| e :: es

/-- the `for As in Aset` loop of the branch `W = I` -/
def compileWI (c : Ctx) (v w : PS) (aset : List PS) : List PS → Except Fail (Branch × List PS)
  | [] => throw ⟨.runtimeError, .compile⟩                      -- RuntimeError("Left-only mapping failed.")
  | a0 :: rest =>
    match leftMapOverA a0 v aset with
    | .error ⟨.runtimeError, _⟩ => compileWI c v w aset rest    -- except RuntimeError: continue
    | .error e => .error e
    | .ok seqA => do
      let g0 ← extendLeft c a0
      let gs ← extendAll c seqA
      let G := g0 :: gs
      if (← checkRes c (key v) (key w) G) then pure <| (.wI, toPublic G)
      else compileWI c v w aset rest

/-- the branch `V ≠ I` (and `W ≠ I`) -/
def compileVNeI (c : Ctx) (v w : PS) (aset : List PS) : Except Fail (Branch × List PS) := do
  let gp ← subsystemCompiler c w
  let vp ← leftFactor c gp
  let seq ← leftMapOverA vp v aset
  let ext ← extendAll c seq
  match (← firstOk (checkRes c (key v) (key w)) [gp ++ ext, ext ++ gp, gp.reverse ++ ext] 0) with
  | some (i, G) => pure <| (.vNeICand i, toPublic G)
  | none => pure <| (.vNeIFallback, toPublic (gp ++ ext))

/-- the `for W1, W2 in _candidate_decompositions(W)` loop of the branch `V = I` -/
def tryDecomps (c : Ctx) (w : PS) (aset : List PS) : List (PS × PS) → Except Fail (Option (Branch × List PS))
  | [] => pure <| none
  | (w1, w2) :: rest => do
    let g1 ← subsystemCompiler c w1
    let g2 ← subsystemCompiler c w2
    let v1p ← leftFactor c g1
    let v2p ← leftFactor c g2
    let aseq ← leftMapOverA v2p v1p aset
    let aext ← extendAll c aseq
    match (← case3BestReordering c g1 g2 aext w) with
    | some (ph, s) => pure <| some (.vICase3 ph, toPublic s)
    | none => tryDecomps c w aset rest

/-- `next(i for i, ch in enumerate(wstr) if ch != "I")` -/
def firstNonI : List Letter → Nat → Option (Nat × Letter)
  | [], _ => none
  | l :: rest, j => if l != Letter.I then some (j, l) else firstNonI rest (j + 1)

/-- the branch `V = I` -/
def compileVI (c : Ctx) (w : PS) (aset : List PS) : Except Fail (Branch × List PS) := do
  let cands ← candidateDecompositions c w
  match (← tryDecomps c w aset cands) with
  | some r => pure <| r
  | none =>
    match (← bfsCase3 c w) with
    | some s => pure <| (.vIBfs, toPublic s)
    | none =>
      match firstNonI (key w) 0 with
      | none => throw ⟨.stopIteration, .compile⟩
      | some (j, ch) =>
        let lab : Letter := if ch == .Z then .X else if ch == .X then .Z else .X
        let w1 ← liftAt .compile (getSingle c.nRight j lab)
        let w2 ← cMultiply w1 w
        let g1 ← subsystemCompiler c w1
        let g2 ← subsystemCompiler c w2
        let v1p ← leftFactor c g1
        let v2p ← leftFactor c g2
        let aseq ← leftMapOverA v2p v1p aset
        let aext ← extendAll c aseq
        pure <| (.vILast, toPublic (g1.reverse ++ aext ++ g2.reverse))

/-- `compile(V, W)` with `Aset` given -/
def compileWith (c : Ctx) (aset : List PS) (v w : PS) : Except Fail (Branch × List PS) :=
  if (v.len : Int) ≠ c.k ∨ (w.len : Int) ≠ c.nRight then throw ⟨.other, .compile⟩    -- assert
  else if w.isIdentity then compileWI c v w aset aset
  else if !v.isIdentity then compileVNeI c v w aset
  else compileVI c w aset

/-- `OptimalPauliCompiler.compile(V_left, W_right)` -/
def compile (c : Ctx) (v w : PS) : Except Fail (Branch × List PS) := do
  let aset ← liftAt .leftAMinimal (leftAMinimal c.k)
  compileWith c aset v w

/-- `compile_target(target, k_left)` end to end, with the branch that returned -/
def compileTargetB (target : PS) (kLeft : Int) : Except Fail (Branch × List PS) := do
  let n : Int := target.len
  if ¬ (1 ≤ kLeft ∧ kLeft < n) then throw ⟨.valueError, .compileTarget⟩
  let v := target.getSubstring 0 kLeft
  let w := target.getSubstring kLeft (n - kLeft)
  let c ← mkCtx kLeft n
  compile c v w

/-- `compile_target(target, k_left)` -/
def compileTarget (target : PS) (kLeft : Int) : Except Fail (List PS) :=
  (compileTargetB target kLeft).map (·.2)

end Compiler
end PauLie
