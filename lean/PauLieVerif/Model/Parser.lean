/-
Model of `src/paulie/common/pauli_string_parser.py`.

The scanner is modelled over `List Char`.  Python's `int()` is modelled
explicitly (`pyInt`): Unicode decimal digits (blocks of ten starting at the
code points in `ndZeros`, tied to the running interpreter by
`Generated.Tables`), surrounding whitespace, an optional sign, single
underscores between digits, and CPython's 4300-digit limit.
-/
import PauLieVerif.Model.PS

namespace PauLie
namespace Parser

/-- Code points of the digit ZERO of every Unicode (15.0) decimal-digit block;
each block is ten consecutive code points with values 0..9. -/
def ndZeros : List Nat :=
  [48, 1632, 1776, 1984, 2406, 2534, 2662, 2790, 2918, 3046, 3174, 3302, 3430, 3558, 3664,
   3792, 3872, 4160, 4240, 6112, 6160, 6470, 6608, 6784, 6800, 6992, 7088, 7232, 7248, 42528,
   43216, 43264, 43472, 43504, 43600, 44016, 65296, 66720, 68912, 69734, 69872, 69942, 70096,
   70384, 70736, 70864, 71248, 71360, 71472, 71904, 72016, 72784, 73040, 73120, 73552, 92768,
   92864, 93008, 120782, 120792, 120802, 120812, 120822, 123200, 123632, 124144, 125264, 130032]

/-- Characters `int()` strips from both ends. -/
def intSpaces : List Nat :=
  [9, 10, 11, 12, 13, 32, 133, 160, 5760, 8192, 8193, 8194, 8195, 8196, 8197, 8198, 8199,
   8200, 8201, 8202, 8232, 8233, 8239, 8287, 12288]

/-- CPython `sys.int_info.default_max_str_digits` -/
def maxStrDigits : Nat := 4300

/-- `int(ch)` for a single character: the digit value, or `none` (ValueError). -/
def digitVal? (c : Char) : Option Nat :=
  match ndZeros.find? (fun z => z ≤ c.toNat ∧ c.toNat < z + 10) with
  | some z => some (c.toNat - z)
  | none => none

def isSpace (c : Char) : Bool := intSpaces.contains c.toNat

/-- digits with single underscores strictly between digits: `d (_? d)*`;
returns the digit values -/
def digitsUnderscore : List Char → Option (List Nat)
  | [] => none
  | [c] => (digitVal? c).map (fun d => [d])
  | c :: '_' :: t' =>
    match digitVal? c, digitsUnderscore t' with
    | some d, some ds => some (d :: ds)
    | _, _ => none
  | c :: d :: t =>
    match digitVal? c, digitsUnderscore (d :: t) with
    | some v, some ds => some (v :: ds)
    | _, _ => none

def valOfDigits (ds : List Nat) : Nat := ds.foldl (fun a d => 10 * a + d) 0

def stripLeft : List Char → List Char
  | [] => []
  | c :: t => if isSpace c then stripLeft t else c :: t

def strip (l : List Char) : List Char := (stripLeft (stripLeft l).reverse).reverse

/-- `int(text)` (base 10): `none` stands for ValueError. -/
def pyInt (text : List Char) : Option Int :=
  let body := strip text
  let (neg, rest) :=
    match body with
    | '+' :: t => (false, t)
    | '-' :: t => (true, t)
    | t => (false, t)
  match digitsUnderscore rest with
  | none => none
  | some ds =>
    if ds.length > maxStrDigits then none
    else
      let v : Int := valOfDigits ds
      some (if neg then -v else v)

def GATES : List Char := ['I', 'X', 'Y', 'Z']
def LOWCASE : Char := '_'
def SIZE : Char := 's'
def isToken (c : Char) : Bool := GATES.contains c || c == LOWCASE || c == SIZE

/-- The inner `while` of a positioned operator: consume characters up to (not
including) the next token; a non-token non-digit raises ValueError
(`_is_number`).  Returns the digit characters and the unread rest. -/
def scanNumber : List Char → Except Err (List Char × List Char)
  | [] => .ok ([], [])
  | c :: t =>
    if isToken c then .ok ([], c :: t)
    else
      match digitVal? c with
      | none => .error .valueError
      | some _ =>
        match scanNumber t with
        | .error e => .error e
        | .ok (ds, rest) => .ok (c :: ds, rest)

theorem scanNumber_length : ∀ (l : List Char) ds rest,
    scanNumber l = .ok (ds, rest) → rest.length ≤ l.length := by
  intro l
  induction l with
  | nil => intro ds rest h; simp [scanNumber] at h; simp [h.2.symm]
  | cons c t ih =>
    intro ds rest h
    unfold scanNumber at h
    split at h
    · simp at h; simp [← h.2]
    · split at h
      · simp at h
      · split at h
        · simp at h
        · rename_i ds' rest' heq
          simp at h
          have := ih ds' rest' heq
          simp [← h.2]; omega

def isAsciiDigit (c : Char) : Bool := '0' ≤ c && c ≤ '9'

/-- `_to_int(p)`: since the `fix:` commit the text must satisfy
`p.isascii() and p.isdigit()` (non-empty, ASCII digits only) before `int(p)`
is consulted (which still enforces the 4300-digit limit). -/
def toInt (p : List Char) : Except Err Int :=
  if p.isEmpty || !(p.all isAsciiDigit) then .error .valueError
  else
    match pyInt p with
    | some v => .ok v
    | none => .error .valueError

def gateLetter (c : Char) : Letter := (Letter.ofChar? c).getD .I

/-- The main `while i < len(pauli_string)` loop; `acc` is `new_pauli_string`. -/
def parseOps (rest : List Char) (acc : List Letter) : Except Err (List Letter) :=
  match h : rest with
  | [] => .ok acc
  | c :: t =>
    if ¬ GATES.contains c then .error .valueError
    else
      match h2 : t with
      | '_' :: d :: t' =>
        -- `i < len - 2 and s[i+1] == '_'`: at least three characters remain
        match h3 : scanNumber (d :: t') with
        | .error e => .error e
        | .ok (ds, rest') =>
          match toInt ds with
          | .error e => .error e
          | .ok position =>
            if position - acc.length - 1 < 0 then .error .valueError
            else
              have : rest'.length < rest.length := by
                have := scanNumber_length _ _ _ h3
                subst h; subst h2; simp at *; omega
              parseOps rest'
                (acc ++ List.replicate (position - acc.length - 1).toNat Letter.I ++ [gateLetter c])
      | _ =>
        have : t.length < rest.length := by subst h; subst h2; simp
        parseOps t (acc ++ [gateLetter c])
termination_by rest.length

/-- index of the first `s`, splitting the text into (before, after) -/
def splitAtSize : List Char → Option (List Char × List Char)
  | [] => none
  | c :: t =>
    if c == SIZE then some ([], t)
    else match splitAtSize t with
      | some (a, b) => some (c :: a, b)
      | none => none

/-- `pauli_string_parser(text)` -/
def parse (text : List Char) : Except Err (List Letter) := do
  let (body, size) ←
    match splitAtSize text with
    | none => pure (text, (none : Option Int))
    | some (before, after) =>
      if after.isEmpty then throw Err.valueError
      else
        let sz ← toInt after
        pure (before, some sz)
  let new ← parseOps body []
  match size with
  | none => return new
  | some sz =>
    if sz < new.length then throw Err.valueError
    else return new ++ List.replicate (sz - new.length).toNat Letter.I

/-- `PauliString(pauli_str=text, n=n)` -/
def mkPS (text : List Char) (n : Option Int := none) : Except Err PS := do
  let w ← parse text
  let p := PS.ofLetters w
  match n with
  | none => return p
  | some n =>
    if n > p.len then
      let pad ← PS.identity (n - p.len)
      return PS.ofBits (PS.tensor p pad).bits
    else return p

end Parser
end PauLie
