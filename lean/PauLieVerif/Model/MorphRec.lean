/-
Model of `classifier/recording_morph_factory.py` (class `RecordingMorphFactory`)
— the builder used when a `RecordGraph` is attached to a collection.  It is a
separately maintained copy of `MorphFactory` that has DRIFTED; this file models
the drifted code exactly (property C11 is false of it, and the check of C11
recognises the known failure by "the recorded result is what this model says").

What is shared with `Model/Morph.lean`: every helper whose text is identical in
the two Python files (`find`, `append` (the recording copy has no check mode, the
flag is never set here), `remove`, `replace`, `get_lits`, `get_pq`,
`get_two_legs`, `_get_queue` …) is reused through a lift of the plain factory
monad.  What is transcribed again, branch by branch, with the frames written by
`recording_graph` as a write-only log:

  * `lit` (writes a "Dependent" frame before raising),
  * `append_to_two_center`, steps I, II, III, `_lit_center`, V, VII — same control
    flow as the plain factory, but every attachment to the centre is a bare
    `append(lighting, center)`: the recording copy has no `append_to_center` /
    `check_dependency_one_leg`                                          [drift]
  * step IV `_reduce_long_leg_more_than_one_lits` — a different loop     [drift]
  * step VI — no dependency check, and the long leg is truncated BEFORE the old
    last vertex is re-attached                                           [drift]
  * `_pipeline` — no `_append_fast`                                      [drift]
  * `build` — delayed vertices are not restored after `NotConnectedException`
    or a foreign exception                                               [drift]

A frame is modelled by its title, the vertex list of the graph it carries (if it
was recorded with `collection=`) and its `init` flag; the other attributes
(`lits`, `contracting`, …) are pure functions of the state that never feed back
and are not observed by C11.
-/
import PauLieVerif.Model.Morph

namespace PauLie
namespace MorphRec
open Morph

structure Frame where
  title : String
  graph : Option (List PS) := none
  init : Bool := false
  deriving Repr, Inhabited

structure RF where
  mf : MF := {}
  frames : List Frame := []     -- newest first
  via : List String := []       -- model-only: exit taken by each pipeline run, newest first
  deriving Repr, Inhabited

abbrev RM := ExceptT Exc (StateM RF)

/-- run an action of the plain factory on the factory part of the state -/
def liftMF {α} (x : MFM α) : RM α :=
  ExceptT.mk (fun (s : RF) =>
    let (r, mf') := x.run.run s.mf
    (r, { s with mf := mf' }))

instance : MonadLift MFM RM := ⟨liftMF⟩

/-- `recording_graph(self.record, ..., title=…)` without `collection` -/
def frame (title : String) (graph : Option (List PS) := none) (init : Bool := false) : RM Unit :=
  modifyThe RF (fun s => { s with frames := ⟨title, graph, init⟩ :: s.frames })

def mark (t : String) : RM Unit := modifyThe RF (fun s => { s with via := t :: s.via })

/-- frame titled `Step <step>: <lighting>` -/
def stepFrame (step : String) (lighting : PS) : RM Unit := frame s!"Step {step}: {lighting}"

/-- the same with `collection=self.get_vertices()` -/
def collFrame (step : String) (lighting : PS) : RM Unit := do
  let vs : List PS ← getVertices
  frame s!"Step {step}: {lighting}" (some vs)

/-- `lit(lighting, vertex)` of the recording factory -/
def litR (lighting vertex : PS) : RM PS := do
  let l ← liftErr (lighting.multiply vertex)
  if (← isIncluded l) then
    frame s!"Dependent: {l}"
    throw .dependent
  return l

/-- `lighting = self.lit(lighting, v); recording_graph(…, title=f"Step <step>: {lighting}")` -/
def litF (step : String) (lighting v : PS) : RM PS := do
  let l ← litR lighting v
  stepFrame step l
  return l

def litSeqF (step : String) (lighting : PS) (vs : List PS) : RM PS :=
  vs.foldlM (fun l v => litF step l v) lighting

/-- model-only: would the plain factory's `check_dependency_one_leg` have refused
this attachment?  (marks the runs on which the missing test is effective) -/
def markIfPlainRefuses (lighting : PS) : RM Unit := do
  let s ← getThe RF
  match ((checkDependencyOneLeg lighting).run.run s.mf).1 with
  | .error .dependent => mark "!dep"
  | _ => pure ()

/-- `append_to_two_center(lighting)` -/
def appendToTwoCenterR (lighting : PS) : RM Unit := do
  let center ← getCenter
  if (← getLegs).length == 1 then
    stepFrame "I" lighting
    stepFrame "I" lighting
    append lighting center
    return
  let vertices : List PS ← getVertices
  let lits ← getLitsOf lighting vertices
  stepFrame "I" lighting
  if lits.length == 1 then
    if mem lits center then
      append lighting center
      stepFrame "I" lighting
      return
    else
      let l ← litF "I" lighting (← idx lits 0)
      let l ← litF "I" l center
      append l center
      stepFrame "I" l
      return
  if lits.length == 2 then
    let l ← litF "I" lighting center
    append l center
    stepFrame "I" l
    return
  throw .notConnected

/-- Step I -/
def appendThreeGraphR : RM Unit := do
  let lighting ← getLighting
  stepFrame "I" lighting
  if (← isEmpty) then
    setLegs [[lighting]]
    mark "I0"
    throw .appended
  if (← isIncluded lighting) then
    frame s!"Dependent: {lighting}"
    throw .dependent
  if (← isEmptyLegs) then
    appendToTwoCenterR lighting
    mark "I"
    throw .appended
  setLighting lighting

/-- Step II -/
def appendOneLegsInDifferentStateR : RM Unit := do
  let lighting ← getLighting
  let pq? ← getPQ lighting
  stepFrame "II" lighting
  match pq? with
  | some (pq, p) =>
    stepFrame "II" lighting
    let lits ← getLits lighting
    stepFrame "II" lighting
    for lt in lits do
      if !(lt.beq p) then
        let v ← liftErr (pq.multiply lt)
        if (← isIncluded v) then
          frame s!"Dependent: {lighting}"
          throw .dependent
    for lt in lits do
      if !(lt.beq p) then
        let v ← liftErr (pq.multiply lt)
        replace lt v
    collFrame "II" lighting
    append lighting p
    let longLeg ← getLongLeg
    if longLeg.length > 4 then
      for v in longLeg.drop 4 do appendDelayed v
      -- `removing` has `len(long_leg) - 4 > 0` members: the frame is always written
      stepFrame "II" lighting
      remove (← idx longLeg 4)
    collFrame "II" lighting
    mark "II"
    throw .appended
  | none => setLighting lighting

/-- Step III (control flow of the plain factory, a frame after every `lit`) -/
def litOnlyLongLegR : RM Unit := do
  let mut lighting ← getLighting
  stepFrame "III" lighting
  let omega ← getOneVertex
  let center ← getCenter
  let centerLits ← getLitsOf lighting [center]
  let lits ← getLitsOf lighting [omega]
  if mem lits omega then
    if !(mem centerLits center) then lighting ← litF "III" lighting omega
    lighting ← litF "III" lighting center
  let mut twoLegs ← getTwoLegs
  let longLeg ← getLongLeg
  if longLeg.length == 2 then twoLegs ← dropLastPy twoLegs
  else if longLeg.length == 1 then
    setLighting lighting
    return
  if twoLegs.length == 0 then
    setLighting lighting
    return
  let longLits ← getLitsOf lighting longLeg
  if longLits.length == 0 then
    let centerLits ← getLitsOf lighting [center]
    if mem centerLits center then
      lighting ← litSeqF "III" lighting [center, (← idx longLeg 0), omega, center]
    else
      for (v0, v1) in twoLegs do
        let mut lits ← getLitsOf lighting [v0, v1]
        if mem lits v1 && !(mem lits v0) then
          lighting ← litF "III" lighting v1
          lits := lits ++ [v0]
        if mem lits v0 then
          lighting ← litSeqF "III" lighting [v0, center, (← idx longLeg 0), omega, center]
          break
  let longLits ← getLitsOf lighting longLeg
  let litIndexes := getLitIndexes longLeg longLits
  if !(litIndexes.contains 1) then
    if litIndexes.contains 0 then
      lighting ← litF "III" lighting (← idx longLeg 0)
    else
      if litIndexes.length == 0 then throw .notConnected
      let firstLit ← idx litIndexes 0
      for i in rangeDown firstLit 1 do
        lighting ← litF "III" lighting (← idx longLeg i)
  let longV0 ← idx longLeg 0
  let longV1 ← idx longLeg 1
  for (v0, v1) in twoLegs do
    let mut lits ← getLitsOf lighting [v0, v1]
    if !(mem lits v0) && !(mem lits v1) then continue
    if mem lits v0 && !(mem lits v1) then
      lighting ← litF "III" lighting v0
      lits := lits ++ [v1]
    else if !(mem lits v0) && mem lits v1 then
      lighting ← litF "III" lighting v1
      lits := lits ++ [v0]
    if mem lits v0 && mem lits v1 then
      let centerLits ← getLitsOf lighting [center]
      if mem centerLits center then
        lighting ← litSeqF "III" lighting [center, v1, v0, omega, center]
      else
        let longLits ← getLitsOf lighting [(← idx longLeg 0)]
        if longLits.length == 0 then lighting ← litF "III" lighting longV1
        lighting ← litSeqF "III" lighting [longV0, center, omega, v1, v0, center]
  setLighting lighting

/-- `_lit_center` (its frames are titled "Step IV") -/
def litCenterR : RM Unit := do
  let mut lighting ← getLighting
  stepFrame "IV" lighting
  let center ← getCenter
  let centerLits ← getLitsOf lighting [center]
  if !(mem centerLits center) then
    let longLeg ← getLongLeg
    let longLits ← getLitsOf lighting longLeg
    let litIndexes := getLitIndexes longLeg longLits
    let firstLit ← idx litIndexes 0
    for i in rangeDown firstLit (-1) do
      lighting ← litF "IV" lighting (← idx longLeg i)
  setLighting lighting

/-- the block `if len(lits) == 1: …` that occurs twice in the loop of step IV;
`true` = the loop is left (`break`) -/
def oneLitBlock (lighting : PS) (longLeg lits : List PS) : RM Bool := do
  if lits.length == 1 then
    let l0 ← idx lits 0
    if (← idx longLeg 0).beq l0 || (← idx longLeg (-1)).beq l0 then return true
    -- here `long_leg[0] != lits[0]` necessarily holds
    let li := getLitIndexes longLeg lits
    let i0 ← idx li 0
    if i0 < longLeg.length - 1 then
      for v in longLeg.drop (i0 + 1) do appendDelayed v
      stepFrame "IV" lighting
      remove (← idx longLeg ((i0 : Int) + 1))
      collFrame "IV" lighting
    return true
  return false

/-- Step IV of the recording factory [drift: different loop body, attachment to the
centre without the dependency test]; the `while True` takes fuel -/
def reduceLongLegR : RM Unit := do
  let mut lighting ← getLighting
  stepFrame "IV" lighting
  let omega ← getOneVertex
  let center ← getCenter
  let longLeg ← getLongLeg
  let v0 ← idx longLeg 0
  let n := longLeg.length
  let mut fuel := 4 * (n + 2) * (n + 2) + 16
  let mut done := false
  while !done do
    if fuel == 0 then throw .outOfFuel
    fuel := fuel - 1
    let lits ← getLitsOf lighting longLeg
    if lits.length == 0 then
      markIfPlainRefuses lighting
      append lighting center
      stepFrame "IV" lighting
      mark "IVc"
      throw .appended
    if (← oneLitBlock lighting longLeg lits) then
      done := true
      continue
    if lits.length == 2 then
      let li := getLitIndexes longLeg lits
      if (← idx li 0) == 0 && (← idx li 1) == n - 1 then
        done := true
        continue
    let li := getLitIndexes longLeg lits
    let first ← idx li 0
    let second ← idx li 1
    if first > 0 && first + 1 != second then
      for i in rangeDown second first do
        lighting ← litF "IV" lighting (← idx longLeg i)
    let lits ← getLitsOf lighting longLeg
    if (← oneLitBlock lighting longLeg lits) then
      done := true
      continue
    let li := getLitIndexes longLeg lits
    if li.length > 0 then
      let first ← idx li 0
      if first != 0 then
        for i in rangeDown first 0 do
          lighting ← litF "IV" lighting (← idx longLeg i)
    let lits ← getLitsOf lighting longLeg
    if lits.length == 1 then
      let l0 ← idx lits 0
      if (← idx longLeg 0).beq l0 || (← idx longLeg (-1)).beq l0 then
        done := true
        continue
    if mem lits v0 then
      lighting ← litF "IV" lighting center
      lighting ← litF "IV" lighting omega
      let lits ← getLitsOf lighting longLeg
      stepFrame "IV" lighting
      let li := getLitIndexes longLeg lits
      let first ← idx li 0
      for i in rangeDown first (-1) do
        lighting ← litF "IV" lighting (← idx longLeg i)
      lighting ← litF "IV" lighting center
  setLighting lighting

/-- Step V [drift: bare `append(lighting, center)`] -/
def appendLongLegFirstAndCenterLitR : RM Unit := do
  let mut lighting ← getLighting
  stepFrame "V" lighting
  let omega ← getOneVertex
  let center ← getCenter
  let lits ← getLitsOf lighting [center, omega]
  let isCenterLit := mem lits center
  let longLeg ← getLongLeg
  let lits ← getLitsOf lighting longLeg
  if isCenterLit && lits.length == 0 then
    markIfPlainRefuses lighting
    append lighting center
    stepFrame "V" lighting
    mark "Vc"
    throw .appended
  let litIndexes := getLitIndexes longLeg lits
  if litIndexes.length == 1 && litIndexes.contains 0 then
    let mut canConnectToEnd := true
    if (← isTwoLeg) && longLeg.length > 3 then canConnectToEnd := false
    if canConnectToEnd then
      lighting ← litSeqF "V" lighting longLeg
      append lighting (← idx longLeg (-1))
      stepFrame "V" lighting
      mark "Ve"
      throw .appended
    let twoLegs ← getTwoLegs
    let (v0, v1) ← idx twoLegs 0
    let l0 ← idx longLeg 0
    lighting ← litSeqF "V" lighting [center, v0, omega, center, l0, v1, v0, center]
    let l1 ← idx longLeg 1
    lighting ← litSeqF "V" lighting [l1, l0]
    let l2 ← idx longLeg 2
    lighting ← litSeqF "V" lighting [l2, l1]
    let l3 ← idx longLeg 3
    lighting ← litSeqF "V" lighting [l3, l2, omega, center, l0, l1, v0, v1, center, l0, v0, center]
    stepFrame "V" lighting
    markIfPlainRefuses lighting
    append lighting center
    mark "Vx"
    throw .appended
  setLighting lighting

/-- Step VI [drift: no `check_dependency_one_leg`; truncation before re-attaching `last_v`] -/
def appendLongLegOnlyLastLitR : RM Unit := do
  let mut lighting ← getLighting
  stepFrame "VI" lighting
  let center ← getCenter
  let longLeg ← getLongLeg
  let lits ← getLitsOf lighting longLeg
  if lits.length == 1 then
    markIfPlainRefuses lighting
    let lastV ← idx longLeg (-1)
    if longLeg.length == 1 then
      lighting ← litF "VI" lighting lastV
      stepFrame "VI" lighting
      append lighting lastV
      mark "VI1"
      throw .appended
    let g ← idx longLeg ((longLeg.length : Int) - 2)
    let omega ← getOneVertex
    let pq ← liftErr (omega.multiply lighting)
    let newG ← liftErr (pq.multiply g)
    if (← isIncluded newG) then
      frame s!"Dependent: {lighting}"
      throw .dependent
    stepFrame "VI" lighting
    remove lastV
    collFrame "VI" lighting
    stepFrame "VI" lighting
    append lighting center
    collFrame "VI" lighting
    stepFrame "VI" lighting
    replace g newG
    collFrame "VI" lighting
    let longLeg ← getLongLeg
    if longLeg.length > 4 then
      for v in longLeg.drop 4 do appendDelayed v
      stepFrame "VI" lighting
      remove (← idx longLeg 4)
    collFrame "VI" lighting
    append lastV lighting
    mark "VI"
    throw .appended
  setLighting lighting

/-- Step VII [drift: bare `append(lighting, center)`] -/
def appendLongLegLastAndFirstLitR : RM Unit := do
  let mut lighting ← getLighting
  stepFrame "VII" lighting
  let omega ← getOneVertex
  let center ← getCenter
  let longLeg ← getLongLeg
  let firstV ← idx longLeg 0
  for i in rangeDown ((longLeg.length : Int) - 1) 0 do
    lighting ← litF "VII" lighting (← idx longLeg i)
  lighting ← litSeqF "VII" lighting [center, omega, firstV, center]
  stepFrame "VII" lighting
  markIfPlainRefuses lighting
  append lighting center
  mark "VII"
  throw .appended

/-- `_pipeline(lighting)` of the recording factory [drift: no `_append_fast`] -/
def pipelineR (lighting : PS) : RM Unit := do
  setLighting lighting
  appendThreeGraphR
  appendOneLegsInDifferentStateR
  litOnlyLongLegR
  litCenterR
  reduceLongLegR
  appendLongLegFirstAndCenterLitR
  appendLongLegOnlyLastLitR
  appendLongLegLastAndFirstLitR

def runPipelineR (s : RF) (lighting : PS) : Except Exc Unit × RF :=
  (pipelineR lighting).run.run s

structure RecBuildResult where
  legs : List (List PS)
  dependents : List PS
  unappended : List PS
  tags : List String       -- outcome per pipeline call, then the exits taken
  complete : Bool
  frames : List Frame      -- oldest first; WITHOUT the closing "Algebra: …" frame (added by `Classify.classifyRec`)
  deriving Repr, Inhabited

def finish (st : RF) (unappended : List PS) (tags : List String) (complete : Bool) : RecBuildResult :=
  ⟨st.mf.legs, st.mf.dependents, unappended, tags ++ ["|"] ++ st.via.reverse, complete, st.frames.reverse⟩

/-- `build(generators)` of the recording factory, up to the end of its `while` loop -/
def buildRec (gens : List PS) : Except Err RecBuildResult := do
  if gens.isEmpty then return ⟨[], [], [], [], true, []⟩
  -- `_get_queue` &c. are textually identical copies of the plain factory's
  match ← getQueue gens with
  | none => return ⟨[], [], [], ["queue-hang"], false, []⟩
  | some queue =>
    let mut st : RF := { frames := [⟨"Original graph", some queue, true⟩] }
    let mut vertices := queue
    let mut unappended : List PS := []
    let mut tags : List String := []
    let mut fuel := (queue.length + 2) * (queue.length + 2) * (queue.length + 2) + 64
    while vertices.length > 0 do
      if fuel == 0 then return finish st unappended tags false
      fuel := fuel - 1
      match vertices with
      | [] => break
      | lighting :: rest =>
        st := { st with frames := ⟨s!"Adding: {lighting}", some st.mf.legs.flatten, false⟩ :: st.frames }
        vertices := rest
        let (r, st') := runPipelineR st lighting
        st := st'
        let restore := fun (vs : List PS) (s : RF) =>
          (s.mf.delayed ++ vs, { s with mf := { s.mf with delayed := [] } })
        match r with
        | .ok () => tags := tags ++ ["R"]
        | .error e =>
          tags := tags ++ [excTag e]
          match e with
          | .appended =>
            let (vs, s) := restore vertices st
            vertices := vs; st := s
            if mem unappended lighting then unappended := removeFirst unappended lighting
          | .dependent =>
            st := { st with mf := { st.mf with dependents := st.mf.dependents ++ [lighting] } }
            let (vs, s) := restore vertices st
            vertices := vs; st := s
          | .notConnected =>
            -- [drift] no `restore_delayed` here
            if !(mem unappended lighting) then
              unappended := unappended ++ [lighting]
              vertices := vertices ++ [lighting]
          | .outOfFuel => return finish st unappended tags false
          | _ =>
            -- [drift] no `restore_delayed` here
            unappended := unappended ++ [lighting]
    return finish st unappended tags true

end MorphRec
end PauLie
