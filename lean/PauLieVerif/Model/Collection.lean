/-
Model of the *mutable* part of `PauliStringCollection`
(src/paulie/common/pauli_string_collection.py): the list of generators, the cached
classification (`self.classification`), the public edits of property C10

    append  insert  remove  __delitem__  replace  contract  expand  sort  copy

and the queries, each a function of `(generators, cache)` that may fill the cache.

The classifier is a *parameter* `K : List PS → Option C × Option Err`
("what `classify()` leaves in `self.classification`, and the exception it raises
if any"), so that the refinement theorem of C10 (Properties/C10.lean) does not
depend on the 700-line reduction; `Kmodel` instantiates it with the modelled
classifier.  Value semantics: Python's aliasing of element objects between a
collection and its `copy()` is not visible here (the correspondence harness
checks it on the implementation).
-/
import PauLieVerif.Model.Classify

namespace PauLie
namespace Collection

structure Coll (C : Type) where
  gens : List PS
  cache : Option C

inductive Op where
  | append (p : PS)
  | insert (i : Int) (p : PS)
  | remove (p : PS)
  | delitem (i : Int)
  | replace (p q : PS)
  | contract (p q : PS)
  | expand (n : Int)
  | sort
  | copy
  deriving Repr

/-! ### the list edits, exactly as the Python performs them -/

/-- `len(max(self.generators, key=len))` -/
def longest (gens : List PS) : Nat := gens.foldl (fun m g => max m g.len) 0

/-- `PauliStringCollection.expand(n)` on the list: all-or-nothing (the new list is
assigned after the comprehension) -/
def expandAll (gens : List PS) (n : Int) : Except Err (List PS) :=
  gens.mapM (fun g => g.expand n)

/-- `_processing(p)`: returns the (possibly expanded) list and the padded string -/
def processing (gens : List PS) (p : PS) : Except Err (List PS × PS) :=
  if gens.isEmpty then .ok (gens, p)
  else
    let l := longest gens
    if p.len < l then do
      let p' ← p.expand l
      return (gens, p')
    else if p.len > l then do
      let g' ← expandAll gens p.len
      return (g', p)
    else .ok (gens, p)

/-- Python `list.insert(i, x)` -/
def pyInsert {α} (l : List α) (i : Int) (x : α) : List α :=
  let n : Int := l.length
  let j : Int := if i < 0 then max 0 (i + n) else min i n
  l.take j.toNat ++ x :: l.drop j.toNat

/-- index of the first generator equal (`==` on bits) to `p` -/
def findIdx (gens : List PS) (p : PS) : Option Nat := gens.findIdx? (fun g => g.beq p)

/-- Python `list.remove(x)` for an `x` known to be present: drops the first equal element -/
def removeFirst (gens : List PS) (p : PS) : List PS :=
  match findIdx gens p with
  | some i => gens.eraseIdx i
  | none => gens

/-- `generators.sort()`: stable, `__lt__` is lexicographic on `bits` -/
def sortGens (gens : List PS) : List PS := gens.mergeSort (fun a b => a.le b)

/-- does the edit execute `self.classification = None` ? (`replace`: only when the
string is found; `contract`: only when the product could be formed and the string
is found; `sort`: never) -/
inductive Effect where
  | keep      -- cache untouched
  | drop      -- cache := None
  deriving DecidableEq, Repr

/-- One public edit on the generator list.  Returns the new list, whether the cache is
dropped, and the exception raised if any (the state after an exception is the state
Python leaves behind). -/
def editList (gens : List PS) : Op → List PS × Effect × Option Err
  | .append p =>
    match processing gens p with
    | .error e => (gens, .drop, some e)
    | .ok (g, p') => (if Graph.containsPS g p' then g else g ++ [p'], .drop, none)
  | .insert i p =>
    match processing gens p with
    | .error e => (gens, .drop, some e)
    | .ok (g, p') => (if Graph.containsPS g p' then g else pyInsert g i p', .drop, none)
  | .remove p => (if Graph.containsPS gens p then removeFirst gens p else gens, .drop, none)
  | .delitem i =>
    match PS.pyIndex? gens i with
    | some k => (gens.eraseIdx k, .drop, none)
    | none => (gens, .drop, some .indexError)
  | .replace p q =>
    match findIdx gens p with
    | none => (gens, .keep, none)
    | some k =>
      match processing gens q.copy with
      | .error e => (gens, .drop, some e)
      | .ok (g, q') => (g.set k q', .drop, none)
  | .contract p q =>
    match p.multiply q with
    | .error e => (gens, .keep, some e)
    | .ok r =>
      match findIdx gens p with
      | none => (gens, .keep, none)
      | some k =>
        match processing gens r.copy with
        | .error e => (gens, .drop, some e)
        | .ok (g, r') => (g.set k r', .drop, none)
  | .expand n =>
    match expandAll gens n with
    | .error e => (gens, .drop, some e)
    | .ok g => (g, .drop, none)
  | .sort => (sortGens gens, .keep, none)
  | .copy =>
    -- `PauliStringCollection(self.generators)`: a new object, nothing cached
    match Graph.collInit gens with
    | .error e => (gens, .keep, some e)
    | .ok g => (g, .drop, none)

/-- one public edit on the collection -/
def step {C} (s : Coll C) (op : Op) : Coll C × Option Err :=
  let (g, eff, err) := editList s.gens op
  (⟨g, match eff with | .keep => s.cache | .drop => none⟩, err)

def run {C} (s : Coll C) (ops : List Op) : Coll C := ops.foldl (fun s op => (step s op).1) s

/-- a freshly constructed collection holding these strings -/
def fresh {C} (gens : List PS) : Coll C := ⟨gens, none⟩

/-! ### queries -/

/-- `get_class()`: use the cache, or classify and store what `classify()` leaves in
`self.classification` (a partially filled object if it raised midway) -/
def getClass {C} (K : List PS → Option C × Option Err) (s : Coll C) : Coll C × Except Err C :=
  match s.cache with
  | some c => (s, .ok c)
  | none =>
    match K s.gens with
    | (stored, some e) => (⟨s.gens, stored⟩, .error e)
    | (some c, none) => (⟨s.gens, some c⟩, .ok c)
    | (none, none) => (s, .error .other)

/-- A query is either answered from the generators alone, or from the classification
and the generators; `pre` models the early exits taken *before* `get_class()` is
called (`if len(self) == 0: return False`); `R` is the type of answers. -/
inductive Query (C R : Type) where
  | plain (f : List PS → R)
  | classified (pre : List PS → Option R) (f : C → List PS → R)

def ask {C R} (K : List PS → Option C × Option Err) (s : Coll C) : Query C R → Coll C × Except Err R
  | .plain f => (s, .ok (f s.gens))
  | .classified pre f =>
    match pre s.gens with
    | some r => (s, .ok r)
    | none =>
      match getClass K s with
      | (s', .ok c) => (s', .ok (f c s.gens))
      | (s', .error e) => (s', .error e)

/-! ### the modelled classifier as `K` -/

abbrev Cls := List Classify.MorphR

/-- `classify()`: `get_subgraphs()` first (an exception there leaves `None`), then
`self.classification = Classification()` and one `build` per component (an exception
there leaves the morphs added so far). -/
def Kmodel (gens : List PS) : Option Cls × Option Err :=
  match Graph.getSubgraphs gens with
  | .error e => (none, some e)
  | .ok subs =>
    let rec go (acc : Cls) : List (List PS) → Option Cls × Option Err
      | [] => (some acc, none)
      | sub :: rest =>
        match Morph.build sub with
        | .error e => (some acc, some e)
        | .ok r => go (acc ++ [⟨r.legs, r.dependents, r.unappended, r.tags, r.complete⟩]) rest
    go [] subs

end Collection
end PauLie
