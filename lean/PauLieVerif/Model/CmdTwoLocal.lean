/-
Protocol commands of the two-local reference table (property C19).
  tlgens <family>          G_LIE[family]                      | !KeyError
  tl <n> <family>          gens=<k-local expansion> table=<text of two_local_algebras(n)[family]>
  tlclassify <n> <family>  the `classify` reply for the k-local expansion
`n < 3` is outside the documented domain of the table: `out-of-domain`.
-/
import PauLieVerif.Model.Proto
import PauLieVerif.Model.TwoLocal
import PauLieVerif.Model.CmdClassify

namespace PauLie
namespace CmdTwoLocal
open Proto TwoLocal

def handle (line : String) : Option String :=
  match line.splitOn " " with
  | ["tlgens", f] =>
    match Fam.ofName? f with
    | none => some "!KeyError"
    | some f => some (String.intercalate "," f.gens)
  | ["tl", n, f] => do
    let n ← n.toNat?
    if n < 3 then return "out-of-domain"
    match Fam.ofName? f with
    | none => return "!KeyError"
    | some f => return s!"gens={showExcept showPSList (klocal f n)} table={tlText f n}"
  | ["tlclassify", n, f] => do
    let n ← n.toNat?
    if n < 3 then return "out-of-domain"
    match Fam.ofName? f with
    | none => return "!KeyError"
    | some f =>
      match klocal f n with
      | .error e => return s!"!{e}"
      | .ok gs => CmdClassify.handle s!"classify {showPSList gs}"
  | _ => none

end CmdTwoLocal
end PauLie
