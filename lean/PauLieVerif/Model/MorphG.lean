/-
Instrumented copy of the reduction of `Model/Morph.lean` ("guarded model"): the same code, step by
step, in which every primitive that changes the *pool* of strings

    pool = vertices on the legs  ∪  candidate in hand  ∪  spare (cut off, not yet re-attached)  ∪  delayed

also runs a *local certificate check* on the transition it makes and records the verdict in a ghost
flag `ok`.  The ghost part is never read by the transcribed code, so erasing it gives back the plain
model (`Proofs/C02Erase.lean`: `buildG_erase`), and `ok = true` at the end implies that the canonical
vertices generate the same commutator closure as the generators (`Properties/C02.lean`).

Certified move kinds:
  * `litG`     — the candidate is multiplied by a vertex it anticommutes with (a contraction);
                 if the product is a vertex the candidate is a commutator of two vertices;
  * `moveG`    — `append`, `remove`, `appendDelayed`, first vertex: the pool keeps its members;
  * `replaceG` — a vertex is multiplied by the product `z = p·q` of two vertices, `z` commutes with
                 every vertex and the anticommutation graph of the vertices is connected (twist);
  * dependency verdicts — the candidate is a vertex / a product of three vertices reachable by
                 two commutators or of an odd number of commuting vertices sharing a neighbour.
Import-free and executable (command `guards`).
-/
import PauLieVerif.Model.Morph
import PauLieVerif.Model.Closure

namespace PauLie
namespace MorphG
open Morph

structure Ghost where
  cand : Option PS := none     -- the candidate in hand
  spare : List PS := []        -- copies of vertices cut off a leg
  pristine : Bool := true      -- legs and delayed list are those the pipeline run started with
  ok : Bool := true            -- every certificate check so far succeeded
  verdict : Bool := false      -- a certified dependency verdict on the candidate was given (property C08)
  why : String := ""           -- label of the first check that failed (diagnostics only)
  deriving Repr, Inhabited

structure MG where
  mf : MF := {}
  ghost : Ghost := {}
  deriving Repr, Inhabited

abbrev GM := ExceptT Exc (StateM MG)

def MG.vertices (s : MG) : List PS := s.mf.legs.flatten

def MG.pool (s : MG) : List PS :=
  s.vertices ++ s.ghost.cand.toList ++ s.ghost.spare ++ s.mf.delayed

/-- run a plain action on the factory part; the ghost part is updated from the state before, the
outcome and the factory after -/
def withGhost {α} (x : MFM α) (g : MG → Except Exc α → MF → Ghost) : GM α :=
  ExceptT.mk (fun (s : MG) =>
    let r := x.run.run s.mf
    (r.1, { mf := r.2, ghost := g s r.1 r.2 }))

/-- a plain action that does not touch the pool (reads, `set_lighting`) -/
def liftMF {α} (x : MFM α) : GM α := withGhost x (fun s _ _ => s.ghost)

instance : MonadLift MFM GM := ⟨liftMF⟩

/-- the strings anticommute (symplectic form of the bits) -/
def om (p q : PS) : Bool := Closure.omega p.bits q.bits

def isCand (g : Ghost) (p : PS) : Bool :=
  match g.cand with
  | some c => c.beq p
  | none => false

def Ghost.check (g : Ghost) (b : Bool) (lbl : String := "?") : Ghost :=
  { g with ok := g.ok && b, why := if g.ok && !b then lbl else g.why }

def sameMembers (a b : List PS) : Bool := a.all (fun x => mem b x) && b.all (fun x => mem a x)

/-- the string `v` leaves the hand (it has just been put on a leg) -/
def gTake (v : PS) (g : Ghost) : Ghost :=
  if isCand g v then { g with cand := none }
  else if mem g.spare v then { g with spare := removeFirst g.spare v }
  else g.check false "take"

/-- a dependency verdict on the candidate `x` whose certificate check gave `c` -/
def gDepend (x : PS) (c : Bool) (g : Ghost) : Ghost :=
  if isCand g x then { g.check c "dep-cert" with cand := none, verdict := true }
  else g.check false "dep-notcand"

/-- `lit`: contraction of the candidate with an anticommuting vertex -/
def litG (lighting vertex : PS) : GM PS :=
  withGhost (lit lighting vertex) (fun s r _ =>
    let g := ((s.ghost.check (isCand s.ghost lighting) "lit-cand").check (mem s.vertices vertex) "lit-vertex").check
      (om lighting vertex && lighting.bits.length == vertex.bits.length) "lit-commuting"
    match r with
    | .ok l => { g with cand := some l }
    | .error .dependent => { g with cand := none, verdict := true }
    | .error _ => g)

/-- the pool without the candidate -/
def MG.rest (s : MG) : List PS := s.vertices ++ s.ghost.spare ++ s.mf.delayed

/-- a move that only rearranges the pool: checked by comparing the members before and after -/
def moveG {α} (x : MFM α) (upd : MG → Except Exc α → MF → Ghost) : GM α :=
  withGhost x (fun s r mf' =>
    let g := upd s r mf'
    -- (while the candidate stays in hand the rest of the pool keeps its members as well: property C08)
    { (g.check (sameMembers (MG.pool { mf := mf', ghost := g }) s.pool) "move").check
        (g.cand.isNone || sameMembers (MG.rest { mf := mf', ghost := g }) s.rest) "move-rest" with pristine := false })

def appendG (v lt : PS) : GM Unit :=
  moveG (append v lt) (fun s r _ => match r with | .ok _ => gTake v s.ghost | .error _ => s.ghost)

/-- the vertices that leave the legs become spare -/
def removeG (v : PS) : GM Unit :=
  moveG (remove v) (fun s r mf' =>
    match r with
    | .ok _ => { s.ghost with spare := s.ghost.spare ++ s.vertices.filter (fun u => !(mem mf'.legs.flatten u)) }
    | .error _ => s.ghost)

def appendDelayedG (v : PS) : GM Unit := moveG (appendDelayed v) (fun s _ _ => s.ghost)

/-- `self.legs = [[lighting]]` of step I -/
def initLegsG (lighting : PS) : GM Unit :=
  moveG (setLegs [[lighting]]) (fun s _ _ => gTake lighting s.ghost)

/-- the vertices reachable from `seen` along anticommutation, `fuel` rounds -/
def reachLoop (vs : List PS) : Nat → List PS → List PS
  | 0, seen => seen
  | k + 1, seen =>
    reachLoop vs k (seen ++ vs.filter (fun u => !(mem seen u) && seen.any (fun r => om r u)))

def connectedFrom (vs : List PS) (p : PS) : Bool :=
  (vs.all (fun u => mem (reachLoop vs vs.length [p]) u))

/-- `z = p·q` for two members `p`, `q`, `z` commutes with every member, all members have the length
of `z`, and the anticommutation graph of `vs` is connected: then `v·z` is generated by `vs` for every
member `v` (`C02.clo_twist`) -/
def twistOk (vs : List PS) (z : List Bool) (p q : PS) : Bool :=
  mem vs p && mem vs q && xorB p.bits q.bits == z
    && vs.all (fun u => !(Closure.omega z u.bits) && u.bits.length == z.length) && connectedFrom vs p

def findTwin (vs : List PS) (z : List Bool) : Option (PS × PS) :=
  vs.findSome? (fun p => (vs.find? (fun q => xorB p.bits q.bits == z)).map (fun q => (p, q)))

/-- certificate check for `replace(v, vNew)` turning the vertex list `vs` into `vs'` -/
def replaceOk (vs vs' : List PS) (v vNew : PS) : Bool :=
  let z := xorB v.bits vNew.bits
  match findTwin (vs.filter (fun u => !(u.beq v))) z with
  | none => false
  | some (p, q) =>
    twistOk vs z p q && twistOk vs' z p q && mem vs v && mem vs' vNew && vNew.bits == xorB v.bits z
      && v.bits == xorB vNew.bits z
      && vs'.all (fun u => mem vs u || u.beq vNew) && vs.all (fun u => mem vs' u || u.beq v)

def replaceG (v vNew : PS) : GM Unit :=
  withGhost (replace v vNew) (fun s r mf' =>
    let rest (t : MG) : List PS := t.ghost.cand.toList ++ t.ghost.spare ++ t.mf.delayed
    let s' : MG := { mf := mf', ghost := s.ghost }
    match r with
    | .ok _ =>
      { s.ghost.check (replaceOk s.vertices s'.vertices v vNew && sameMembers (rest s') (rest s)
            && sameMembers (s.ghost.spare ++ mf'.delayed) (s.ghost.spare ++ s.mf.delayed)) "replace"
          with pristine := false }
    | .error _ =>
      { s.ghost.check (sameMembers s'.pool s.pool && sameMembers s'.rest s.rest) "replace-err" with pristine := false })

/-- `a·b·d` arises from `a, b, d` by two commutators, or the three commute and share an
anticommuting member of `vs` -/
def tripleOk (vs : List PS) (a b d : PS) : Bool :=
  (om a b && (om a d != om b d))
  || (om a d && (om a b != om d b))
  || (om b d && (om b a != om d a))
  || (!(om a b) && !(om a d) && !(om b d) && vs.any (fun c => om a c && om b c && om d c))

/-- `x` is the product of three members of `vs` passing `tripleOk` -/
def tripleCert (vs : List PS) (x : PS) : Bool :=
  vs.any (fun a => vs.any (fun b => vs.any (fun d =>
    x.bits == xorB a.bits (xorB b.bits d.bits) && tripleOk vs a b d)))

/-- product up to phase of a non-empty list -/
def prodBits : List PS → List Bool
  | [] => []
  | [a] => a.bits
  | a :: t => xorB a.bits (prodBits t)

def pairwiseComm : List PS → Bool
  | [] => true
  | a :: t => t.all (fun b => !(om a b)) && pairwiseComm t

/-- an odd number of members of `vs` that commute pairwise and all anticommute with the member `c`,
with product `x` -/
def oddProductOk (vs : List PS) (c : PS) (sub : List PS) (x : PS) : Bool :=
  sub.length % 2 == 1 && prodBits sub == x.bits && mem vs c && sub.all (fun a => mem vs a && om a c)
    && pairwiseComm sub

/-- the members of `ones` whose product is `x`: the elimination of `inSpan` on the strings extended
by a unit vector that remembers the member (its answer is checked by `oddProductOk`) -/
def spanWitness (ones : List PS) (x : List Bool) : List PS :=
  let k := ones.length
  let ext := (List.range k).zipWith
    (fun i (o : PS) => o.bits ++ (List.range k).map (fun j => i == j)) ones
  let basis := ext.foldl (fun basis v => insertBasis basis (reduceBy basis v)) []
  let r := reduceBy basis (x ++ List.replicate k false)
  let mask := r.drop x.length
  (ones.zip mask).filterMap (fun (o, b) => if b then some o else none)

/-- `get_one_vertices()` as a function of the legs -/
def onesOf (legs : List (List PS)) : List PS :=
  (((legs.drop 1).takeWhile (fun l => l.length == 1))).flatten

/-- certificate that `x` is generated by the vertices -/
def memberCert (legs : List (List PS)) (x : PS) : Bool :=
  let vs := legs.flatten
  mem vs x || tripleCert vs x ||
    (match legs with
     | (c :: _) :: _ => oddProductOk vs c (spanWitness (onesOf legs) x.bits) x
     | _ => false)

/-- `lam = x·a·b` for two vertices `a`, `b`, and `x, a, b` commute pairwise and share an
anticommuting vertex -/
def starTripleCert (vs : List PS) (x lam : PS) : Bool :=
  vs.any (fun a => vs.any (fun b =>
    lam.bits == xorB x.bits (xorB a.bits b.bits) && !(om x a) && !(om x b) && !(om a b)
      && x.bits.length == lam.bits.length
      && vs.any (fun c => om x c && om a c && om b c)))

/-- `check_dependency_one_leg(x)`; on a `DependentException` the ghost looks for a certificate that
the candidate is generated by the vertices (directly if `x` is the candidate; through `x` otherwise,
as in step VI where `x` is the vertex that would become a single leg) -/
def checkDepG (x : PS) : GM Unit :=
  withGhost (checkDependencyOneLeg x) (fun s r _ =>
    match r with
    | .error .dependent =>
      if isCand s.ghost x then gDepend x (memberCert s.mf.legs x) s.ghost
      else
        match s.ghost.cand with
        | some lam => gDepend lam (memberCert s.mf.legs x && starTripleCert s.vertices x lam) s.ghost
        | none => s.ghost.check false "dep-nocand"
    | _ => s.ghost)

/-- step I: the candidate is one of the vertices -/
def dependIncludedG (lighting : PS) : GM Unit :=
  modifyThe MG (fun s => { s with ghost := gDepend lighting (mem s.vertices lighting) s.ghost })

/-- a dependency verdict for which the guarded model has no certificate -/
def uncertifiedG : GM Unit := modifyThe MG (fun s => { s with ghost := s.ghost.check false "uncertified" })

/-- the candidate is taken in hand -/
def startG (lighting : PS) : GM Unit :=
  modifyThe MG (fun s => { s with ghost :=
    { s.ghost with cand := some lighting, spare := [], pristine := true, verdict := false } })

/-! ### the steps: the text of `Model/Morph.lean` with the guarded primitives -/


def appendToCenterG (lighting : PS) : GM Unit := do
  checkDepG lighting
  appendG lighting (← getCenter)

/-- `append_to_two_center(lighting)` -/
def appendToTwoCenterG (lighting : PS) : GM Unit := do
  let center ← getCenter
  if (← getLegs).length == 1 then
    appendG lighting center
    return
  let vertices ← getVertices
  let lits ← getLitsOf lighting vertices
  if lits.length == 1 then
    if mem lits center then
      appendG lighting center
      return
    else
      let l ← litG lighting (← idx lits 0)
      let l ← litG l center
      appendG l center
      return
  if lits.length == 2 then
    let l ← litG lighting center
    appendG l center
    return
  throw .notConnected

/-- truncation of a long leg beyond four vertices (steps II and VI) -/
def truncateLongLegG : GM Unit := do
  let longLeg ← getLongLeg
  if longLeg.length > 4 then
    for v in longLeg.drop 4 do appendDelayedG v
    removeG (← idx longLeg 4)

/-- Step I -/
def appendThreeGraphG : GM Unit := do
  let lighting ← getLighting
  if (← isEmpty) then
    initLegsG lighting
    throw .appended
  if (← isIncluded lighting) then
    dependIncludedG lighting
    throw .dependent
  if (← isEmptyLegs) then
    appendToTwoCenterG lighting
    throw .appended
  setLighting lighting

/-- Step II -/
def appendOneLegsInDifferentStateG : GM Unit := do
  let lighting ← getLighting
  match (← getPQ lighting) with
  | some (pq, p) =>
    let lits ← getLits lighting
    for lt in lits do
      if !(lt.beq p) then
        let v ← liftErr (pq.multiply lt)
        if (← isIncluded v) then
          uncertifiedG
          throw .dependent
    for lt in lits do
      if !(lt.beq p) then
        let v ← liftErr (pq.multiply lt)
        replaceG lt v
    appendG lighting p
    truncateLongLegG
    throw .appended
  | none => setLighting lighting

/-- `_append_fast` -/
def appendFastG : GM Unit := do
  let lighting ← getLighting
  let center ← getCenter
  let mut twoLegs ← getTwoLegs
  let longLeg ← getLongLeg
  if longLeg.length == 2 then twoLegs ← dropLastPy twoLegs
  if twoLegs.length == 0 then
    let lits ← getLits lighting
    if lits.length == 1 then
      if mem lits center then
        appendToCenterG lighting
        throw .appended
      let longLeg ← getLongLeg
      let lastV ← idx longLeg (-1)
      if mem lits lastV then
        appendG lighting lastV
        throw .appended
  setLighting lighting

/-- apply `lit` along a list of vertices -/
def litSeqG (lighting : PS) (vs : List PS) : GM PS := vs.foldlM (fun l v => litG l v) lighting

/-- Step III -/
def litOnlyLongLegG : GM Unit := do
  let mut lighting ← getLighting
  let omega ← getOneVertex
  let center ← getCenter
  let centerLits ← getLitsOf lighting [center]
  let lits ← getLitsOf lighting [omega]
  if mem lits omega then
    if !(mem centerLits center) then lighting ← litG lighting omega
    lighting ← litG lighting center
  let mut twoLegs ← getTwoLegs
  let longLeg ← getLongLeg
  if longLeg.length == 2 then twoLegs ← dropLastPy twoLegs
  else if longLeg.length == 1 then
    setLighting lighting
    return
  if twoLegs.length == 0 then
    setLighting lighting
    return
  let longLits ← getLitsOf lighting longLeg
  if longLits.length == 0 then
    let centerLits ← getLitsOf lighting [center]
    if mem centerLits center then
      lighting ← litSeqG lighting [center, (← idx longLeg 0), omega, center]
    else
      for (v0, v1) in twoLegs do
        let mut lits ← getLitsOf lighting [v0, v1]
        if mem lits v1 && !(mem lits v0) then
          lighting ← litG lighting v1
          lits := lits ++ [v0]
        if mem lits v0 then
          lighting ← litSeqG lighting [v0, center, (← idx longLeg 0), omega, center]
          break
  -- lit second vertex on long leg
  let longLits ← getLitsOf lighting longLeg
  let litIndexes := getLitIndexes longLeg longLits
  if !(litIndexes.contains 1) then
    if litIndexes.contains 0 then
      lighting ← litG lighting (← idx longLeg 0)
    else
      if litIndexes.length == 0 then throw .notConnected
      let firstLit ← idx litIndexes 0
      for i in rangeDown firstLit 1 do
        lighting ← litG lighting (← idx longLeg i)
  let longV0 ← idx longLeg 0
  let longV1 ← idx longLeg 1
  for (v0, v1) in twoLegs do
    let mut lits ← getLitsOf lighting [v0, v1]
    if !(mem lits v0) && !(mem lits v1) then continue
    if mem lits v0 && !(mem lits v1) then
      lighting ← litG lighting v0
      lits := lits ++ [v1]
    else if !(mem lits v0) && mem lits v1 then
      lighting ← litG lighting v1
      lits := lits ++ [v0]
    if mem lits v0 && mem lits v1 then
      let centerLits ← getLitsOf lighting [center]
      if mem centerLits center then
        lighting ← litSeqG lighting [center, v1, v0, omega, center]
      else
        let longLits ← getLitsOf lighting [(← idx longLeg 0)]
        if longLits.length == 0 then lighting ← litG lighting longV1
        lighting ← litSeqG lighting [longV0, center, omega, v1, v0, center]
  setLighting lighting

/-- `_lit_center` -/
def litCenterG : GM Unit := do
  let mut lighting ← getLighting
  let center ← getCenter
  let centerLits ← getLitsOf lighting [center]
  if !(mem centerLits center) then
    let longLeg ← getLongLeg
    let longLits ← getLitsOf lighting longLeg
    let litIndexes := getLitIndexes longLeg longLits
    let firstLit ← idx litIndexes 0
    for i in rangeDown firstLit (-1) do
      lighting ← litG lighting (← idx longLeg i)
  setLighting lighting

/-- one round of the `while True` of step IV on the long leg `longLeg` of length `n`:
`none` = leave the loop with the candidate as it is, `some l` = next round with `l` -/
def reduceRoundG (longLeg : List PS) (n : Nat) (lighting : PS) : GM (Option PS) := do
  let lits ← getLitsOf lighting longLeg
  if lits.length == 0 then
    appendToCenterG lighting
    throw .appended
  if lits.length == 2 then
    let li := getLitIndexes longLeg lits
    if (← idx li 0) == 0 && (← idx li 1) == n - 1 then
      return none
  if lits.length == 1 then
    let l0 ← idx lits 0
    if (← idx longLeg 0).beq l0 || (← idx longLeg (-1)).beq l0 then
      return none
    -- here `long_leg[0] != lits[0]` necessarily holds
    let li := getLitIndexes longLeg lits
    let i0 ← idx li 0
    if i0 < n - 1 then
      for v in longLeg.drop (i0 + 1) do appendDelayedG v
      removeG (← idx longLeg ((i0 : Int) + 1))
    return none
  let li := getLitIndexes longLeg lits
  let first ← idx li 0
  let second ← idx li 1
  if first > 0 && first + 1 != second then
    let mut lighting := lighting
    for i in rangeDown second first do
      lighting ← litG lighting (← idx longLeg i)
    return some lighting
  else
    return some (← litG lighting (← idx longLeg second))

/-- the `while True` of step IV with the model's fuel (structural recursion, so that the loop can
be reasoned about) -/
def reduceLoopG (longLeg : List PS) (n : Nat) : Nat → PS → GM PS
  | 0, _ => throw .outOfFuel
  | fuel + 1, lighting => do
    match ← reduceRoundG longLeg n lighting with
    | none => pure lighting
    | some l => reduceLoopG longLeg n fuel l

/-- Step IV; the `while True` takes fuel -/
def reduceLongLegMoreThanOneLitsG : GM Unit := do
  let lighting ← getLighting
  let longLeg ← getLongLeg
  let n := longLeg.length
  let lighting ← reduceLoopG longLeg n (4 * (n + 2) * (n + 2) + 16) lighting
  setLighting lighting

/-- Step V -/
def appendLongLegFirstAndCenterLitG : GM Unit := do
  let mut lighting ← getLighting
  let omega ← getOneVertex
  let center ← getCenter
  let lits ← getLitsOf lighting [center, omega]
  let isCenterLit := mem lits center
  let longLeg ← getLongLeg
  let lits ← getLitsOf lighting longLeg
  if isCenterLit && lits.length == 0 then
    appendToCenterG lighting
    throw .appended
  let litIndexes := getLitIndexes longLeg lits
  if litIndexes.length == 1 && litIndexes.contains 0 then
    let mut canConnectToEnd := true
    if (← isTwoLeg) && longLeg.length > 3 then canConnectToEnd := false
    if canConnectToEnd then
      lighting ← litSeqG lighting longLeg
      appendG lighting (← idx longLeg (-1))
      throw .appended
    let twoLegs ← getTwoLegs
    let (v0, v1) ← idx twoLegs 0
    let l0 ← idx longLeg 0
    lighting ← litSeqG lighting [center, v0, omega, center, l0, v1, v0, center]
    let l1 ← idx longLeg 1
    lighting ← litSeqG lighting [l1, l0]
    let l2 ← idx longLeg 2
    lighting ← litSeqG lighting [l2, l1]
    let l3 ← idx longLeg 3
    lighting ← litSeqG lighting [l3, l2, omega, center, l0, l1, v0, v1, center, l0, v0, center]
    appendToCenterG lighting
    throw .appended
  setLighting lighting

/-- Step VI -/
def appendLongLegOnlyLastLitG : GM Unit := do
  let mut lighting ← getLighting
  let center ← getCenter
  let longLeg ← getLongLeg
  let lits ← getLitsOf lighting longLeg
  if lits.length == 1 then
    checkDepG lighting
    let lastV ← idx longLeg (-1)
    if longLeg.length == 1 then
      lighting ← litG lighting lastV
      appendG lighting lastV
      throw .appended
    let g ← idx longLeg ((longLeg.length : Int) - 2)
    let omega ← getOneVertex
    let pq ← liftErr (omega.multiply lighting)
    let newG ← liftErr (pq.multiply g)
    if (← isIncluded newG) then
      uncertifiedG
      throw .dependent
    -- `g` becomes a leg of length one attached to the centre: same dependency test as `append_to_center`
    if longLeg.length == 2 then checkDepG newG
    removeG lastV
    appendG lighting center
    replaceG g newG
    appendG lastV lighting
    truncateLongLegG
    throw .appended
  setLighting lighting

/-- Step VII -/
def appendLongLegLastAndFirstLitG : GM Unit := do
  let mut lighting ← getLighting
  let omega ← getOneVertex
  let center ← getCenter
  let longLeg ← getLongLeg
  let firstV ← idx longLeg 0
  for i in rangeDown ((longLeg.length : Int) - 1) 0 do
    lighting ← litG lighting (← idx longLeg i)
  lighting ← litSeqG lighting [center, omega, firstV, center]
  appendToCenterG lighting
  throw .appended

/-- `_pipeline(lighting)`; falls off the end only if step VII returned, which it never does -/
def pipelineG (lighting : PS) : GM Unit := do
  setLighting lighting
  startG lighting
  appendThreeGraphG
  appendOneLegsInDifferentStateG
  appendFastG
  litOnlyLongLegG
  litCenterG
  reduceLongLegMoreThanOneLitsG
  appendLongLegFirstAndCenterLitG
  appendLongLegOnlyLastLitG
  appendLongLegLastAndFirstLitG


def runPipelineG (s : MG) (lighting : PS) : Except Exc Unit × MG :=
  (pipelineG lighting).run.run s

/-! ### build -/

structure BuildResultG where
  res : BuildResult
  guardsOk : Bool
  why : String := ""
  deriving Repr, Inhabited

def restoreG (vs : List PS) (s : MG) : List PS × MG :=
  (s.mf.delayed ++ vs, { s with mf := { s.mf with delayed := [] } })

/-- after `AppendedException` / `DependentException`: nothing is left in hand except copies of
strings that are on the legs or in the delayed list -/
def gSettle (s : MG) : MG :=
  { s with ghost := { (s.ghost.check s.ghost.cand.isNone "settle-cand").check
      (s.ghost.spare.all (fun v => mem (s.vertices ++ s.mf.delayed) v)) "settle-spare" with cand := none, spare := [] } }

/-- after `NotConnectedException`: the original candidate goes back to the queue, which is justified
when legs and delayed list are untouched -/
def gRequeue (s : MG) : MG :=
  { s with ghost := { s.ghost.check s.ghost.pristine "requeue" with cand := none, spare := [] } }

def gFail (s : MG) : MG := { s with ghost := { s.ghost.check false "foreign-exit" with cand := none, spare := [] } }

def finish (st : MG) (unappended : List PS) (tags : List String) (complete : Bool) : BuildResultG :=
  ⟨⟨st.mf.legs, st.mf.dependents, unappended, tags, complete⟩, st.ghost.ok, st.ghost.why⟩

/-- `Morph.buildLoop` on the guarded state -/
def buildLoopG : Nat → MG → List PS → List PS → List String → BuildResultG
  | _, st, [], unappended, tags => finish st unappended tags true
  | 0, st, _ :: _, unappended, tags => finish st unappended tags false
  | fuel + 1, st, lighting :: vertices, unappended, tags =>
    match runPipelineG st lighting with
    | (.ok (), st) =>
      buildLoopG fuel (gFail st) vertices unappended (tags ++ ["R"])
    | (.error e, st) =>
      let tags := tags ++ [excTag e]
      match e with
      | .appended =>
        let (vs, s) := restoreG vertices (gSettle st)
        buildLoopG fuel s vs (if mem unappended lighting then removeFirst unappended lighting else unappended) tags
      | .dependent =>
        let (vs, s) := restoreG vertices
          (gSettle { st with mf := { st.mf with dependents := st.mf.dependents ++ [lighting] } })
        buildLoopG fuel s vs unappended tags
      | .notConnected =>
        let (vs, s) := restoreG vertices (gRequeue st)
        if !(mem unappended lighting) then
          buildLoopG fuel s (vs ++ [lighting]) (unappended ++ [lighting]) tags
        else
          buildLoopG fuel s vs unappended tags
      | .outOfFuel => finish st unappended tags false
      | _ =>
        let (vs, s) := restoreG vertices (gFail st)
        buildLoopG fuel s vs (unappended ++ [lighting]) tags

/-- `Morph.build` on the guarded state; the ghost starts with the check that the queue holds
exactly the generators -/
def buildG (gens : List PS) : Except Err BuildResultG := do
  if gens.isEmpty then return ⟨⟨[], [], [], [], true⟩, true, ""⟩
  match ← getQueue gens with
  | none => return ⟨⟨[], [], [], ["queue-hang"], false⟩, true, ""⟩
  | some queue =>
    let st : MG := { ghost := ({} : Ghost).check (sameMembers queue gens) "queue" }
    return buildLoopG ((queue.length + 2) * (queue.length + 2) * (queue.length + 2) + 64) st queue [] []

/-! ### membership queries (property C08): a candidate against stored canonical legs -/

/-- the guarded run of `MorphFactory.is_eq` (`check = false`) / `select_dependents` (`check = true`)
on one candidate: fresh factory holding the stored legs -/
def memberRunG (legs : List (List PS)) (check : Bool) (x : PS) : Except Exc Unit × MG :=
  runPipelineG { mf := { legs := legs, isCheck := check }, ghost := {} } x

/-- the guard condition of a membership query: every certificate check of the run succeeded, and a
`DependentException` was raised at a certified verdict (`C08.C08_dependent_sound`: then the candidate
is generated by the stored vertices) -/
def memberGuard (legs : List (List PS)) (check : Bool) (x : PS) : Bool :=
  let r := memberRunG legs check x
  r.2.ghost.ok && (match r.1 with
    | .error .dependent => r.2.ghost.verdict
    | .ok _ => false
    | .error _ => true)

def memberWhy (legs : List (List PS)) (check : Bool) (x : PS) : String :=
  let r := memberRunG legs check x
  if !r.2.ghost.ok then r.2.ghost.why
  else match r.1 with
    | .error .dependent => if r.2.ghost.verdict then "" else "dependent-without-verdict"
    | .ok _ => "pipeline-returned"
    | .error _ => ""

/-! certificate of NON-membership: a string `w` that commutes with every vertex and anticommutes with
`x` (then `x` is not even in the F2-span of the vertices).  The search is plain Gaussian elimination;
its answer is checked by `separates`. -/

def swapPairs : List Bool → List Bool
  | a :: b :: t => b :: a :: swapPairs t
  | l => l

def reduceRows (basis : List (Nat × List Bool)) (r : List Bool) : List Bool :=
  basis.foldl (fun r (pb : Nat × List Bool) => if r.getD pb.1 false then xorB r pb.2 else r) r

def rrefInsert (basis : List (Nat × List Bool)) (r : List Bool) : List (Nat × List Bool) :=
  let r' := reduceRows basis r
  match leadIdx r' with
  | none => basis
  | some p => basis.map (fun (pb : Nat × List Bool) => (pb.1, if pb.2.getD p false then xorB pb.2 r' else pb.2)) ++ [(p, r')]

def separator (vs : List PS) (x : PS) : Option PS :=
  let basis := vs.foldl (fun bs v => rrefInsert bs v.bits) []
  let x' := reduceRows basis x.bits
  match leadIdx x' with
  | none => none
  | some j =>
    let f := (List.range x.bits.length).map (fun k =>
      if k == j then true
      else match basis.find? (fun (pb : Nat × List Bool) => pb.1 == k) with
        | some pb => pb.2.getD j false
        | none => false)
    some (PS.ofBits (swapPairs f))

/-- `w` commutes with every member of `vs`, anticommutes with `x`, all of one length -/
def separates (vs : List PS) (x w : PS) : Bool :=
  vs.all (fun v => !(om w v) && v.bits.length == x.bits.length) && om w x
    && w.bits.length == x.bits.length && x.bits.length % 2 == 0

def sepCert (vs : List PS) (x : PS) : Bool :=
  match separator vs x with
  | some w => separates vs x w
  | none => false

/-- the identity string is never generated by non-identity strings -/
def zeroCert (vs : List PS) (x : PS) : Bool :=
  x.bits.all (fun b => !b) && x.bits.length % 2 == 0
    && vs.all (fun v => v.bits.any (fun b => b) && v.bits.length == x.bits.length)

/-! third certificate, for strings INSIDE the F2-span: if the vertices are linearly independent
(certified by a dual family `ws`, `ω(w_i, v_j) = δ_ij`) the quadratic form `q` with `q(v_i) = 1` and polar
form `ω` is well defined on the span, every element of the commutator closure has `q = 1`
(`C08.clo_mask`), so a string whose coordinates `c_i = ω(w_i, x)` give `q(c) = 0` is not generated. -/

/-- xor of the members selected by the mask; `z` is the zero vector -/
def comb (z : List Bool) : List Bool → List PS → List Bool
  | c :: cs, v :: vs => if c then xorB v.bits (comb z cs vs) else comb z cs vs
  | _, _ => z

/-- `q(Σ c_i v_i) = Σ c_i + Σ_{i<j} c_i c_j ω(v_i, v_j)` on masks -/
def qform (z : List Bool) : List Bool → List PS → Bool
  | c :: cs, v :: vs => (qform z cs vs) != (c && !(Closure.omega v.bits (comb z cs vs)))
  | _, _ => false

/-- `ws` is dual to `vs`: `ω(w_i, v_j) = δ_ij` -/
def dualOk : List PS → List PS → Bool
  | [], [] => true
  | w :: ws, v :: vs =>
    Closure.omega w.bits v.bits && vs.all (fun v' => !(Closure.omega w.bits v'.bits))
      && ws.all (fun w' => !(Closure.omega w'.bits v.bits)) && dualOk ws vs
  | _, _ => false

def qCheck (ws vs : List PS) (x : PS) : Bool :=
  dualOk ws vs && x.bits.length % 2 == 0 && vs.all (fun v => v.bits.length == x.bits.length)
    && !(qform (List.replicate x.bits.length false) (ws.map (fun w => Closure.omega w.bits x.bits)) vs)

/-- search for the dual family (Gaussian elimination on the strings extended by unit tags; the answer
is checked by `dualOk`) -/
def findDuals (vs : List PS) (len : Nat) : List PS :=
  let k := vs.length
  let ext := (List.range k).zipWith (fun i (v : PS) => v.bits ++ (List.range k).map (fun j => i == j)) vs
  let basis := ext.foldl rrefInsert []
  (List.range k).map (fun i =>
    PS.ofBits (swapPairs ((List.range len).map (fun p =>
      basis.any (fun (pb : Nat × List Bool) => pb.1 == p && pb.2.getD (len + i) false)))))

def qCert (vs : List PS) (x : PS) : Bool := qCheck (findDuals vs x.bits.length) vs x

def nonMemberCert (vs : List PS) (x : PS) : Bool := sepCert vs x || zeroCert vs x || qCert vs x

end MorphG
end PauLie
