/-
Command handlers for the Pauli compiler slice (C05, C06, C07).
  uset N k              construct_universal_set(N, k)
  lefta k               left_a_minimal(k)
  chooseu k             choose_u_for_b(k)
  nested SEQ            _nested_commutator_result (internal orientation)
  pnested SEQ           nested commutator in the public orientation
  orient SEQ            _sequence_to_paulie_orientation
  ctfront TARGET k      compile_target up to the call of compile(V, W)
  valid N k TARGET SEQ  the verified validator `validSeq` with its ingredients
  witness N k TARGET    the recorded observation of compile_target (refutation witnesses)
  compile N k TARGET    compile_target(TARGET, k) by the model of the search (Model/CompilerSearch.lean):
                        `seq=…` or `!<exception type>@<raising function>`
  ccompile N k T1,T2,…  the CLASS API with object reuse: ONE `OptimalPauliCompiler(k, N)` compiles the targets in a row
                        (`compile(V_i, W_i)`); replies joined by `|`.  `compile` is a pure function of (k, N, V, W), so the
                        model's reply is what a fresh compiler gives for every target
  compilex N k TARGET   the same with the `return` of `compile` that produced it and the failure kind
                        the validator gives on the model's own output (model only)
  ckind N k TARGET      that failure kind alone: `ok`, `raise:<type>@<function>` or the defects of the sequence
  lmap k FROM TO        left_map_over_a(FROM, TO, left_a_minimal(k))
  subc N k W            SubsystemCompiler(k, N).subsystem_compiler(W)
  forders N k W         factor_w_orders(W): the right factors of every ordering
  cdec N k W            _candidate_decompositions(W)
  bfs3 N k W D M        _bfs_case3(W, depth_cap=D, node_cap=M)
  a1a2 k U              SubsystemCompiler(k, k+1)._choose_a1_a2(U)   (never reached from compile_target for N<=6)
  aprime k U P          SubsystemCompiler(k, k+1)._choose_aprime(U, P)
  case3 N k G1 G2 A W   _case3_best_reordering(G1, G2, A, W)
  case3x N k G1 G2 A W  the phase of it that found the result (model only)
  il3 CAP A B C S       _all_interleavings_preserving(A, B, C, CAP) consumed until it yields S: number of yields, hit or not
  il4 CAP A B C D S     _all_interleavings_preserving4 likewise
-/
import PauLieVerif.Model.Proto
import PauLieVerif.Model.Compiler
import PauLieVerif.Model.CompilerSearch

namespace PauLie
namespace CmdCompiler
open Proto Compiler

def showRes (r : Except Err (Option PS)) : String := showExcept (showOpt showPS) r

def valid (n k : Int) (target : PS) (seq : List PS) : String :=
  let inset := match universalSet n k with
    | .error e => s!"!{e}"
    | .ok u => showBool (seq.all (fun x => u.contains x))
  s!"valid={showBool (validSeq n k target seq)} nonempty={showBool (!seq.isEmpty)} inset={inset} nested={showRes (nestedPublic seq)}"

def showFail {α} (f : α → String) : Except Fail α → String
  | .ok a => f a
  | .error e => s!"!{e}"

/-- helper commands report the exception type only -/
def showFailT {α} (f : α → String) : Except Fail α → String
  | .ok a => f a
  | .error e => s!"!{e.typeName}"

def showPairs (l : List (PS × PS)) : String :=
  if l.isEmpty then "-" else String.intercalate "," (l.map (fun p => s!"{showPS p.1}/{showPS p.2}"))

def showOrders (l : List (List (PS × PS))) : String :=
  if l.isEmpty then "-" else String.intercalate ";" (l.map (fun o =>
    if o.isEmpty then "-" else String.intercalate "." (o.map (fun p => showPS p.2))))

/-- failure kind of a returned sequence, from the verdict of the verified validator and its
ingredients (mirror of `compiler_checks.kind_of`) -/
def kindOf (n k : Int) (target : PS) (seq : List PS) : String :=
  if validSeq n k target seq then "ok"
  else
    let inset := match universalSet n k with
      | .error _ => false
      | .ok u => seq.all (fun x => u.contains x)
    let ks : List String :=
      (if seq.isEmpty then ["empty"] else [])
      ++ (if inset then [] else ["outside"])
      ++ (match nestedPublic seq with
          | .ok none => if seq.isEmpty then [] else ["zero"]
          | .error _ => ["error"]
          | .ok (some r) => if showPS r != showPS target then ["wrong"] else [])
    if ks.isEmpty then "invalid" else String.intercalate "+" ks

def kindOfResult (n k : Int) (target : PS) : Except Fail (Branch × List PS) → String
  | .error e => s!"raise:{e}"
  | .ok r => kindOf n k target r.2

def handle (line : String) : Option String :=
  match line.splitOn " " with
  | ["uset", n, k] => do
    let n ← int? n
    let k ← int? k
    return showExcept showPSList (universalSet n k)
  | ["lefta", k] => do
    let k ← int? k
    return showExcept showPSList (leftAMinimal k)
  | ["chooseu", k] => do
    let k ← int? k
    return showExcept showPS (chooseUForB k)
  | ["nested", seq] => do
    let seq ← psList? seq
    return showRes (nestedCommutatorResult seq)
  | ["pnested", seq] => do
    let seq ← psList? seq
    return showRes (nestedPublic seq)
  | ["orient", seq] => do
    let seq ← psList? seq
    return showPSList (toPublic seq)
  | ["ctfront", t, k] => do
    let t ← ps? t
    let k ← int? k
    return showExcept (fun (r : PS × PS) => s!"V={showPS r.1} W={showPS r.2}") (compileTargetFront t k)
  | ["valid", n, k, t, seq] => do
    let n ← int? n
    let k ← int? k
    let t ← ps? t
    let seq ← psList? seq
    return valid n k t seq
  | ["witness", n, k, t] => do
    let n ← int? n
    let k ← int? k
    let t ← ps? t
    match observedReturns.lookup (n, k, t) with
    | some seq => return "seq=" ++ showPSList seq
    | none =>
      match observedRaises.lookup (n, k, t) with
      | some e => return "!" ++ e
      | none => return "not-recorded"
  | ["compile", _, k, t] => do
    let k ← int? k
    let t ← ps? t
    return showFail (fun s => "seq=" ++ showPSList s) (compileTarget t k)
  | ["ccompile", n, k, ts] => do
    let n ← int? n
    let k ← int? k
    let ts ← psList? ts
    match mkCtx k n with
    | .error e => return s!"!{e}"
    | .ok c =>
      return String.intercalate "|" (ts.map (fun t =>
        showFail (fun (r : Branch × List PS) => "seq=" ++ showPSList r.2)
          (compile c (t.getSubstring 0 k) (t.getSubstring k (n - k)))))
  | ["compilex", _, k, t] => do
    let k ← int? k
    let t ← ps? t
    let r := compileTargetB t k
    let kd := kindOfResult (t.len : Int) k t r
    return showFail (fun (r : Branch × List PS) => s!"branch={r.1.name} kind={kd} seq={showPSList r.2}") r
  | ["ckind", _, k, t] => do
    let k ← int? k
    let t ← ps? t
    return kindOfResult (t.len : Int) k t (compileTargetB t k)
  | ["lmap", k, a, b] => do
    let k ← int? k
    let a ← ps? a
    let b ← ps? b
    return showFailT showPSList (do
      let aset ← liftAt .leftAMinimal (leftAMinimal k)
      leftMapOverA a b aset)
  | ["subc", n, k, w] => do
    let n ← int? n
    let k ← int? k
    let w ← ps? w
    return showFailT showPSList (do
      let c ← mkCtx k n
      subsystemCompiler c w)
  | ["forders", n, k, w] => do
    let n ← int? n
    let k ← int? k
    let w ← ps? w
    return showFailT showOrders (do
      let c ← mkCtx k n
      factorWOrders c w)
  | ["cdec", n, k, w] => do
    let n ← int? n
    let k ← int? k
    let w ← ps? w
    return showFailT showPairs (do
      let c ← mkCtx k n
      candidateDecompositions c w)
  | ["bfs3", n, k, w, d, m] => do
    let n ← int? n
    let k ← int? k
    let w ← ps? w
    let d ← d.toNat?
    let m ← m.toNat?
    return showFailT (showOpt showPSList) (do
      let c ← mkCtx k n
      bfsCase3 { c with fallbackDepth := d, fallbackNodes := m } w)
  | ["a1a2", k, u] => do
    let k ← int? k
    let u ← ps? u
    return showFailT (fun (r : PS × PS) => s!"{showPS r.1},{showPS r.2}") (do
      let c ← mkCtx k (k + 1)
      chooseA1A2 c u)
  | ["aprime", k, u, pl] => do
    let k ← int? k
    let u ← ps? u
    let pl ← ps? pl
    return showFailT showPS (do
      let c ← mkCtx k (k + 1)
      chooseAprime u pl c.pool)
  | ["case3x", n, k, g1, g2, a, w] => do
    let n ← int? n
    let k ← int? k
    let g1 ← psList? g1
    let g2 ← psList? g2
    let a ← psList? a
    let w ← ps? w
    return showFailT (showOpt (fun (r : Nat × List PS) => s!"phase{r.1}")) (do
      let c ← mkCtx k n
      case3BestReordering c g1 g2 a w)
  | ["case3", n, k, g1, g2, a, w] => do
    let n ← int? n
    let k ← int? k
    let g1 ← psList? g1
    let g2 ← psList? g2
    let a ← psList? a
    let w ← ps? w
    return showFailT (showOpt (fun (r : Nat × List PS) => showPSList r.2)) (do
      let c ← mkCtx k n
      case3BestReordering c g1 g2 a w)
  | ["il3", cap, a, b, c, s] => do
    let cap ← cap.toNat?
    let a ← psList? a
    let b ← psList? b
    let c ← psList? c
    let s ← psList? s
    return showFailT (fun (r : Nat × Option (List PS)) => s!"count={r.1} hit={showBool r.2.isSome}")
      (inter3 (fun x => pure (x == s)) cap (a.length + b.length + c.length + 1) a b c [] 0)
  | ["il4", cap, a, b, c, d, s] => do
    let cap ← cap.toNat?
    let a ← psList? a
    let b ← psList? b
    let c ← psList? c
    let d ← psList? d
    let s ← psList? s
    return showFailT (fun (r : Nat × Option (List PS)) => s!"count={r.1} hit={showBool r.2.isSome}")
      (inter4 (fun x => pure (x == s)) cap (a.length + b.length + c.length + d.length + 1) a b c d [] 0)
  | _ => none

end CmdCompiler
end PauLie
