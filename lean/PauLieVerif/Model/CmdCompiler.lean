/-
Command handlers for the Pauli compiler slice (C05, C06, C07).
  uset N k              construct_universal_set(N, k)
  lefta k               left_a_minimal(k)
  chooseu k             choose_u_for_b(k)
  nested SEQ            _nested_commutator_result (internal orientation)
  pnested SEQ           nested commutator in the public orientation
  orient SEQ            _sequence_to_paulie_orientation
  ctfront TARGET k      compile_target up to the call of compile(V, W)
  valid N k TARGET SEQ  the verified validator `validSeq` with its ingredients
  witness N k TARGET    the recorded observation of compile_target (refutation witnesses)
-/
import PauLieVerif.Model.Proto
import PauLieVerif.Model.Compiler

namespace PauLie
namespace CmdCompiler
open Proto Compiler

def showRes (r : Except Err (Option PS)) : String := showExcept (showOpt showPS) r

def valid (n k : Int) (target : PS) (seq : List PS) : String :=
  let inset := match universalSet n k with
    | .error e => s!"!{e}"
    | .ok u => showBool (seq.all (fun x => u.contains x))
  s!"valid={showBool (validSeq n k target seq)} nonempty={showBool (!seq.isEmpty)} inset={inset} nested={showRes (nestedPublic seq)}"

def handle (line : String) : Option String :=
  match line.splitOn " " with
  | ["uset", n, k] => do
    let n ← int? n
    let k ← int? k
    return showExcept showPSList (universalSet n k)
  | ["lefta", k] => do
    let k ← int? k
    return showExcept showPSList (leftAMinimal k)
  | ["chooseu", k] => do
    let k ← int? k
    return showExcept showPS (chooseUForB k)
  | ["nested", seq] => do
    let seq ← psList? seq
    return showRes (nestedCommutatorResult seq)
  | ["pnested", seq] => do
    let seq ← psList? seq
    return showRes (nestedPublic seq)
  | ["orient", seq] => do
    let seq ← psList? seq
    return showPSList (toPublic seq)
  | ["ctfront", t, k] => do
    let t ← ps? t
    let k ← int? k
    return showExcept (fun (r : PS × PS) => s!"V={showPS r.1} W={showPS r.2}") (compileTargetFront t k)
  | ["valid", n, k, t, seq] => do
    let n ← int? n
    let k ← int? k
    let t ← ps? t
    let seq ← psList? seq
    return valid n k t seq
  | ["witness", n, k, t] => do
    let n ← int? n
    let k ← int? k
    let t ← ps? t
    match observedReturns.lookup (n, k, t) with
    | some seq => return "seq=" ++ showPSList seq
    | none =>
      match observedRaises.lookup (n, k, t) with
      | some e => return "!" ++ e
      | none => return "not-recorded"
  | _ => none

end CmdCompiler
end PauLie
