/-
Model of `classifier/morph_factory.py` (class `MorphFactory`) — the
exception-driven reduction of a connected anticommutation graph to a canonical
"star of legs".  Transcribed method by method and branch by branch.

Python exceptions are the constructors of `Exc`; the monad keeps the factory
state when an exception is raised (`ExceptT Exc (StateM MF)`), exactly as the
Python object keeps its mutations.
-/
import PauLieVerif.Model.PS
import PauLieVerif.Model.Graph

namespace PauLie
namespace Morph

inductive Exc where
  | appended | checkAppended | dependent | notConnected
  | morphErr            -- MorphFactoryException
  | indexErr            -- IndexError
  | py (e : Err)        -- ValueError &c. from the Pauli-string layer
  | outOfFuel           -- a `while True` of the source did not terminate within the model's fuel
  deriving DecidableEq, Repr, Inhabited

structure MF where
  legs : List (List PS) := []
  lighting : PS := PS.ofBits []
  delayed : List PS := []
  dependents : List PS := []
  isCheck : Bool := false
  deriving Repr, Inhabited

abbrev MFM := ExceptT Exc (StateM MF)

def liftErr {α} (x : Except Err α) : MFM α :=
  match x with
  | .ok a => pure a
  | .error e => throw (.py e)

/-- Python list indexing `l[i]` (negative indices wrap), IndexError otherwise -/
def idx {α} (l : List α) (i : Int) : MFM α :=
  match PS.pyIndex? l i with
  | some k =>
    match l[k]? with
    | some a => pure a
    | none => throw .indexErr
  | none => throw .indexErr

def mem (l : List PS) (p : PS) : Bool := Graph.containsPS l p

def getLegs : MFM (List (List PS)) := do return (← get).legs
def setLegs (l : List (List PS)) : MFM Unit := modify (fun s => { s with legs := l })
def setLighting (l : PS) : MFM Unit := modify (fun s => { s with lighting := l })
def getLighting : MFM PS := do return (← get).lighting

/-- `get_lits(lighting, vertices)` -/
def getLitsOf (lighting : PS) (vertices : List PS) : MFM (List PS) :=
  vertices.filterM (fun v => do
    if v.beq lighting then pure false
    else
      let c ← liftErr (lighting.commutesWith v)
      pure (!c))

def getVertices : MFM (List PS) := do return (← getLegs).flatten

def getLits (lighting : PS) : MFM (List PS) := do getLitsOf lighting (← getVertices)

def isEmpty : MFM Bool := do return (← getLegs).isEmpty
def isEmptyLegs : MFM Bool := do return (← getLegs).length < 3

def findInLeg (leg : List PS) (v : PS) : Option Nat := leg.findIdx? (fun x => x.beq v)

/-- `find(v)`: (leg index, index in leg) or none for (-1,-1) -/
def findIn (legs : List (List PS)) (v : PS) : Option (Nat × Nat) :=
  let rec go (i : Nat) : List (List PS) → Option (Nat × Nat)
    | [] => none
    | leg :: rest =>
      match findInLeg leg v with
      | some j => some (i, j)
      | none => go (i + 1) rest
  go 0 legs

def find (v : PS) : MFM (Option (Nat × Nat)) := do return findIn (← getLegs) v

def isIncluded (v : PS) : MFM Bool := do return (← find v).isSome

/-- `get_center()`; `None` only on an empty factory, where every caller would
fail on the comparison with `None` (ValueError from the parser) -/
def getCenter : MFM PS := do
  match (← getLegs) with
  | (c :: _) :: _ => pure c
  | [] :: _ => throw .indexErr
  | [] => throw (.py .valueError)

def getLongLeg : MFM (List PS) := do
  if (← isEmptyLegs) then throw .morphErr
  idx (← getLegs) (-1)

def getOneVertex : MFM PS := do
  if (← isEmptyLegs) then throw .morphErr
  let leg ← idx (← getLegs) 1
  idx leg 0

/-- `get_one_vertices()` -/
def getOneVertices : MFM (List PS) := do
  if (← isEmptyLegs) then throw .morphErr
  let legs := (← getLegs).drop 1
  return (legs.takeWhile (fun l => l.length == 1)).flatten

/-- `lit(lighting, vertex)` -/
def lit (lighting vertex : PS) : MFM PS := do
  let l ← liftErr (lighting.multiply vertex)
  if (← isIncluded l) then throw .dependent
  return l

/-- `get_pq(lighting)` -/
def getPQ (lighting : PS) : MFM (Option (PS × PS)) := do
  let ones ← getOneVertices
  let lits ← getLitsOf lighting ones
  let mut p : Option PS := none
  let mut q : Option PS := none
  for v in ones do
    if mem lits v then p := some v else q := some v
    match p, q with
    | some p', some q' =>
      let pq ← liftErr (p'.multiply q')
      return some (pq, p')
    | _, _ => pure ()
  return none

/-- `get_two_legs()` as pairs -/
def getTwoLegs : MFM (List (PS × PS)) := do
  if (← isEmptyLegs) then throw .morphErr
  let legs := (← getLegs).drop 1
  let rec go : List (List PS) → List (PS × PS)
    | [] => []
    | leg :: rest =>
      match leg with
      | [a, b] => (a, b) :: go rest
      | _ => if leg.length > 2 then [] else go rest
  return go legs

def isTwoLeg : MFM Bool := do
  let c := (← getTwoLegs).length
  if c == 0 then return false
  let ll ← getLongLeg
  if ll.length != 2 then return true
  return c > 1

/-- `list.insert(i, x)` for `0 ≤ i` -/
def insertAt {α} (l : List α) (i : Nat) (x : α) : List α := l.take i ++ x :: l.drop i

/-- placement loop shared by `append` / `remove`:
`for i in range(len(legs)-1, lo, -1): if len(legs[i]) <= len(leg): insert(i+1)` -/
def placeLeg (legs : List (List PS)) (leg : List PS) (lo : Nat) : Option (List (List PS)) :=
  let rec go : Nat → Option (List (List PS))
    | 0 => none
    | i + 1 =>
      if i + 1 ≤ lo then none
      else
        match legs[i + 1]? with
        | some l => if l.length ≤ leg.length then some (insertAt legs (i + 2) leg) else go i
        | none => go i
  go (legs.length - 1)

/-- `append(v, lit)` -/
def append (v lt : PS) : MFM Unit := do
  if (← get).isCheck then throw .checkAppended
  match (← find lt) with
  | none => throw .morphErr
  | some (legIndex, vertexIndex) =>
    let legs ← getLegs
    if legIndex == 0 then
      setLegs (insertAt legs 1 [v])
      return
    let theLeg ← idx legs legIndex
    if vertexIndex != theLeg.length - 1 then throw .morphErr
    let legs' := legs.eraseIdx legIndex
    -- Python mutates `self.legs` here: the deletion persists if the placement fails
    setLegs legs'
    let leg := theLeg ++ [v]
    let last ← idx legs' (-1)
    if leg.length ≥ last.length then
      setLegs (legs' ++ [leg])
      return
    match placeLeg legs' leg 0 with
    | some l => setLegs l
    | none => throw .morphErr

/-- `remove(v)` -/
def remove (v : PS) : MFM Unit := do
  match (← find v) with
  | none => throw .morphErr
  | some (legIndex, vertexIndex) =>
    if legIndex == 0 then throw .morphErr
    let legs ← getLegs
    let theLeg ← idx legs legIndex
    let leg := theLeg.take vertexIndex
    let legs' := legs.eraseIdx legIndex
    setLegs legs'
    if leg.length == 0 then return
    if leg.length == 1 then
      setLegs (insertAt legs' 1 leg)
      return
    let last ← idx legs' (-1)
    if leg.length ≥ last.length then
      setLegs (legs' ++ [leg])
      return
    match placeLeg legs' leg 1 with
    | some l => setLegs l
    | none => throw .morphErr

/-- `replace(v, v_new)` -/
def replace (v vNew : PS) : MFM Unit := do
  match (← find v) with
  | none => throw .morphErr
  | some (i, j) =>
    let legs ← getLegs
    setLegs (legs.modify i (fun leg => leg.set j vNew))

def getLitIndexes (vertices lits : List PS) : List Nat :=
  (List.range vertices.length).filter (fun i =>
    match vertices[i]? with
    | some v => mem lits v
    | none => false)

def appendDelayed (v : PS) : MFM Unit := modify (fun s => { s with delayed := s.delayed ++ [v] })

/-! F2 span membership on bit lists (the integer XOR basis of `check_dependency_one_leg`):
the basis is kept ordered by leading bit, so one pass reduces. -/
def xorB (a b : List Bool) : List Bool := List.zipWith (fun x y => x != y) a b
def leadIdx (x : List Bool) : Option Nat := x.findIdx? (fun b => b)
def reduceBy (basis : List (List Bool)) (x : List Bool) : List Bool :=
  basis.foldl (fun x b =>
    match leadIdx b with
    | some i => if x.getD i false then xorB x b else x
    | none => x) x
def insertBasis (basis : List (List Bool)) (x : List Bool) : List (List Bool) :=
  match leadIdx x with
  | none => basis
  | some i =>
    let before := basis.takeWhile (fun b => match leadIdx b with | some j => j < i | none => true)
    before ++ x :: basis.drop before.length
/-- is `x` a product (up to phase) of some of the strings `vs`? -/
def inSpan (vs : List (List Bool)) (x : List Bool) : Bool :=
  let basis := vs.foldl (fun basis v => insertBasis basis (reduceBy basis v)) []
  (reduceBy basis x).all (fun b => !b)

/-- `check_dependency_one_leg(lighting)` -/
def checkDependencyOneLeg (lighting : PS) : MFM Unit := do
  let ones ← getOneVertices
  let vertices := Graph.dedupPS (← getVertices)
  for one in ones do
    let pq ← liftErr (one.multiply lighting)
    for v in vertices do
      if v.beq one then continue
      let nv ← liftErr (pq.multiply v)
      if mem vertices nv || nv.beq lighting then throw .dependent
  -- a candidate anticommuting with the centre that is a product of single legs (an odd number of
  -- them, possibly five or more) lies in the algebra of the star as well
  match (← getLegs) with
  | (center :: _) :: _ =>
    if !(← liftErr (center.commutesWith lighting)) then
      if inSpan (ones.map (·.bits)) lighting.bits then throw .dependent
  | _ => pure ()

def appendToCenter (lighting : PS) : MFM Unit := do
  checkDependencyOneLeg lighting
  append lighting (← getCenter)

/-- `append_to_two_center(lighting)` -/
def appendToTwoCenter (lighting : PS) : MFM Unit := do
  let center ← getCenter
  if (← getLegs).length == 1 then
    append lighting center
    return
  let vertices ← getVertices
  let lits ← getLitsOf lighting vertices
  if lits.length == 1 then
    if mem lits center then
      append lighting center
      return
    else
      let l ← lit lighting (← idx lits 0)
      let l ← lit l center
      append l center
      return
  if lits.length == 2 then
    let l ← lit lighting center
    append l center
    return
  throw .notConnected

/-- truncation of a long leg beyond four vertices (steps II and VI) -/
def truncateLongLeg : MFM Unit := do
  let longLeg ← getLongLeg
  if longLeg.length > 4 then
    for v in longLeg.drop 4 do appendDelayed v
    remove (← idx longLeg 4)

/-- Step I -/
def appendThreeGraph : MFM Unit := do
  let lighting ← getLighting
  if (← isEmpty) then
    setLegs [[lighting]]
    throw .appended
  if (← isIncluded lighting) then throw .dependent
  if (← isEmptyLegs) then
    appendToTwoCenter lighting
    throw .appended
  setLighting lighting

/-- Step II -/
def appendOneLegsInDifferentState : MFM Unit := do
  let lighting ← getLighting
  match (← getPQ lighting) with
  | some (pq, p) =>
    let lits ← getLits lighting
    for lt in lits do
      if !(lt.beq p) then
        let v ← liftErr (pq.multiply lt)
        if (← isIncluded v) then throw .dependent
    for lt in lits do
      if !(lt.beq p) then
        let v ← liftErr (pq.multiply lt)
        replace lt v
    append lighting p
    truncateLongLeg
    throw .appended
  | none => setLighting lighting

/-- `del two_legs[len(two_legs) - 1]` -/
def dropLastPy {α} (l : List α) : MFM (List α) :=
  if l.isEmpty then throw .indexErr else pure l.dropLast

/-- `_append_fast` -/
def appendFast : MFM Unit := do
  let lighting ← getLighting
  let center ← getCenter
  let mut twoLegs ← getTwoLegs
  let longLeg ← getLongLeg
  if longLeg.length == 2 then twoLegs ← dropLastPy twoLegs
  if twoLegs.length == 0 then
    let lits ← getLits lighting
    if lits.length == 1 then
      if mem lits center then
        appendToCenter lighting
        throw .appended
      let longLeg ← getLongLeg
      let lastV ← idx longLeg (-1)
      if mem lits lastV then
        append lighting lastV
        throw .appended
  setLighting lighting

/-- apply `lit` along a list of vertices -/
def litSeq (lighting : PS) (vs : List PS) : MFM PS := vs.foldlM (fun l v => lit l v) lighting

/-- `for i in range(hi, lo, -1)`: the indices hi, hi-1, …, lo+1 -/
def rangeDown (hi lo : Int) : List Int :=
  if hi ≤ lo then [] else (List.range (hi - lo).toNat).map (fun (k : Nat) => hi - (k : Int))

/-- Step III -/
def litOnlyLongLeg : MFM Unit := do
  let mut lighting ← getLighting
  let omega ← getOneVertex
  let center ← getCenter
  let centerLits ← getLitsOf lighting [center]
  let lits ← getLitsOf lighting [omega]
  if mem lits omega then
    if !(mem centerLits center) then lighting ← lit lighting omega
    lighting ← lit lighting center
  let mut twoLegs ← getTwoLegs
  let longLeg ← getLongLeg
  if longLeg.length == 2 then twoLegs ← dropLastPy twoLegs
  else if longLeg.length == 1 then
    setLighting lighting
    return
  if twoLegs.length == 0 then
    setLighting lighting
    return
  let longLits ← getLitsOf lighting longLeg
  if longLits.length == 0 then
    let centerLits ← getLitsOf lighting [center]
    if mem centerLits center then
      lighting ← litSeq lighting [center, (← idx longLeg 0), omega, center]
    else
      for (v0, v1) in twoLegs do
        let mut lits ← getLitsOf lighting [v0, v1]
        if mem lits v1 && !(mem lits v0) then
          lighting ← lit lighting v1
          lits := lits ++ [v0]
        if mem lits v0 then
          lighting ← litSeq lighting [v0, center, (← idx longLeg 0), omega, center]
          break
  -- lit second vertex on long leg
  let longLits ← getLitsOf lighting longLeg
  let litIndexes := getLitIndexes longLeg longLits
  if !(litIndexes.contains 1) then
    if litIndexes.contains 0 then
      lighting ← lit lighting (← idx longLeg 0)
    else
      if litIndexes.length == 0 then throw .notConnected
      let firstLit ← idx litIndexes 0
      for i in rangeDown firstLit 1 do
        lighting ← lit lighting (← idx longLeg i)
  let longV0 ← idx longLeg 0
  let longV1 ← idx longLeg 1
  for (v0, v1) in twoLegs do
    let mut lits ← getLitsOf lighting [v0, v1]
    if !(mem lits v0) && !(mem lits v1) then continue
    if mem lits v0 && !(mem lits v1) then
      lighting ← lit lighting v0
      lits := lits ++ [v1]
    else if !(mem lits v0) && mem lits v1 then
      lighting ← lit lighting v1
      lits := lits ++ [v0]
    if mem lits v0 && mem lits v1 then
      let centerLits ← getLitsOf lighting [center]
      if mem centerLits center then
        lighting ← litSeq lighting [center, v1, v0, omega, center]
      else
        let longLits ← getLitsOf lighting [(← idx longLeg 0)]
        if longLits.length == 0 then lighting ← lit lighting longV1
        lighting ← litSeq lighting [longV0, center, omega, v1, v0, center]
  setLighting lighting

/-- `_lit_center` -/
def litCenter : MFM Unit := do
  let mut lighting ← getLighting
  let center ← getCenter
  let centerLits ← getLitsOf lighting [center]
  if !(mem centerLits center) then
    let longLeg ← getLongLeg
    let longLits ← getLitsOf lighting longLeg
    let litIndexes := getLitIndexes longLeg longLits
    let firstLit ← idx litIndexes 0
    for i in rangeDown firstLit (-1) do
      lighting ← lit lighting (← idx longLeg i)
  setLighting lighting

/-- one round of the `while True` of step IV on the long leg `longLeg` of length `n`:
`none` = leave the loop with the candidate as it is, `some l` = next round with `l` -/
def reduceRound (longLeg : List PS) (n : Nat) (lighting : PS) : MFM (Option PS) := do
  let lits ← getLitsOf lighting longLeg
  if lits.length == 0 then
    appendToCenter lighting
    throw .appended
  if lits.length == 2 then
    let li := getLitIndexes longLeg lits
    if (← idx li 0) == 0 && (← idx li 1) == n - 1 then
      return none
  if lits.length == 1 then
    let l0 ← idx lits 0
    if (← idx longLeg 0).beq l0 || (← idx longLeg (-1)).beq l0 then
      return none
    -- here `long_leg[0] != lits[0]` necessarily holds
    let li := getLitIndexes longLeg lits
    let i0 ← idx li 0
    if i0 < n - 1 then
      for v in longLeg.drop (i0 + 1) do appendDelayed v
      remove (← idx longLeg ((i0 : Int) + 1))
    return none
  let li := getLitIndexes longLeg lits
  let first ← idx li 0
  let second ← idx li 1
  if first > 0 && first + 1 != second then
    let mut lighting := lighting
    for i in rangeDown second first do
      lighting ← lit lighting (← idx longLeg i)
    return some lighting
  else
    return some (← lit lighting (← idx longLeg second))

/-- the `while True` of step IV with the model's fuel (structural recursion, so that the loop can
be reasoned about) -/
def reduceLoop (longLeg : List PS) (n : Nat) : Nat → PS → MFM PS
  | 0, _ => throw .outOfFuel
  | fuel + 1, lighting => do
    match ← reduceRound longLeg n lighting with
    | none => pure lighting
    | some l => reduceLoop longLeg n fuel l

/-- Step IV; the `while True` takes fuel -/
def reduceLongLegMoreThanOneLits : MFM Unit := do
  let lighting ← getLighting
  let longLeg ← getLongLeg
  let n := longLeg.length
  let lighting ← reduceLoop longLeg n (4 * (n + 2) * (n + 2) + 16) lighting
  setLighting lighting

/-- Step V -/
def appendLongLegFirstAndCenterLit : MFM Unit := do
  let mut lighting ← getLighting
  let omega ← getOneVertex
  let center ← getCenter
  let lits ← getLitsOf lighting [center, omega]
  let isCenterLit := mem lits center
  let longLeg ← getLongLeg
  let lits ← getLitsOf lighting longLeg
  if isCenterLit && lits.length == 0 then
    appendToCenter lighting
    throw .appended
  let litIndexes := getLitIndexes longLeg lits
  if litIndexes.length == 1 && litIndexes.contains 0 then
    let mut canConnectToEnd := true
    if (← isTwoLeg) && longLeg.length > 3 then canConnectToEnd := false
    if canConnectToEnd then
      lighting ← litSeq lighting longLeg
      append lighting (← idx longLeg (-1))
      throw .appended
    let twoLegs ← getTwoLegs
    let (v0, v1) ← idx twoLegs 0
    let l0 ← idx longLeg 0
    lighting ← litSeq lighting [center, v0, omega, center, l0, v1, v0, center]
    let l1 ← idx longLeg 1
    lighting ← litSeq lighting [l1, l0]
    let l2 ← idx longLeg 2
    lighting ← litSeq lighting [l2, l1]
    let l3 ← idx longLeg 3
    lighting ← litSeq lighting [l3, l2, omega, center, l0, l1, v0, v1, center, l0, v0, center]
    appendToCenter lighting
    throw .appended
  setLighting lighting

/-- Step VI -/
def appendLongLegOnlyLastLit : MFM Unit := do
  let mut lighting ← getLighting
  let center ← getCenter
  let longLeg ← getLongLeg
  let lits ← getLitsOf lighting longLeg
  if lits.length == 1 then
    checkDependencyOneLeg lighting
    let lastV ← idx longLeg (-1)
    if longLeg.length == 1 then
      lighting ← lit lighting lastV
      append lighting lastV
      throw .appended
    let g ← idx longLeg ((longLeg.length : Int) - 2)
    let omega ← getOneVertex
    let pq ← liftErr (omega.multiply lighting)
    let newG ← liftErr (pq.multiply g)
    if (← isIncluded newG) then throw .dependent
    -- `g` becomes a leg of length one attached to the centre: same dependency test as `append_to_center`
    if longLeg.length == 2 then checkDependencyOneLeg newG
    remove lastV
    append lighting center
    replace g newG
    append lastV lighting
    truncateLongLeg
    throw .appended
  setLighting lighting

/-- Step VII -/
def appendLongLegLastAndFirstLit : MFM Unit := do
  let mut lighting ← getLighting
  let omega ← getOneVertex
  let center ← getCenter
  let longLeg ← getLongLeg
  let firstV ← idx longLeg 0
  for i in rangeDown ((longLeg.length : Int) - 1) 0 do
    lighting ← lit lighting (← idx longLeg i)
  lighting ← litSeq lighting [center, omega, firstV, center]
  appendToCenter lighting
  throw .appended

/-- `_pipeline(lighting)`; falls off the end only if step VII returned, which it never does -/
def pipeline (lighting : PS) : MFM Unit := do
  setLighting lighting
  appendThreeGraph
  appendOneLegsInDifferentState
  appendFast
  litOnlyLongLeg
  litCenter
  reduceLongLegMoreThanOneLits
  appendLongLegFirstAndCenterLit
  appendLongLegOnlyLastLit
  appendLongLegLastAndFirstLit

/-- run the pipeline, returning the outcome and the new state -/
def runPipeline (s : MF) (lighting : PS) : Except Exc Unit × MF :=
  (pipeline lighting).run.run s

/-! ### queue construction -/

def antiCommutates (p : PS) (gens : List PS) : Except Err (List PS) :=
  gens.filterM (fun g => do
    if g.beq p then pure false
    else
      let c ← p.commutesWith g
      pure (!c))

/-- `_get_max_connected` -/
def getMaxConnected (gens : List PS) : Except Err (Option (PS × List PS)) := do
  match gens with
  | [] => return none
  | g0 :: _ =>
    let mut best := g0
    let mut bestAc ← antiCommutates g0 gens
    for p in gens do
      let ac ← antiCommutates p gens
      if ac.length > bestAc.length then
        best := p
        bestAc := ac
    return some (best, bestAc)

/-- `list.remove(x)`: first occurrence w.r.t. `==` -/
def removeFirst (l : List PS) (p : PS) : List PS :=
  match l.findIdx? (fun x => x.beq p) with
  | some i => l.eraseIdx i
  | none => l

/-- `_append_to_queue`, including Python's index-based iteration over a list
that is mutated inside the loop.  Returns (queue, pauli_strings). -/
def appendToQueue (queue0 new0 : List PS) : Except Err (List PS × List PS) := do
  let mut queue := queue0
  let mut new := new0
  let mut i := 0
  let mut fuel := new0.length + 1
  while i < new.length && fuel > 0 do
    fuel := fuel - 1
    match new[i]? with
    | none => break
    | some p =>
      if mem queue p then
        new := removeFirst new p
        i := i + 1
        continue
      let ac ← antiCommutates p queue
      if ac.length == 0 then
        i := i + 1
        continue
      if ac.length > 1 then
        let mut minIndex := queue.length
        for a in ac do
          match queue.findIdx? (fun x => x.beq a) with
          | some index =>
            if index < minIndex then
              minIndex := index
              queue := insertAt queue (minIndex + 1) p
          | none => pure ()
      else
        queue := queue ++ [p]
      new := removeFirst new p
      return (queue, new)
  return (queue, new)

def sortPS (l : List PS) : List PS := l.mergeSort (fun a b => a.le b)

/-- `_get_queue(generators)`; a round of `_append_to_queue` without progress would
loop forever in the source (disconnected input): reported as `none` -/
def getQueue (gens : List PS) : Except Err (Option (List PS)) := do
  let sorted := sortPS gens
  match ← getMaxConnected sorted with
  | none => return none
  | some (ps, acs) =>
    let mut new := removeFirst sorted ps
    let mut queue := [ps]
    for ac in acs do
      new := removeFirst new ac
      if !(mem queue ac) then queue := queue ++ [ac]
    let mut fuel := new.length + 1
    while new.length > 0 do
      if fuel == 0 then return none
      fuel := fuel - 1
      let (q', n') ← appendToQueue queue new
      if n'.length == new.length then return none
      queue := q'
      new := n'
    return some queue

/-! ### build -/

structure BuildResult where
  legs : List (List PS)
  dependents : List PS
  unappended : List PS     -- the local list of `build`: generators the reduction gave up on
  tags : List String       -- outcome per pipeline call (for the branch histogram)
  complete : Bool          -- false: fuel exhausted (non-termination suspected)
  deriving Repr, Inhabited

def excTag : Exc → String
  | .appended => "A" | .checkAppended => "C" | .dependent => "D" | .notConnected => "N"
  | .morphErr => "M" | .indexErr => "I" | .py _ => "P" | .outOfFuel => "F"

/-- `self.delayed_vertices` go back to the front of the queue -/
def restore (vs : List PS) (s : MF) : List PS × MF := (s.delayed ++ vs, { s with delayed := [] })

/-- the `while len(vertices) > 0` of `build` with the model's fuel (structural recursion, so that
the loop can be reasoned about): state, queue, `unappended`, tags -/
def buildLoop : Nat → MF → List PS → List PS → List String → BuildResult
  | _, st, [], unappended, tags => ⟨st.legs, st.dependents, unappended, tags, true⟩
  | 0, st, _ :: _, unappended, tags => ⟨st.legs, st.dependents, unappended, tags, false⟩
  | fuel + 1, st, lighting :: vertices, unappended, tags =>
    match runPipeline st lighting with
    | (.ok (), st) =>
      -- the pipeline never returns normally; Python would simply continue the loop
      buildLoop fuel st vertices unappended (tags ++ ["R"])
    | (.error e, st) =>
      let tags := tags ++ [excTag e]
      match e with
      | .appended =>
        let (vs, s) := restore vertices st
        buildLoop fuel s vs (if mem unappended lighting then removeFirst unappended lighting else unappended) tags
      | .dependent =>
        let (vs, s) := restore vertices { st with dependents := st.dependents ++ [lighting] }
        buildLoop fuel s vs unappended tags
      | .notConnected =>
        let (vs, s) := restore vertices st
        if !(mem unappended lighting) then
          buildLoop fuel s (vs ++ [lighting]) (unappended ++ [lighting]) tags
        else
          buildLoop fuel s vs unappended tags
      | .outOfFuel => ⟨st.legs, st.dependents, unappended, tags, false⟩
      | _ =>
        let (vs, s) := restore vertices st
        buildLoop fuel s vs (unappended ++ [lighting]) tags

/-- `build(generators)` -/
def build (gens : List PS) : Except Err BuildResult := do
  if gens.isEmpty then return ⟨[], [], [], [], true⟩
  match ← getQueue gens with
  | none => return ⟨[], [], [], ["queue-hang"], false⟩
  | some queue =>
    return buildLoop ((queue.length + 2) * (queue.length + 2) * (queue.length + 2) + 64) {} queue [] []

/-- `MorphFactory.is_eq(legs, generators)`: every generator is tested against a
fresh copy of the stored legs; only `DependentException` means membership -/
def isEq (legs : List (List PS)) (gens : List PS) : Bool := Id.run do
  for g in gens do
    let st : MF := { legs := legs }
    let (r, _) := runPipeline st g
    match r with
    | .error .dependent => pure ()
    | .error _ => return false
    | .ok () => pure ()   -- unreachable: the pipeline always raises
  return true

/-- `MorphFactory.select_dependents(legs, generators)` (check mode) -/
def selectDependents (legs : List (List PS)) (gens : List PS) : List PS := Id.run do
  let mut deps : List PS := []
  for g in gens do
    let st : MF := { legs := legs, isCheck := true }
    let (r, _) := runPipeline st g
    match r with
    | .error .dependent => deps := deps ++ [g]
    | _ => pure ()
  return deps

end Morph
end PauLie
