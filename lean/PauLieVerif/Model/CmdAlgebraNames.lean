/-
Protocol commands of the algebra-name comparison (`Model/AlgebraNames.lean`).
Arbitrary text travels hex-encoded (`Proto.text?`; `-` is the empty text).

  parsealg <text>                     `_parse_algebra(text)`: items hex-encoded, comma separated
  iso <text>                          `get_isomorphism(text)`: hex text or `None`
  isalgtext <reported> <text>         `is_algebra(text)` of a classification whose `get_algebra()` is <reported>
  containsalgtext <reported> <text>   `contains_algebra(text)`, same
  subalgstext <reported> <text|None>  `get_subalgebras(text)`, same; items in order
  isalg <G> <text>                    `PauliStringCollection(G).is_algebra(text)` (order of the summands irrelevant: both lists are sorted)
  containsalg <G> <text>              `get_class().contains_algebra(text)` for the summands in the model's order (sorted by name);
                                      Python's order is the iteration order of a `set` of objects hashed by identity, which no
                                      model can know: the harness compares through `containsalgtext` with the order the
                                      implementation reported
  subalgs <G> <text|None>             `get_class().get_subalgebras(text)`: sorted items without argument, items in order with one
-/
import PauLieVerif.Model.Proto
import PauLieVerif.Model.AlgebraNames

namespace PauLie
namespace CmdAlgebraNames
open Proto Classify AlgebraNames

def hexOfNat (n : Nat) : String := String.ofList (Nat.toDigits 16 n)

/-- inverse of `Proto.text?` (lower-case hex, as `harness/common.py` `hx`) -/
def showText (t : Text) : String :=
  if t.isEmpty then "-" else String.intercalate "." (t.map (fun c => hexOfNat c.toNat))

def showTexts (l : List Text) : String :=
  if l.isEmpty then "[]" else String.intercalate "," (l.map showText)

/-- the text `get_algebra()` returns for the collection, summands in the model's (sorted) order -/
def reportedOf (gs : List PS) : Except Err Text := do
  let c ← Graph.collInit gs
  let ms ← classify c
  return algebraText (← algebraOfMorphs ms)

def optText? (s : String) : Option (Option Text) :=
  if s == "None" then some none else (text? s).map some

def handle (line : String) : Option String :=
  match line.splitOn " " with
  | ["parsealg", t] => do
    let t ← text? t
    return showExcept showTexts (parseAlgebra t)
  | ["iso", t] => do
    let t ← text? t
    return showExcept (showOpt showText) (getIsomorphism t)
  | ["isalgtext", r, t] => do
    let r ← text? r
    let t ← text? t
    return showExcept showBool (isAlgebra r t)
  | ["containsalgtext", r, t] => do
    let r ← text? r
    let t ← text? t
    return showBool (containsAlgebra r t)
  | ["subalgstext", r, t] => do
    let r ← text? r
    let t ← optText? t
    return showTexts (getSubalgebras r t)
  | ["isalg", gs, t] => do
    let gs ← psList? gs
    let t ← text? t
    return showExcept showBool (do isAlgebra (← reportedOf gs) t)
  | ["containsalg", gs, t] => do
    let gs ← psList? gs
    let t ← text? t
    return showExcept showBool (do return containsAlgebra (← reportedOf gs) t)
  | ["subalgs", gs, t] => do
    let gs ← psList? gs
    let t ← optText? t
    return showExcept showTexts (do
      match t with
      | none => return sortTexts (getSubalgebras (← reportedOf gs) none)
      | some a =>
        -- with an argument `get_subalgebras` does not call `get_algebra()`; `get_class()` still classifies
        let c ← Graph.collInit gs
        let _ ← classify c
        return getSubalgebras [] (some a))
  | _ => none

end CmdAlgebraNames
end PauLie
