/-
Model of the comparison of algebra NAMES in `classifier/classification.py`:
`Classification._parse_algebra`, `is_algebra`, `contains_algebra`,
`get_subalgebras`, `get_isomorphisms`, `get_isomorphism`, and of the text
`Classification.get_algebra()` builds from the summands
(`PauliStringCollection.is_algebra` is `bool(get_class().is_algebra(text))`).

Python `str` values are `List Char` (`Text`) here; only the protocol layer
(`Model/CmdAlgebraNames.lean`) converts to `String`.  Transcribed branch by
branch, including the odd ones:

 * `algebra.replace(" ", "")` removes the ASCII space only (tabs, newlines stay and
   are later swallowed – or not – by `int()`); in `contains_algebra` and
   `get_subalgebras` the result of `replace` is thrown away (strings are immutable),
   so the argument is used with its spaces;
 * a multiplicity is whatever `int()` accepts (`Parser.pyInt`: sign, surrounding
   white space, single underscores, any Unicode decimal digit, 4300-digit limit);
   `a[1]` of `"2*3*su(2)"` is `"3"`; zero and negative multiplicities are kept;
 * `str(int)` raises ValueError beyond 4300 digits (`strInt`);
 * the final `"+".join(...).split("+")` is modelled literally;
 * `get_isomorphism` converts the multiplicity BEFORE it looks the core name up
   (so `"x*foo"` raises ValueError rather than returning None), multiplies a
   multiplicity found in the dictionary value, and – since the `fix:` commit –
   returns `None` (no longer the text `"None"`) for a name that is neither in the
   dictionary nor of the form `k*core`;
 * `is_algebra` compares the two SORTED lists position by position; the isomorphism of
   the reported summand is only computed when the texts differ (so its ValueError is
   only raised then), and the first mismatch returns `False` before later summands
   are looked at.
-/
import PauLieVerif.Model.Parser
import PauLieVerif.Model.Classify

namespace PauLie
namespace AlgebraNames
open Classify

abbrev Text := List Char

/-! ### Python string primitives -/

/-- `s.replace(" ", "")` -/
def removeSpaces (t : Text) : Text := t.filter (fun c => c != ' ')

/-- `s.split(sep)` for a one-character separator: never empty, `"".split("+") == [""]` -/
def splitOn (sep : Char) : Text → List Text
  | [] => [[]]
  | c :: t =>
    match splitOn sep t with
    | [] => [[c]]                       -- never happens (`splitOn_ne_nil`)
    | h :: r => if c == sep then [] :: h :: r else (c :: h) :: r

/-- `sep.join(l)` -/
def join (sep : Char) : List Text → Text
  | [] => []
  | [a] => a
  | a :: b :: r => a ++ sep :: join sep (b :: r)

/-- `sub in s` / `s.find(sub) > -1` -/
def isPrefix : Text → Text → Bool
  | [], _ => true
  | _ :: _, [] => false
  | a :: s, b :: t => a == b && isPrefix s t

def containsSub (s sub : Text) : Bool :=
  match s with
  | [] => sub.isEmpty
  | c :: t => isPrefix sub (c :: t) || containsSub t sub

/-- `a <= b` on `str`: lexicographic by code point -/
def textLe : Text → Text → Bool
  | [], _ => true
  | _ :: _, [] => false
  | a :: s, b :: t => decide (a.toNat < b.toNat) || (a == b && textLe s t)

/-- insertion into a sorted list (structural recursion, so that the kernel can evaluate it) -/
def insertBy {α : Type} (le : α → α → Bool) (a : α) : List α → List α
  | [] => [a]
  | b :: l => if le a b then a :: b :: l else b :: insertBy le a l

def sortBy {α : Type} (le : α → α → Bool) (l : List α) : List α := l.foldr (insertBy le) []

/-- `list.sort()` on a list of `str`: THE sorted permutation (the order on `str` is total and
antisymmetric, so the result does not depend on the algorithm; `C01Names_sort_spec`) -/
def sortTexts (l : List Text) : List Text := sortBy textLe l

def natText (n : Nat) : Text := Nat.toDigits 10 n

/-- the characters of `str(v)` -/
def intText : Int → Text
  | .ofNat n => natText n
  | .negSucc n => '-' :: natText (n + 1)

/-- `str(v)`: ValueError beyond CPython's 4300-digit limit -/
def strInt (v : Int) : Except Err Text :=
  if (natText v.natAbs).length > Parser.maxStrDigits then .error .valueError else .ok (intText v)

/-- `int(text)` -/
def pyInt (t : Text) : Except Err Int :=
  match Parser.pyInt t with
  | some v => .ok v
  | none => .error .valueError

/-! ### `Classification.get_algebra()`: the text of a list of summands -/

def tyText : TypeAlgebra → Text
  | .U => ['u'] | .SU => ['s', 'u'] | .SP => ['s', 'p'] | .SO => ['s', 'o']

/-- `f"so({size})"` -/
def nameText (ty : TypeAlgebra) (size : Nat) : Text := tyText ty ++ '(' :: natText size ++ [')']

/-- `key if v == 1 else str(v) + "*" + key` for a summand of the classifier -/
def summandText (s : Summand) : Text :=
  if s.mult == 1 then nameText s.ty s.size else natText s.mult ++ '*' :: nameText s.ty s.size

/-- `"+".join(...)` over the merged summands, in the order given -/
def algebraText (l : List Summand) : Text := join '+' (l.map summandText)

/-! ### `_parse_algebra` -/

/-- the insertion-ordered `dict[str, int]` -/
abbrev Dict := List (Text × Int)

def dictGet? (d : Dict) (k : Text) : Option Int := (d.find? (fun e => e.1 == k)).map (·.2)

/-- `d[k] = v`: in place if the key is present, else appended -/
def dictSet : Dict → Text → Int → Dict
  | [], k, v => [(k, v)]
  | e :: d, k, v => if e.1 == k then (k, v) :: d else e :: dictSet d k v

/-- one round of the `for alg in algebras` loop -/
def parseStep (algs : Dict) (alg : Text) : Except Err Dict := do
  let (name, q) ←
    if alg.contains '*' then
      match splitOn '*' alg with
      | a0 :: a1 :: _ => do
        -- `name = a[1]` is evaluated before `q = int(a[0])`
        let v ← pyInt a0
        pure (a1, v)
      | _ => throw Err.indexError      -- `a[1]`; never happens (`splitOn_two_of_contains`)
    else pure (alg, (1 : Int))
  let q := match dictGet? algs name with | some old => q + old | none => q
  return dictSet algs name q

/-- `key if v == 1 else str(v) + "*" + key` -/
def render (e : Text × Int) : Except Err Text :=
  if e.2 == 1 then .ok e.1 else do
    let s ← strInt e.2
    return s ++ '*' :: e.1

/-- the dictionary `_parse_algebra` builds -/
def parseDict (algebra : Text) : Except Err Dict :=
  (splitOn '+' (removeSpaces algebra)).foldlM parseStep []

/-- `Classification._parse_algebra(algebra)` -/
def parseAlgebra (algebra : Text) : Except Err (List Text) := do
  let algs ← parseDict algebra
  let rendered ← algs.mapM render
  return splitOn '+' (join '+' rendered)

/-! ### isomorphisms -/

/-- `Classification.get_isomorphisms()` (tied to `TwoLocal.isomorphisms`, hence to the
regenerated table, in `Properties/C01Names.lean`) -/
def isomorphisms : List (Text × Text) :=
  [("2*so(2)".toList, "2*su(2)".toList), ("so(3)".toList, "su(2)".toList),
   ("so(4)".toList, "2*su(2)".toList)]

def isoGet? (k : Text) : Option Text := (isomorphisms.find? (fun e => e.1 == k)).map (·.2)

/-- `Classification.get_isomorphism(algebra)`; `none` is Python's `None` -/
def getIsomorphism (algebra : Text) : Except Err (Option Text) :=
  match isoGet? algebra with
  | some v => .ok (some v)
  | none =>
    if algebra.contains '*' then
      match splitOn '*' algebra with
      | a0 :: core :: _ => do
        let n ← pyInt a0
        match isoGet? core with
        | none => return none
        | some iso =>
          let (isoN, isoCore) ←
            if iso.contains '*' then
              match splitOn '*' iso with
              | b0 :: b1 :: _ => do
                let m ← pyInt b0
                pure (m, b1)
              | _ => throw Err.indexError
            else pure ((1 : Int), iso)
          let m := isoN * n
          if m == 1 then return some isoCore
          else do
            let s ← strInt m
            return some (s ++ '*' :: isoCore)
      | _ => throw Err.indexError
    else .ok none

/-! ### the queries -/

/-- the `for i, a in enumerate(algebras)` loop of `is_algebra` -/
def matchLoop : List Text → List Text → Except Err Bool
  | [], _ => .ok true
  | _ :: _, [] => .error .indexError     -- equal lengths were checked before
  | a :: as, r :: rs =>
    if a == r then matchLoop as rs
    else
      match getIsomorphism r with
      | .error e => .error e
      | .ok iso => if some a == iso then matchLoop as rs else .ok false

/-- `Classification.is_algebra(algebra)` for a classification whose
`get_algebra()` returned `reported` -/
def isAlgebra (reported algebra : Text) : Except Err Bool := do
  let algebras ← parseAlgebra algebra
  let reps := splitOn '+' reported
  if algebras.length != reps.length then return false
  matchLoop (sortTexts algebras) (sortTexts reps)

/-- `Classification.contains_algebra(algebra)`: the `replace` is lost, plain substring test -/
def containsAlgebra (reported algebra : Text) : Bool := containsSub reported algebra

/-- `Classification.get_subalgebras(algebra)`: with an argument the classification is not
consulted at all (and the `replace` is lost) -/
def getSubalgebras (reported : Text) (algebra : Option Text) : List Text :=
  match algebra with
  | none => splitOn '+' reported
  | some a => splitOn '+' a

end AlgebraNames
end PauLie
