/-
Model of `src/paulie/application/matrix_decomposition.py`,
`src/paulie/application/average_pauli_weight.py` and of
`PauliString.get_weight_in_matrix` (`common/pauli_string_bitarray.py`).

Core Lean only (compiled into `paulie_model`).  Coefficients are exact Gaussian
rationals `GR` (floating point is *not* modelled).  An ndarray is its shape plus
the row-major flat data.  Python exceptions are `Except Err`.

How the loops are transcribed.
* `while h < b.shape[0]: …; h *= 4` is `whileLoop 4 pass4` (fuel `len(b)`, more than
  the number of passes; `h` is multiplied by 4 after every pass).
* `for i in range(0, len(b), 4*h)` is `forRange (4*h) (body4 h)` run
  `len(range(0, len(b), 4*h))` times from `i = 0`; the body is the four slice reads and
  the two tuple slice assignments, in place (`slice`, `setSlice` on the whole array).
  A slice reaching beyond the end cannot occur: the guards leave only lengths `4^n`,
  resp. `2^n`, and `4h` divides them (on such input numpy would raise a broadcasting
  error; the model's `take/drop` truncate).  `Proofs/C13Loop` proves that on whole
  chunks the in-place loop is the chunk-wise butterfly.
* `_pauli_ord` is the recursion on `n` with base `n == 1`; `n == 0` never
  reaches it (1×1 input is rejected before) and would recurse for ever
  (`RecursionError`, a `RuntimeError`).
-/
import PauLieVerif.Model.PS

namespace PauLie
namespace Decomp

/-- A Gaussian rational `re + im·i`. -/
structure GR where
  re : Rat
  im : Rat
  deriving DecidableEq, Inhabited

namespace GR
def zero : GR := ⟨0, 0⟩
def add (a b : GR) : GR := ⟨a.re + b.re, a.im + b.im⟩
def sub (a b : GR) : GR := ⟨a.re - b.re, a.im - b.im⟩
/-- `1j * a` -/
def mulI (a : GR) : GR := ⟨-a.im, a.re⟩
/-- `a / 2` -/
def half (a : GR) : GR := ⟨a.re / 2, a.im / 2⟩
/-- `np.abs(a) ** 2` as an exact number -/
def normSq (a : GR) : Rat := a.re * a.re + a.im * a.im
instance : Add GR := ⟨add⟩
instance : Sub GR := ⟨sub⟩
end GR

/-- shape + row-major data of an `np.ndarray` -/
structure NDArray where
  shape : List Nat
  data : List GR

/-! ### small integer helpers -/

/-- `int.bit_length()` -/
def bitLength (n : Nat) : Nat := if n = 0 then 0 else Nat.log2 n + 1

def bitCountAux : Nat → Nat → Nat
  | 0, _ => 0
  | f + 1, m => if m = 0 then 0 else m % 2 + bitCountAux f (m / 2)

/-- `int.bit_count()` -/
def bitCount (n : Nat) : Nat := bitCountAux n n

/-- `len(range(0, len, step))` -/
def rangeLen (len step : Nat) : Nat := (len + step - 1) / step

/-! ### `_pauli_ord`, `_mat_to_vec` -/

/-- `_pauli_ord(row, col, n)`: the filled prefixes `row[:4^n]`, `col[:4^n]`. -/
def pauliOrd : Nat → Except Err (List Nat × List Nat)
  | 0 => .error .runtimeError
  | 1 => .ok ([0, 1, 0, 1], [0, 1, 1, 0])
  | n + 2 =>
    match pauliOrd (n + 1) with
    | .error e => .error e
    | .ok (row, col) =>
      let s := 1 <<< (n + 1)
      .ok (row ++ row.map (· + s) ++ row ++ row.map (· + s),
           col ++ col.map (· + s) ++ col.map (· + s) ++ col)

/-- fancy indexing `flat[idx]`; out of range ⇒ IndexError -/
def gather (flat : List GR) : List Nat → Except Err (List GR)
  | [] => .ok []
  | i :: t =>
    match flat[i]? with
    | none => .error .indexError
    | some x =>
      match gather flat t with
      | .error e => .error e
      | .ok r => .ok (x :: r)

/-- `_mat_to_vec(matrix)` for a matrix of shape `(dim, _)` with flat data `flat`. -/
def matToVec (dim : Nat) (flat : List GR) : Except Err (List GR) :=
  let log2n := bitLength dim - 1
  match pauliOrd log2n with
  | .error e => .error e
  | .ok (row, col) =>
    gather flat (List.zipWith (fun r c => (1 <<< log2n) * r + c) row col)

/-! ### the butterflies, in place -/

/-- the slice `b[lo:hi]` (`lo ≤ hi`) -/
def slice (b : List GR) (lo hi : Nat) : List GR := (b.drop lo).take (hi - lo)

/-- the slice assignment `b[lo : lo+len(v)] = v` -/
def setSlice (b : List GR) (lo : Nat) (v : List GR) : List GR :=
  b.take lo ++ (v ++ b.drop (lo + v.length))

def vAddHalf (x y : List GR) : List GR := List.zipWith (fun a b => GR.half (a + b)) x y
def vSubHalf (x y : List GR) : List GR := List.zipWith (fun a b => GR.half (a - b)) x y
def vISubHalf (x y : List GR) : List GR := List.zipWith (fun a b => GR.half (GR.mulI (a - b))) x y

/-- the body of the `for` loop of `matrix_decomposition` for one `i`:
```
x, y = b[i : i + h], b[i + h : i + 2 * h]
b[i : i + h], b[i + h : i + 2 * h] = (x + y) / 2, (x - y) / 2
z, w = b[i + 2 * h : i + 3 * h], b[i + 3 * h : i + 4 * h]
b[i + 2 * h : i + 3 * h], b[i + 3 * h : i + 4 * h] = (z + w) / 2, 1j * (z - w) / 2
```
(both right-hand sides are evaluated before the two slice assignments) -/
def body4 (h i : Nat) (b : List GR) : List GR :=
  let x := slice b i (i + h)
  let y := slice b (i + h) (i + 2 * h)
  let e1 := vAddHalf x y
  let e2 := vSubHalf x y
  let b := setSlice (setSlice b i e1) (i + h) e2
  let z := slice b (i + 2 * h) (i + 3 * h)
  let w := slice b (i + 3 * h) (i + 4 * h)
  let e3 := vAddHalf z w
  let e4 := vISubHalf z w
  setSlice (setSlice b (i + 2 * h) e3) (i + 3 * h) e4

/-- the body of the `for` loop of `matrix_decomposition_diagonal` for one `i` -/
def body2 (h i : Nat) (b : List GR) : List GR :=
  let x := slice b i (i + h)
  let y := slice b (i + h) (i + 2 * h)
  let e1 := vAddHalf x y
  let e2 := vSubHalf x y
  setSlice (setSlice b i e1) (i + h) e2

/-- `for i in range(i0, …, step): b = body i b`, `k` iterations left -/
def forRange (step : Nat) (body : Nat → List GR → List GR) : Nat → Nat → List GR → List GR
  | 0, _, b => b
  | k + 1, i, b => forRange step body k (i + step) (body i b)

def pass4 (h : Nat) (b : List GR) : List GR :=
  forRange (4 * h) (body4 h) (rangeLen b.length (4 * h)) 0 b

def pass2 (h : Nat) (b : List GR) : List GR :=
  forRange (2 * h) (body2 h) (rangeLen b.length (2 * h)) 0 b

/-- `while h < len(b): b = pass h b; h *= m` -/
def whileLoop (m : Nat) (pass : Nat → List GR → List GR) : Nat → Nat → List GR → List GR
  | 0, _, b => b
  | fuel + 1, h, b => if h < b.length then whileLoop m pass fuel (m * h) (pass h b) else b

/-! ### the two public functions -/

def matrixDecomposition (a : NDArray) : Except Err (List GR) :=
  match a.shape with
  | [r, c] =>
    if r ≠ c then .error .valueError
    else if r = 1 then .error .valueError
    else if bitCount r ≠ 1 then .error .valueError
    else
      match matToVec r a.data with
      | .error e => .error e
      | .ok b => .ok (whileLoop 4 pass4 b.length 1 b)
  | _ => .error .valueError

def matrixDecompositionDiagonal (a : NDArray) : Except Err (List GR) :=
  match a.shape with
  | [r] =>
    if r = 1 then .error .valueError
    else if bitCount r ≠ 1 then .error .valueError
    else .ok (whileLoop 2 pass2 a.data.length 1 a.data)
  | _ => .error .valueError

/-! ### `PauliString.get_weight_in_matrix` -/

def getWeightInMatrix (p : PS) (b : List GR) : Except Err GR :=
  let lenM := b.length
  let lenS := p.len
  if lenM ≠ 2 ^ lenS ∧ lenM ≠ 4 ^ lenS then .error .valueError
  else if lenM = 2 ^ lenS then
    match p.getDiagonalIndex with
    | .error e => .error e
    | .ok index =>
      if index > -1 then
        match b[index.toNat]? with
        | some x => .ok x
        | none => .error .indexError
      else .ok GR.zero
  else
    match p.getIndex with
    | .error e => .error e
    | .ok index =>
      match b[index]? with
      | some x => .ok x
      | none => .error .indexError

/-! ### `average_pauli_weight.py` -/

/-- the inner loop of `get_pauli_weights` for one index -/
def digitWeight (identityPos : Int) : Nat → Nat → Nat
  | 0, _ => 0
  | k + 1, t => (if ((t % 4 : Nat) : Int) ≠ identityPos then 1 else 0) + digitWeight identityPos k (t / 4)

/-- `get_pauli_weights(num_qubits, identity_pos)`; a negative `num_qubits` makes
`4**num_qubits` a float and `np.zeros` raises TypeError. -/
def getPauliWeights (numQubits : Int) (identityPos : Int := 0) : Except Err (List Nat) :=
  if numQubits < 0 then .error .typeError
  else .ok ((List.range (4 ^ numQubits.toNat)).map (digitWeight identityPos numQubits.toNat))

/-- `np.abs(c_p)**2` entry-wise, exact -/
def probs (c : List GR) : List Rat := c.map GR.normSq

def sumRat (l : List Rat) : Rat := l.foldr (· + ·) 0

/-- `average_pauli_weight(o, weights)` = `np.sum(weights * probs)` (exact); numpy
broadcasting: equal lengths, or a length-1 `weights`. -/
def averagePauliWeight (o : NDArray) (weights : List Int) : Except Err Rat :=
  match matrixDecomposition o with
  | .error e => .error e
  | .ok c =>
    let p := probs c
    if weights.length = p.length then
      .ok (sumRat (List.zipWith (fun (w : Int) (q : Rat) => (w : Rat) * q) weights p))
    else match weights with
      | [w] => .ok (sumRat (p.map (fun q => (w : Rat) * q)))
      | _ => .error .valueError

end Decomp
end PauLie
