/-
Model of `src/paulie/common/pauli_string_linear.py` (class `PauliStringLinear`).

Import-free, executable.  A linear combination is the term list the Python object
keeps in `self.combinations`: `List (GR × PS)`, coefficient first.

Coefficients are **exact Gaussian rationals** `GR` (`Rat` is core Lean).  Python
uses `complex` floating point; the model does not model rounding.  Consequently
  * `abs(c) > 1e-12`  (in `__add__`, `simplify`, `__eq__`)  becomes `c ≠ 0`,
  * `abs(c) < 1e-12`  (in `is_zero`)                        becomes `c = 0`,
  * `np.isclose(a, b)` (in `__eq__`, `__str__`)             becomes `a = b`,
  * `f"{x:.8g}"`      (in `__str__`) is modelled exactly: correct rounding of the
    rational to 8 significant digits, half-to-even, then the `%g` layout.
The correspondence stream only uses coefficients on which the floating-point
operations of the source are exact and on which thresholds and `=` coincide
(dyadic rationals of bounded size; guarded by the harness with `fractions`).

The model follows the *repaired* code (five `fix:` commits of this slice: `trace`
sums all identity terms, `is_zero` and `__eq__` work on collected terms, `@`
iterates over the term lists, `[] * c` is `[]`).  Python exceptions are
`Except Err`.  What is *not* repaired is modelled as it is: `get_matrix` of the
empty combination raises `IndexError`.
-/
import PauLieVerif.Model.PS
import PauLieVerif.Model.Matrix
import PauLieVerif.Model.Parser

namespace PauLie

/-- Gaussian rational `re + im·i`. -/
structure GR where
  re : Rat
  im : Rat
  deriving DecidableEq, Repr, Inhabited

namespace GR
def zero : GR := ⟨0, 0⟩
def one : GR := ⟨1, 0⟩
def add (a b : GR) : GR := ⟨a.re + b.re, a.im + b.im⟩
def mul (a b : GR) : GR := ⟨a.re * b.re - a.im * b.im, a.re * b.im + a.im * b.re⟩
def neg (a : GR) : GR := ⟨-a.re, -a.im⟩
def conj (a : GR) : GR := ⟨a.re, -a.im⟩
instance : Add GR := ⟨add⟩
instance : Mul GR := ⟨mul⟩
instance : Neg GR := ⟨neg⟩
def ofGI (g : GI) : GR := ⟨(g.re : Rat), (g.im : Rat)⟩
def ofNat (n : Nat) : GR := ⟨(n : Rat), 0⟩
/-- `(-1j) ** k` for `k = f % 4` -/
def negIPow (k : Nat) : GR := ofGI (GI.negIPow k)
/-- canonical text `a_b_d` = `(a + b·i)/d`, `d` the least common denominator -/
def toString (a : GR) : String :=
  let d := Nat.lcm a.re.den a.im.den
  let x : Int := a.re.num * ((d / a.re.den : Nat) : Int)
  let y : Int := a.im.num * ((d / a.im.den : Nat) : Int)
  s!"{x}_{y}_{d}"
def sum (l : List GR) : GR := l.foldl (· + ·) zero
end GR

/-- `self.combinations` -/
abbrev Lin := List (GR × PS)

/-- `dict[str, complex]` in insertion order, keyed by `str(pauli)`. -/
abbrev Dict := List (List Letter × GR)

namespace Lin

/-- `PauliStringLinear(combinations)`: every term's string is re-parsed from its
text, `PauliString(pauli_str=str(c[1]))`. -/
def mk (l : List (GR × PS)) : Lin := l.map (fun t => (t.1, PS.ofLetters t.2.letters))

/-- `PauliStringLinear(combinations)` from raw texts: every term's text goes through the
parser (`PauliString(pauli_str=str(c[1]))`, dense or positional notation such as
`Z_2s3`); the first ill-formed text raises `ValueError`.  (The width of the object's
own inherited bit register, `len(str(first raw term))`, is not observable through
any modelled operation: `get_size()` reads the first stored term.) -/
def ofTexts : List (GR × List Char) → Except Err Lin
  | [] => .ok []
  | t :: l => do
    let p ← Parser.mkPS t.2
    let r ← ofTexts l
    return (t.1, p) :: r

/-- `get_size()`: length of the first term's string, `0` for the empty list. -/
def getSize : Lin → Nat
  | [] => 0
  | t :: _ => t.2.len

/-- `d[k] += c` on a `defaultdict(complex)` (`0j + c` for a fresh key). -/
def dictAdd : Dict → List Letter → GR → Dict
  | [], k, c => [(k, GR.zero + c)]
  | (k', v) :: t, k, c => if k' = k then (k', v + c) :: t else (k', v) :: dictAdd t k c

/-- `for coeff, pauli in combinations: summed[str(pauli)] += coeff` continuing from `d` -/
def sumInto (d : Dict) : Lin → Dict
  | [] => d
  | t :: l => sumInto (dictAdd d t.2.letters t.1) l

def sumByKey (l : Lin) : Dict := sumInto [] l

/-- `[(c, p) for p, c in summed.items() if abs(c) > 1e-12]` -/
def nonzeroTerms (d : Dict) : List (GR × PS) :=
  (d.filter (fun e => e.2 ≠ GR.zero)).map (fun e => (e.2, PS.ofLetters e.1))

/-- `simplify()` -/
def simplify (a : Lin) : Lin :=
  if a.isEmpty then a
  else
    let s := nonzeroTerms (sumByKey a)
    if s.isEmpty then mk [(GR.zero, PS.ident (getSize a))]
    else mk s

/-- `__add__` -/
def add (a b : Lin) : Lin :=
  let s := nonzeroTerms (sumInto (sumInto [] a) b)
  if s.isEmpty then mk [] else mk s

/-- `__iadd__`: `self.combinations = (self + other).combinations` -/
def iadd (a b : Lin) : Lin := add a b

/-- one product term `(a*b*phase, P@Q)`; `sign` first, then `multiply` -/
def mulTerm (ta tb : GR × PS) : Except Err (GR × PS) := do
  let k ← PS.sign ta.2 tb.2
  let r ← PS.multiply ta.2 tb.2
  return (ta.1 * tb.1 * GR.negIPow k, r)

def mulRow (ta : GR × PS) : Lin → Except Err Lin
  | [] => .ok []
  | tb :: b => do
    let t ← mulTerm ta tb
    let r ← mulRow ta b
    return t :: r

/-- all pairwise product terms in loop order -/
def mulAll : Lin → Lin → Except Err Lin
  | [], _ => .ok []
  | ta :: a, b => do
    let r ← mulRow ta b
    let s ← mulAll a b
    return r ++ s

/-- `__matmul__` (both operands linear combinations) -/
def matmul (a b : Lin) : Except Err Lin := do
  let terms ← mulAll a b
  if terms.isEmpty then
    let size := if getSize a > 0 then getSize a else getSize b
    return mk [(GR.zero, PS.ident size)]
  else
    return simplify (mk terms)

/-- `__mul__` / `__rmul__` with a number -/
def smul (a : Lin) (s : GR) : Lin :=
  let t := a.map (fun t => (t.1 * s, t.2))
  if t.isEmpty then mk [] else mk t

/-- `.h` -/
def h (a : Lin) : Lin := mk (a.map (fun t => (t.1.conj, t.2)))

/-- `trace()`: `2**n` times the sum of the identity coefficients, `n = get_size()` -/
def trace (a : Lin) : GR :=
  let c := GR.sum ((a.filter (fun t => t.2.isIdentity)).map (·.1))
  if c = GR.zero then GR.zero else c * GR.ofNat (2 ^ getSize a)

/-- `is_zero()` -/
def isZero (a : Lin) : Bool := (simplify a).all (fun t => t.1 = GR.zero)

/-- `{k: v for …}`: a later entry with the same key overwrites the value in place -/
def dictSet : Dict → List Letter → GR → Dict
  | [], k, c => [(k, c)]
  | (k', v) :: t, k, c => if k' = k then (k', c) :: t else (k', v) :: dictSet t k c

/-- `{str(p): c for c, p in combos if abs(c) > 1e-12}` -/
def eqDict (a : Lin) : Dict :=
  ((simplify a).filter (fun t => t.1 ≠ GR.zero)).foldl (fun d t => dictSet d t.2.letters t.1) []

def dictGet? : Dict → List Letter → Option GR
  | [], _ => none
  | (k', v) :: t, k => if k' = k then some v else dictGet? t k

/-- `__eq__` -/
def eq (a b : Lin) : Bool :=
  let d1 := eqDict a
  let d2 := eqDict b
  -- `self_dict.keys() != other_dict.keys()` (set comparison)
  if !(d1.all (fun e => (dictGet? d2 e.1).isSome) && d2.all (fun e => (dictGet? d1 e.1).isSome)) then false
  else d1.all (fun e => dictGet? d2 e.1 = some e.2)

/-- `kron(P)`: `c[1] + other` -/
def kron (a : Lin) (p : PS) : Lin := mk (a.map (fun t => (t.1, t.2.tensor p)))
/-- `rkron(P)`: `other + c[1]` -/
def rkron (a : Lin) (p : PS) : Lin := mk (a.map (fun t => (t.1, p.tensor t.2)))

/-- `quadratic(basis)` for a Pauli-string `basis`: term `(c·phase(L,S), S ⊗ (L@S))` -/
def quadTerm (basis : PS) (t : GR × PS) : Except Err (GR × PS) := do
  let k ← PS.sign basis t.2
  let r ← PS.multiply basis t.2
  return (t.1 * GR.negIPow k, PS.ofLetters (t.2.letters ++ r.letters))

def quadratic (a : Lin) (basis : PS) : Except Err Lin := do
  let ts ← a.mapM (quadTerm basis)
  return mk ts

/-! ### dense matrix -/

/-- `c * P.get_matrix()` entry; rows / columns as bit lists -/
def termEntry (t : GR × PS) (r c : List Bool) : GR := t.1 * GR.ofGI (entry t.2.letters r c)

/-- the length checks `get_matrix()` performs implicitly, term by term in list order:
a term of length 0 has matrix `None` (`c * None` raises `TypeError`); a term of
another length than the first does not broadcast (`ValueError`). -/
def matCheck (n : Nat) : Lin → Except Err Unit
  | [] => .ok ()
  | t :: l =>
    if t.2.len = 0 then .error .typeError
    else if t.2.len ≠ n then .error .valueError
    else matCheck n l

/-- entry `(r, c)` of the sum: `zeros + c₁·M₁ + c₂·M₂ + …` -/
def sumEntry (a : Lin) (r c : List Bool) : GR :=
  a.foldl (fun acc t => acc + termEntry t r c) GR.zero

/-- `get_matrix()`: `reduce` over the terms starting from `zeros_like(first matrix)`.
Empty list: `self[0]` raises `IndexError`. -/
def getMatrix (a : Lin) : Except Err (List (List GR)) :=
  match a with
  | [] => .error .indexError
  | t0 :: _ =>
    match matCheck t0.2.len a with
    | .error e => .error e
    | .ok () =>
      .ok ((allBits t0.2.len).map (fun r => (allBits t0.2.len).map (fun c => sumEntry a r c)))

/-! ### printing -/

/-- number of decimal digits of `n` (`0` for `0`) -/
def ndigits (n : Nat) : Nat :=
  let rec go : Nat → Nat → Nat → Nat
    | 0, _, acc => acc
    | fuel + 1, m, acc => if m = 0 then acc else go fuel (m / 10) (acc + 1)
  go (n + 1) n 0

def pow10 (e : Int) : Rat := if e ≥ 0 then ((10 ^ e.toNat : Nat) : Rat) else 1 / ((10 ^ (-e).toNat : Nat) : Rat)

/-- decimal exponent `e` with `10^e ≤ q < 10^(e+1)` for `q > 0` -/
def decExp (q : Rat) : Int :=
  let e0 : Int := (ndigits q.num.natAbs : Int) - (ndigits q.den : Int)
  -- `e0 - 1 ≤ e ≤ e0`
  if pow10 e0 ≤ q then e0 else e0 - 1

/-- round half to even of a non-negative rational -/
def roundHalfEven (q : Rat) : Nat :=
  let f := q.floor
  let r := q - (f : Rat)
  let half : Rat := 1 / 2
  let up := if r > half then true else if r < half then false else f % 2 ≠ 0
  (if up then f + 1 else f).toNat

def stripZeros (s : List Char) : List Char :=
  (s.reverse.dropWhile (· == '0')).reverse

def padLeft (s : String) (n : Nat) : String := String.ofList (List.replicate (n - s.length) '0') ++ s

/-- `f"{x:.8g}"` for an exact rational `x` (no signed zero) -/
def fmtG8 (x : Rat) : String :=
  if x = 0 then "0"
  else
    let neg := x < 0
    let a := if neg then -x else x
    let e0 := decExp a
    let m0 := roundHalfEven (a * pow10 (7 - e0))
    let (m, e) := if m0 ≥ 10 ^ 8 then (m0 / 10, e0 + 1) else (m0, e0)
    let ds := (padLeft (toString m) 8).toList
    let body :=
      if e < -4 ∨ e ≥ 8 then
        let frac := stripZeros (ds.drop 1)
        let mant := String.ofList (ds.take 1) ++ (if frac.isEmpty then "" else "." ++ String.ofList frac)
        let ex := padLeft (toString e.natAbs) 2
        mant ++ "e" ++ (if e < 0 then "-" else "+") ++ ex
      else if e ≥ 0 then
        let k := e.toNat + 1
        let frac := stripZeros (ds.drop k)
        String.ofList (ds.take k) ++ (if frac.isEmpty then "" else "." ++ String.ofList frac)
      else
        let frac := stripZeros (List.replicate ((-e).toNat - 1) '0' ++ ds)
        "0." ++ String.ofList frac
    (if neg then "-" else "") ++ body

/-- `f"{x:+.8g}"` -/
def fmtG8Plus (x : Rat) : String := if x < 0 then fmtG8 x else "+" ++ fmtG8 x

/-- `_format_term` -/
def formatTerm (c : GR) (p : String) : String :=
  let v :=
    if c.im = 0 then fmtG8 c.re
    else if c.re = 0 then
      if c.im = 1 then "i" else if c.im = -1 then "-i" else fmtG8 c.im ++ "i"
    else
      if c.im = 1 then "(" ++ fmtG8 c.re ++ "+i)"
      else if c.im = -1 then "(" ++ fmtG8 c.re ++ "-i)"
      else "(" ++ fmtG8 c.re ++ fmtG8Plus c.im ++ "i)"
  if v = "1" then p else if v = "-1" then "-" ++ p else v ++ "*" ++ p

def letterLe : Letter → Letter → Bool
  | .I, _ => true
  | .X, .I => false | .X, _ => true
  | .Y, .I => false | .Y, .X => false | .Y, _ => true
  | .Z, .Z => true | .Z, _ => false

/-- `str` comparison `s ≤ t` -/
def lettersLe : List Letter → List Letter → Bool
  | [], _ => true
  | _ :: _, [] => false
  | a :: s, b :: t => if a = b then lettersLe s t else letterLe a b

/-- stable insertion (`sorted(..., key=str)`) -/
def insertSorted (t : GR × PS) : Lin → Lin
  | [] => [t]
  | u :: l => if lettersLe u.2.letters t.2.letters then u :: insertSorted t l else t :: u :: l

def sortTerms (l : Lin) : Lin := l.foldl (fun acc t => insertSorted t acc) []

/-- `__str__` -/
def str (a : Lin) : String :=
  if isZero a then "0*" ++ String.ofList (List.replicate (getSize a) 'I')
  else
    let ts := (sortTerms (simplify a)).map (fun t => formatTerm t.1 t.2.toString)
    match ts with
    | [] => ""
    | t0 :: rest =>
      rest.foldl (fun acc t =>
        if t.startsWith "-" then acc ++ " - " ++ (t.drop 1).toString else acc ++ " + " ++ t) t0

end Lin
end PauLie
