/-
Model of `src/paulie/common/two_local_generators.py`:
`G_LIE` (28 named two-local families) and `two_local_algebras(n)` (the closed-form
reference table, including the helpers `_a3` (period 8), `_a5` (period 6),
`_a6`/`_a7`/`_a10` (parity)), plus the k-local expansion of a family along an
open chain of `n` qubits, `get_pauli_string(G_LIE[name], n=n)`
(`Graph.getPauliStringList`).

Domain: the Python docstring says `n >= 3`.  For `n < 3` the Python code computes
`2**(n-2)` with a negative exponent (a float) and prints e.g. `sp(0.5)`; this is
outside the model: `tlName`/`tlText` use truncated subtraction there and the
protocol command answers `out-of-domain` without consulting them.
-/
import PauLieVerif.Model.Graph
import PauLieVerif.Model.Classify

namespace PauLie
namespace TwoLocal
open Classify

/-- the keys of `G_LIE`, in source order -/
inductive Fam where
  | a0 | a1 | a2 | a3 | a4 | a5 | a6 | a7 | a8 | a9 | a10 | a11 | a12 | a13 | a14 | a15
  | a16 | a17 | a18 | a19 | a20 | a21 | a22 | b0 | b1 | b2 | b3 | b4
  deriving DecidableEq, Repr, Inhabited

def Fam.all : List Fam :=
  [.a0, .a1, .a2, .a3, .a4, .a5, .a6, .a7, .a8, .a9, .a10, .a11, .a12, .a13, .a14, .a15,
   .a16, .a17, .a18, .a19, .a20, .a21, .a22, .b0, .b1, .b2, .b3, .b4]

def Fam.name : Fam → String
  | .a0 => "a0" | .a1 => "a1" | .a2 => "a2" | .a3 => "a3" | .a4 => "a4" | .a5 => "a5"
  | .a6 => "a6" | .a7 => "a7" | .a8 => "a8" | .a9 => "a9" | .a10 => "a10" | .a11 => "a11"
  | .a12 => "a12" | .a13 => "a13" | .a14 => "a14" | .a15 => "a15" | .a16 => "a16"
  | .a17 => "a17" | .a18 => "a18" | .a19 => "a19" | .a20 => "a20" | .a21 => "a21"
  | .a22 => "a22" | .b0 => "b0" | .b1 => "b1" | .b2 => "b2" | .b3 => "b3" | .b4 => "b4"

/-- dictionary lookup `G_LIE[name]` / `two_local_algebras(n)[name]`; `none` = KeyError -/
def Fam.ofName? (s : String) : Option Fam := Fam.all.find? (fun f => f.name == s)

/-- `G_LIE[name]` -/
def Fam.gens : Fam → List String
  | .a0 => ["XX"]
  | .a1 => ["XY"]
  | .a2 => ["XY", "YX"]
  | .a3 => ["XX", "YZ"]
  | .a4 => ["XX", "YY"]
  | .a5 => ["XY", "YZ"]
  | .a6 => ["XX", "YZ", "ZY"]
  | .a7 => ["XX", "YY", "ZZ"]
  | .a8 => ["XX", "XZ"]
  | .a9 => ["XY", "XZ"]
  | .a10 => ["XY", "YZ", "ZX"]
  | .a11 => ["XY", "YX", "YZ"]
  | .a12 => ["XX", "XY", "YZ"]
  | .a13 => ["XX", "YY", "YZ"]
  | .a14 => ["XX", "YY", "XY"]
  | .a15 => ["XX", "XY", "XZ"]
  | .a16 => ["XY", "YX", "YZ", "ZY"]
  | .a17 => ["XX", "XY", "ZX"]
  | .a18 => ["XX", "XZ", "YY", "ZY"]
  | .a19 => ["XX", "XY", "ZX", "YZ"]
  | .a20 => ["XX", "YY", "ZZ", "ZY"]
  | .a21 => ["XX", "YY", "XY", "ZX"]
  | .a22 => ["XX", "XY", "XZ", "YX"]
  | .b0 => ["XI", "IX"]
  | .b1 => ["XX", "XI", "IX"]
  | .b2 => ["XY", "XI", "IX"]
  | .b3 => ["XI", "YI", "IX", "IY"]
  | .b4 => ["XX", "XY", "XZ", "XI", "IX", "IY", "IZ"]

/-- the dictionary `G_LIE` as an association list in source order -/
def gLie : List (String × List String) := Fam.all.map (fun f => (f.name, f.gens))

def so (m : Nat) (k : Nat := 1) : Summand := ⟨.SO, m, k⟩
def su (m : Nat) (k : Nat := 1) : Summand := ⟨.SU, m, k⟩
def sp (m : Nat) (k : Nat := 1) : Summand := ⟨.SP, m, k⟩
def u1 (k : Nat := 1) : Summand := ⟨.U, 1, k⟩

/-- `_a3(n)`; `none` is the (unreachable) `return None` after the `match` -/
def a3 (n : Nat) : Option (List Summand) :=
  let r := n % 8
  if r == 0 then some [so (2 ^ (n - 2)) 4]
  else if r == 1 || r == 7 then some [so (2 ^ (n - 1))]
  else if r == 2 || r == 6 then some [su (2 ^ (n - 2)) 2]
  else if r == 3 || r == 5 then some [sp (2 ^ (n - 2))]
  else if r == 4 then some [sp (2 ^ (n - 3)) 4]
  else none

/-- `_a5(n)` -/
def a5 (n : Nat) : Option (List Summand) :=
  let r := n % 6
  if r == 0 then some [so (2 ^ (n - 2)) 4]
  else if r == 1 || r == 5 then some [so (2 ^ (n - 1))]
  else if r == 2 || r == 4 then some [su (2 ^ (n - 2)) 2]
  else if r == 3 then some [sp (2 ^ (n - 2))]
  else none

/-- `_a6(n)` (= `_a7` = `_a10`) -/
def a6 (n : Nat) : Option (List Summand) :=
  if n % 2 == 1 then some [su (2 ^ (n - 1))] else some [su (2 ^ (n - 2)) 4]

/-- `two_local_algebras(n)[name]` as the list of summands in the order written in
the source (not merged: `a2` is `so(n)+so(n)`) -/
def tlName : Fam → Nat → Option (List Summand)
  | .a0, n => some [u1 (n - 1)]
  | .a1, n => some [so n]
  | .a2, n => some [so n, so n]
  | .a3, n => a3 n
  | .a4, n => some [so n, so n]
  | .a5, n => a5 n
  | .a6, n => a6 n
  | .a7, n => a6 n
  | .a8, n => some [so (2 * n - 1)]
  | .a9, n => some [sp (2 ^ (n - 2))]
  | .a10, n => a6 n
  | .a11, n => some [so (2 ^ n)]
  | .a12, n => some [su (2 ^ n)]
  | .a13, n => some [su (2 ^ (n - 1)), su (2 ^ (n - 1))]
  | .a14, n => some [so (2 * n)]
  | .a15, n => some [su (2 ^ (n - 1)), su (2 ^ (n - 1))]
  | .a16, n => some [so (2 ^ n)]
  | .a17, n => some [su (2 ^ n)]
  | .a18, n => some [su (2 ^ n)]
  | .a19, n => some [su (2 ^ n)]
  | .a20, n => some [su (2 ^ (n - 1)), su (2 ^ (n - 1))]
  | .a21, n => some [su (2 ^ n)]
  | .a22, n => some [su (2 ^ n)]
  | .b0, n => some [u1 n]
  | .b1, n => some [u1 (2 * n - 1)]
  | .b2, n => some [sp (2 ^ (n - 2)), u1]
  | .b3, n => some [su 2 n]
  | .b4, n => some [su (2 ^ (n - 1)), su (2 ^ (n - 1)), u1]

/-- how the source joins the summands of a row: `so({n})+so({n})` for a2/a4,
`… + …` (with blanks) everywhere else -/
def Fam.sep : Fam → String
  | .a2 => "+" | .a4 => "+" | _ => " + "

/-- the exact text of `two_local_algebras(n)[name]` for `n ≥ 3` (`None` for the
unreachable exits) -/
def tlText (f : Fam) (n : Nat) : String :=
  match tlName f n with
  | none => "None"
  | some l => String.intercalate f.sep (l.map Summand.toString)

/-- the generators of a family as Pauli strings (`PauliString(pauli_str=p)`) -/
def Fam.gensPS (f : Fam) : List PS :=
  f.gens.filterMap (fun s => (lettersOfString? s).map PS.ofLetters)

/-- `get_pauli_string(G_LIE[name], n=n)` -/
def klocal (f : Fam) (n : Nat) : Except Err (List PS) :=
  Graph.getPauliStringList f.gensPS (some n)

/-- the same as bit lists, for the closure checker (`[]` if the expansion raises) -/
def klocalBits (f : Fam) (n : Nat) : List Closure.V :=
  match klocal f n with
  | .ok l => l.map (·.bits)
  | .error _ => []

/-- `Classification.get_isomorphisms()` -/
def isomorphisms : List (String × String) :=
  [("2*so(2)", "2*su(2)"), ("so(3)", "su(2)"), ("so(4)", "2*su(2)")]

/-- (name-kind, parameter, multiplicity) — the shape of the regenerated table -/
def triple (s : Summand) : String × Nat × Nat := (s.ty.name, s.size, s.mult)

/-- dimension of the algebra a list of summands names -/
def dimOfName (l : List Summand) : Nat := (l.map Summand.dim).foldl (· + ·) 0

end TwoLocal
end PauLie
