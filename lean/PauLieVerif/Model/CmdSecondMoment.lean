/-
Command handlers for the quadratic symmetries and the second-moment twirl (C16).

  qbasis G   → the unnormalised basis `get_full_quadratic_basis()`: every symmetry as its
               term list sorted by string (syntax of `Model/CmdLinear.lean`), the symmetries
               sorted as texts and joined by `|`; `-` for the empty basis
  twirl G M  → `second_moment(M, G)` as a term list with exact coefficients (`-` = empty list)

`G` is a comma separated list of strings (padded by the collection constructor), `M` a
combination `a_b_d*STR,…` on `2n` qubits.
-/
import PauLieVerif.Model.Proto
import PauLieVerif.Model.CmdLinear
import PauLieVerif.Model.SecondMoment

namespace PauLie
namespace CmdSecondMoment
open Proto

def showBasis (b : List Lin) : String :=
  if b.isEmpty then "-"
  else
    let texts := b.map (fun q => CmdLinear.showLin (Lin.sortTerms q))
    String.intercalate "|" (texts.mergeSort (fun a b => decide (a ≤ b)))

def handle (line : String) : Option String :=
  match line.splitOn " " with
  | ["qbasis", gs] => do
    let gs ← psList? gs
    return showExcept showBasis (do SecondMoment.getFullQuadraticBasis (← Graph.collInit gs))
  | ["twirl", gs, m] => do
    let gs ← psList? gs
    let m ← CmdLinear.lin? m
    return showExcept CmdLinear.showLin (do SecondMoment.twirl m (← Graph.collInit gs))
  | _ => none

end CmdSecondMoment
end PauLie
