/-
Model of the quadratic-symmetry code (property C16):

  * `PauliStringCollection.get_symmetries_for_component`, `get_full_quadratic_basis`
    (`src/paulie/common/pauli_string_collection.py`),
  * `second_moment` (`src/paulie/application/second_moment.py`).

Import-free, executable; builds on `Model/Graph.lean` (`getCommutants`,
`getGraphComponents … commutator`) and `Model/Linear.lean` (`quadratic`, `@`, `.h`,
`trace`, `*`, `+=`, `simplify`, `is_zero`) with exact Gaussian-rational
coefficients `GR`.

**Order.**  The source takes the components from `networkx.connected_components`
(sets of names, turned into collections by iterating over a Python `set` of `str`,
i.e. in hash order); the model takes them from `Graph.components` (each component
sorted by text, components sorted by size).  Neither the order of the basis nor the
order of the terms inside a symmetry is part of the property; the protocol therefore
prints every symmetry as a term list sorted by string and the basis as the sorted
list of these texts, on both sides.

**The twirl in rational form.**  The source normalises first,
`Q_norm = Q * (1/sqrt(N))` with `N = Re tr(Q† Q)`, and then adds
`Q_norm * tr(Q_norm† M)` for every basis vector.  Because
`(Q/√N) · tr((Q/√N)† M) = Q · tr(Q† M) / N`
(the square root cancels — an algebraic identity over the reals), the model adds
`Q * (tr(Q† M) / N)`: this is exactly what the source computes up to floating-point
rounding, and it stays inside the Gaussian rationals.  The float realisation is
compared with the model's exact rationals at tolerance `1e-9` by the harness, never
textually.  The thresholds become exact comparisons:
  * `squared_norm_trace.real > 1e-12`  ↦  `N > 0`,
  * `abs(coeff) < 1e-12` (skip)        ↦  `tr(Q† M) = 0`
    (`coeff = tr(Q† M)/√N` vanishes exactly when `tr(Q† M)` does),
  * `is_zero()` as in `Model/Linear.lean`.
Errors are those of the source: `ValueError` from `@` when `M` does not live on `2n`
qubits, `PauliStringCollectionException` from `get_graph_components` on the empty
collection.
-/
import PauLieVerif.Model.Graph
import PauLieVerif.Model.Linear

namespace PauLie
namespace SecondMoment
open Graph

/-- `PauliStringLinear([(1.0, str(s)) for s in self])` -/
def componentAsLinear (comp : List PS) : Lin := Lin.mk (comp.map (fun s => (GR.one, s)))

/-- `get_symmetries_for_component(linear_symmetries)`: one `quadratic(L_j)` per
linear symmetry, in the order of `linear_symmetries`. -/
def getSymmetriesForComponent (comp : List PS) (linSyms : List PS) : Except Err (List Lin) :=
  linSyms.mapM (fun l => Lin.quadratic (componentAsLinear comp) l)

/-- `get_full_quadratic_basis(normalized=False)`: commutants, components of the
commutator graph, the symmetries of every component concatenated in component
order, zero vectors filtered out. -/
def getFullQuadraticBasis (gens : List PS) : Except Err (List Lin) := do
  let ls ← getCommutants gens
  let comps ← getGraphComponents gens true
  let qs ← comps.mapM (fun c => getSymmetriesForComponent c ls)
  return qs.flatten.filter (fun q => !Lin.isZero q)

/-- `(q_vector.h @ q_vector).trace()` -/
def sqNorm (q : Lin) : Except Err GR := do
  let p ← Lin.matmul (Lin.h q) q
  return Lin.trace p

/-- the normalisation loop of `get_full_quadratic_basis(normalized=True)`: keeps the
vectors with `Re tr(Q†Q) > 0`, remembering that number (the source divides by its
square root). -/
def normed : List Lin → Except Err (List (Lin × Rat))
  | [] => .ok []
  | q :: qs => do
    let t ← sqNorm q
    let rest ← normed qs
    return if t.re > 0 then (q, t.re) :: rest else rest

/-- one turn of the projection loop of `second_moment` in rational form:
`coeff = tr(Q† M)`; skipped when zero; otherwise `acc += Q * (coeff / N)`. -/
def twirlStep (m : Lin) (acc : Lin) (qN : Lin × Rat) : Except Err Lin := do
  let p ← Lin.matmul (Lin.h qN.1) m
  let c := Lin.trace p
  if c = GR.zero then return acc
  else return Lin.iadd acc (Lin.smul qN.1 (c * ⟨1 / qN.2, 0⟩))

def twirlLoop (m : Lin) : Lin → List (Lin × Rat) → Except Err Lin
  | acc, [] => .ok acc
  | acc, qN :: rest => do
    let acc' ← twirlStep m acc qN
    twirlLoop m acc' rest

/-- `second_moment(operator_m, system_generators)` -/
def twirl (m : Lin) (gens : List PS) : Except Err Lin := do
  let basis ← getFullQuadraticBasis gens
  let nb ← normed basis
  let start := Lin.mk [(GR.zero, PS.ident (Lin.getSize m))]
  let r ← twirlLoop m start nb
  return Lin.simplify r

end SecondMoment
end PauLie
