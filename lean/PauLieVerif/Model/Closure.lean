/-
Executable commutator closure of a list of Pauli strings (the Pauli basis of
the dynamical Lie algebra), used as the *verified checker* for C01, C02, C08,
C09, C11, C15, C19, C20.  The worklist only ever combines an element with a
*generator* (right-nested commutators); `Proofs/Closure.lean` proves that this
enumerates exactly the inductively defined closure.

Elements are handled as `bits` lists (`List Bool`) — the closure depends only
on `PS.bits`.
-/
import PauLieVerif.Model.PS

namespace PauLie
namespace Closure

abbrev V := List Bool

/-- symplectic form on interleaved bit lists: `true` iff the strings anticommute
(x part at even positions, z part at odd positions) -/
def omega : V → V → Bool
  | x1 :: z1 :: t1, x2 :: z2 :: t2 => ((x1 && z2) != (z1 && x2)) != omega t1 t2
  | _, _ => false

def add : V → V → V
  | a :: s, b :: t => (a != b) :: add s t
  | _, _ => []

/-- one expansion step: all new `x + g` with `g` a generator anticommuting with `x` -/
def expand (gens : List V) (x : V) : List V :=
  (gens.filter (fun g => omega x g)).map (fun g => add x g)

def insertNew (seen : List V) (cands : List V) : List V × List V :=
  cands.foldl (fun (acc : List V × List V) c =>
    if acc.1.contains c then acc else (c :: acc.1, c :: acc.2)) (seen, [])

/-- worklist closure with fuel; returns `(seen, exhausted)`; `exhausted = true`
means the frontier became empty (the result is closed). -/
def closeLoop (gens : List V) : Nat → List V → List V → List V × Bool
  | 0, seen, frontier => (seen, frontier.isEmpty)
  | fuel + 1, seen, frontier =>
    match frontier with
    | [] => (seen, true)
    | x :: rest =>
      let (seen', new) := insertNew seen (expand gens x)
      closeLoop gens fuel seen' (rest ++ new)

def dedup (l : List V) : List V :=
  l.foldl (fun acc x => if acc.contains x then acc else acc ++ [x]) []

/-- closure of `gens`; fuel `4^n + |gens|` always suffices (proved) -/
def closureList (gens : List V) : List V × Bool :=
  let g := dedup gens
  let n := match g with | [] => 0 | x :: _ => x.length / 2
  closeLoop g (4 ^ n + g.length + 1) g g

end Closure
end PauLie
