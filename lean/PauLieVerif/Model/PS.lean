/-
Model of `src/paulie/common/pauli_string_bitarray.py` (class `PauliString`).

Import-free, executable.  A Pauli string is modelled with *all three* bit
vectors the Python object keeps (`bits`, `bits_even`, `bits_odd`), because
property C18 is about their synchronisation; every operation reads the field
the Python code reads.  Python exceptions are `Except Err`.
-/
namespace PauLie

inductive Err where
  | valueError | indexError | zeroDivision | typeError | stopIteration
  | collectionError | morphError | classificationError | runtimeError | other
  deriving DecidableEq, Repr, Inhabited

def Err.toString : Err → String
  | .valueError => "ValueError"
  | .indexError => "IndexError"
  | .zeroDivision => "ZeroDivisionError"
  | .typeError => "TypeError"
  | .stopIteration => "StopIteration"
  | .collectionError => "PauliStringCollectionException"
  | .morphError => "MorphFactoryException"
  | .classificationError => "ClassificatonException"
  | .runtimeError => "RuntimeError"
  | .other => "Exception"

instance : ToString Err := ⟨Err.toString⟩

inductive Letter where
  | I | X | Y | Z
  deriving DecidableEq, Repr, Inhabited

/-- `CODEC` of the source: letter ↦ (even bit, odd bit) = (x part, z part). -/
def Letter.code : Letter → Bool × Bool
  | .I => (false, false)
  | .X => (true, false)
  | .Y => (true, true)
  | .Z => (false, true)

def Letter.ofCode : Bool → Bool → Letter
  | false, false => .I
  | true, false => .X
  | true, true => .Y
  | false, true => .Z

def Letter.toChar : Letter → Char
  | .I => 'I' | .X => 'X' | .Y => 'Y' | .Z => 'Z'

def Letter.ofChar? : Char → Option Letter
  | 'I' => some .I | 'X' => some .X | 'Y' => some .Y | 'Z' => some .Z
  | _ => none

/-- `l[::2]` -/
def evens : List Bool → List Bool
  | [] => []
  | [a] => [a]
  | a :: _ :: t => a :: evens t

/-- `l[1::2]` -/
def odds : List Bool → List Bool
  | [] => []
  | [_] => []
  | _ :: b :: t => b :: odds t

/-- `bits.encode(CODEC, letters)` -/
def encode : List Letter → List Bool
  | [] => []
  | l :: t => l.code.1 :: l.code.2 :: encode t

/-- `bits.decode(CODEC)`; an odd trailing bit cannot be decoded (Python raises
ValueError); the model returns the decodable prefix, the flag says whether all
bits were consumed. -/
def decode : List Bool → List Letter
  | a :: b :: t => Letter.ofCode a b :: decode t
  | _ => []

structure PS where
  bits : List Bool
  even : List Bool
  odd : List Bool
  deriving DecidableEq, Repr, Inhabited

namespace PS

/-- `PauliString(bits=b)`: copies the bits and derives both slices. -/
def ofBits (b : List Bool) : PS := ⟨b, evens b, odds b⟩

def ofLetters (w : List Letter) : PS := ofBits (encode w)

/-- `PauliString(n=n)`; `bitarray(2*n)` is zero-initialised, negative ⇒ ValueError. -/
def identity (n : Int) : Except Err PS :=
  if n < 0 then .error .valueError else .ok (ofBits (List.replicate (2 * n.toNat) false))

def ident (n : Nat) : PS := ofBits (List.replicate (2 * n) false)

/-- `len(self)` -/
def len (p : PS) : Nat := p.bits.length / 2

/-- `str(self)` -/
def letters (p : PS) : List Letter := decode p.bits

def toString (p : PS) : String := String.ofList (p.letters.map Letter.toChar)

instance : ToString PS := ⟨PS.toString⟩

/-- `count_and(a, b)`; unequal lengths raise ValueError in bitarray. -/
def countAnd (a b : List Bool) : Except Err Nat :=
  if a.length ≠ b.length then .error .valueError
  else .ok ((List.zipWith (· && ·) a b).count true)

def countOr (a b : List Bool) : Except Err Nat :=
  if a.length ≠ b.length then .error .valueError
  else .ok ((List.zipWith (· || ·) a b).count true)

/-- `a ^ b` on bitarrays; unequal lengths raise ValueError. -/
def xorBits (a b : List Bool) : Except Err (List Bool) :=
  if a.length ≠ b.length then .error .valueError
  else .ok (List.zipWith (fun x y => x != y) a b)

/-- The exponent `f % 4` of `sign`: the phase is `(-i)^k`. -/
def sign (p q : PS) : Except Err Nat := do
  if p.len ≠ q.len then throw .valueError
  let a ← countAnd p.even q.odd
  let b ← countAnd p.odd p.even
  let c ← countAnd q.odd q.even
  let xe ← xorBits p.even q.even
  let xo ← xorBits p.odd q.odd
  let d ← countAnd xe xo
  let f : Int := 2 * (a : Int) + b + c - d
  return (f % 4).toNat

/-- `complex_conj`: the sign exponent `ys` with result `(-1)^ys`. -/
def complexConj (p : PS) : Except Err Nat := do
  let ys ← countAnd p.odd p.even
  return ys % 2

def commutesWith (p q : PS) : Except Err Bool := do
  if p.len ≠ q.len then throw .valueError
  let a ← countAnd p.even q.odd
  let b ← countAnd q.even p.odd
  return a % 2 == b % 2

def multiply (p q : PS) : Except Err PS := do
  if p.bits.length ≠ q.bits.length then throw .valueError
  let x ← xorBits p.bits q.bits
  return ofBits x

def adjointMap (p q : PS) : Except Err (Option PS) := do
  if (← commutesWith p q) then return none
  if p.bits.length ≠ q.bits.length then throw .valueError
  let x ← xorBits p.bits q.bits
  return some (ofBits x)

/-- Python slice `l[a:b]` (step 1) with negative-index normalisation. -/
def pySlice {α} (l : List α) (a b : Int) : List α :=
  let n : Int := l.length
  let norm (i : Int) : Nat :=
    if i < 0 then (if i + n < 0 then 0 else (i + n).toNat)
    else (if i > n then l.length else i.toNat)
  let lo := norm a
  let hi := norm b
  (l.drop lo).take (hi - lo)

/-- `l[i]` with Python index semantics. -/
def pyIndex? {α} (l : List α) (i : Int) : Option Nat :=
  let n : Int := l.length
  if 0 ≤ i ∧ i < n then some i.toNat
  else if i < 0 ∧ -n ≤ i then some (i + n).toNat
  else none

def getSubstring (p : PS) (start : Int) (length : Int := 1) : PS :=
  ofBits (pySlice p.bits (2 * start) (2 * start + 2 * length))

/-- `l[i] = v` ; IndexError when out of range. -/
def pySet (l : List Bool) (i : Int) (v : Bool) : Except Err (List Bool) :=
  match pyIndex? l i with
  | some k => .ok (l.set k v)
  | none => .error .indexError

def getD (l : List Bool) (i : Nat) : Bool := l.getD i false

/-- One iteration `i` of the loop of `set_substring`: the four assignments in
source order.  On IndexError the state reached so far is returned together with
the error (Python leaves the object partially updated). -/
def setOne (s : PS) (start : Int) (q : PS) (i : Nat) : PS × Option Err :=
  match pySet s.bits (2 * start + 2 * i) (getD q.bits (2 * i)) with
  | .error e => (s, some e)
  | .ok b1 =>
    let s1 := { s with bits := b1 }
    match pySet s1.bits (2 * start + 2 * i + 1) (getD q.bits (2 * i + 1)) with
    | .error e => (s1, some e)
    | .ok b2 =>
      let s2 := { s1 with bits := b2 }
      match pySet s2.even (start + i) (getD q.even i) with
      | .error e => (s2, some e)
      | .ok e3 =>
        let s3 := { s2 with even := e3 }
        match pySet s3.odd (start + i) (getD q.odd i) with
        | .error e => (s3, some e)
        | .ok o4 => ({ s3 with odd := o4 }, none)

def setLoop (s : PS) (start : Int) (q : PS) : Nat → Nat → PS × Option Err
  | _, 0 => (s, none)
  | i, fuel + 1 =>
    match setOne s start q i with
    | (s', some e) => (s', some e)
    | (s', none) => setLoop s' start q (i + 1) fuel

/-- `set_substring(start, q)` for an already-built `q`. -/
def setSubstring (s : PS) (start : Int) (q : PS) : PS × Option Err :=
  setLoop s start q 0 q.len

def isIdentity (p : PS) : Bool := p.bits == List.replicate p.bits.length false

def tensor (p q : PS) : PS := ofBits (p.bits ++ q.bits)

/-- binary increment, most significant bit first; all ones wrap to all zeros -/
def incBits (b : List Bool) : List Bool :=
  let r := b.reverse
  let rec go : List Bool → List Bool
    | [] => []
    | false :: t => true :: t
    | true :: t => false :: go t
  (go r).reverse

def inc (p : PS) : PS := ofBits (incBits p.bits)

def expand (p : PS) (n : Int) : Except Err PS := do
  let pad ← identity (n - p.len)
  return tensor p pad

def copy (p : PS) : PS := ofBits p.bits

/-- `ba2int(bits)`: big-endian; empty ⇒ ValueError. -/
def bitsToNat (b : List Bool) : Nat := b.foldl (fun acc x => 2 * acc + (if x then 1 else 0)) 0

def getIndex (p : PS) : Except Err Nat :=
  if p.bits.isEmpty then .error .valueError else .ok (bitsToNat p.bits)

def getDiagonalIndex (p : PS) : Except Err Int :=
  if p.even.isEmpty ∨ p.odd.isEmpty then .error .valueError
  else if bitsToNat p.even == 0 then .ok (bitsToNat p.odd) else .ok (-1)

def countNonTrivially (p : PS) : Except Err Nat := countOr p.even p.odd

/-- lexicographic comparison of bitarrays (`<`) -/
def bitsLt : List Bool → List Bool → Bool
  | [], [] => false
  | [], _ :: _ => true
  | _ :: _, [] => false
  | a :: s, b :: t => if a == b then bitsLt s t else (!a && b)

def lt (p q : PS) : Bool := bitsLt p.bits q.bits
def le (p q : PS) : Bool := !(bitsLt q.bits p.bits)
/-- `__eq__` compares `bits` only -/
def beq (p q : PS) : Bool := p.bits == q.bits

/-- `gen_all_pauli_strings`: start from identity, `inc` until all-ones inclusive -/
def genAllFrom (cur : PS) (last : PS) : Nat → List PS
  | 0 => [cur.copy]
  | fuel + 1 => if cur.beq last then [cur.copy] else cur.copy :: genAllFrom cur.inc last fuel

def genAll (n : Nat) : List PS :=
  genAllFrom (ident n) (ofBits (List.replicate (2 * n) true)) (4 ^ n)

/-- The synchronisation invariant of the three views (property C18). -/
def WF (p : PS) : Prop :=
  p.even = evens p.bits ∧ p.odd = odds p.bits ∧ p.bits.length % 2 = 0

instance (p : PS) : Decidable p.WF := by unfold WF; exact inferInstance

end PS

/-- Parse a plain dense text (only I/X/Y/Z) -/
def lettersOfString? (s : String) : Option (List Letter) :=
  s.toList.mapM Letter.ofChar?

end PauLie
