/-
Protocol command for edit/query histories of a collection (property C10):

  hist <G> <op>;<op>;…       ops (fields separated by ':')
     app:P  ins:i:P  rem:P  del:i  rep:P:Q  con:P:Q  exp:n  sort  copy  ccopy  swap (back to the original of the last copy)
     q.str q.len q.getlen q.alg q.dim q.deps q.indeps q.verts q.morphs q.gen
     q.isin:X,Y  q.seldep:X,Y  q.space  q.pair  q.sub  q.find:P  q.index:P
     q.graph q.compsA q.commutants q.cgraph q.pairs        (graph queries, property C14)

One reply field per op, joined by '|': an edit answers `ok=<generators>` or
`!Err=<generators>`; a query its canonical answer.
-/
import PauLieVerif.Model.Proto
import PauLieVerif.Model.Collection
import PauLieVerif.Model.CmdClassify
import PauLieVerif.Model.CmdGraph

namespace PauLie
namespace CmdCollection
open Proto Classify Collection CmdClassify

abbrev Q := Query Cls String

def showGens (g : List PS) : String := showPSList g

def pyStr (g : List PS) : String := "[" ++ String.intercalate ", " (g.map PS.toString) ++ "]"

def qOfText (t : List String) : Option Q :=
  match t with
  | ["q.str"] => some (.plain pyStr)
  | ["q.len"] => some (.plain (fun g => toString g.length))
  | ["q.getlen"] => some (.plain (fun g => match g with | [] => "0" | x :: _ => toString x.len))
  | ["q.pair"] => some (.plain (fun g => showExcept toString (Graph.anticommutationPair g)))
  | ["q.sub"] => some (.plain (fun g => showExcept CmdGraph.showComps (Graph.getSubgraphs g)))
  | ["q.graph"] => some (.plain (fun g => showExcept (fun (r : List PS × List (PS × PS × PS)) =>
      s!"V={showPSList r.1}#E={CmdGraph.joinOr (r.2.map CmdGraph.showEdge3)}") (Graph.getGraph g [])))
  | ["q.compsA"] => some (.plain (fun g => showExcept CmdGraph.showComps (Graph.getGraphComponents g false)))
  | ["q.commutants"] => some (.plain (fun g => showExcept showPSList (Graph.getCommutants g)))
  | ["q.cgraph"] => some (.plain (fun g => showExcept (fun (r : List PS × List (PS × PS)) =>
      s!"V={showPSList r.1}#E={CmdGraph.joinOr (r.2.map CmdGraph.showEdge2)}") (Graph.getCommutatorGraph g)))
  | ["q.pairs"] => some (.plain (fun g =>
      let ap := showExcept toString (Graph.anticommutationPair g)
      let fr := showExcept (fun (r : Nat × Nat) => s!"{r.1}/{r.2}") (Graph.anticommutationFraction g)
      s!"anti={ap}#pair={Graph.getPair g}#frac={fr}"))
  | ["q.find", p] => do
    let p ← ps? p
    some (.plain (fun g => match findIdx g p with | some i => toString i | none => "-1"))
  | ["q.index", p] => do
    let p ← ps? p
    some (.plain (fun g => match findIdx g p with | some i => toString i | none => "!ValueError"))
  | ["q.alg"] => some (.classified (fun _ => none) (fun c _ => showExcept showAlgebra (algebraOfMorphs c)))
  | ["q.dim"] => some (.classified (fun _ => none) (fun c _ => showExcept toString (dlaDimOfMorphs c)))
  | ["q.deps"] => some (.classified (fun _ => none) (fun c _ => showSortedPS (dependentsOf c)))
  | ["q.indeps"] => some (.classified (fun _ => none) (fun c g =>
      showPSList (g.filter (fun v => !Graph.containsPS (dependentsOf c) v))))
  | ["q.verts"] => some (.classified (fun _ => none) (fun c _ => showSortedPS (verticesOf c)))
  | ["q.morphs"] => some (.classified (fun _ => none) (fun c _ => showMorphs c))
  -- `gen_generators()` advanced a few steps: a read-only call (it classifies, compares algebra names, yields other generator
  -- sets); only that it answers, and with which exception if the name cannot be formed, is part of the protocol
  | ["q.gen"] => some (.classified (fun _ => none) (fun c _ => showExcept (fun _ => "advanced") (algebraOfMorphs c)))
  | ["q.isin", xs] => do
    let xs ← psList? xs
    some (.classified (fun g => if g.isEmpty then some "F" else none) (fun c g =>
      showExcept showBool (do isIn g.length c (← Graph.collInit xs))))
  | ["q.seldep", xs] => do
    let xs ← psList? xs
    some (.classified (fun g => if g.isEmpty then some "None" else none) (fun c g =>
      showExcept (showOpt showSortedPS) (do selectDependents g.length c (← Graph.collInit xs))))
  | ["q.space"] =>
    some (.classified (fun g => if g.isEmpty then some "None" else none) (fun c g =>
      showExcept (showOpt showSortedPS) (getSpace g c)))
  | _ => none

def opOfText (t : List String) : Option Op :=
  match t with
  | ["app", p] => do some (.append (← ps? p))
  | ["ins", i, p] => do some (.insert (← int? i) (← ps? p))
  | ["rem", p] => do some (.remove (← ps? p))
  | ["del", i] => do some (.delitem (← int? i))
  | ["rep", p, q] => do some (.replace (← ps? p) (← ps? q))
  | ["con", p, q] => do some (.contract (← ps? p) (← ps? q))
  | ["exp", n] => do some (.expand (← int? n))
  | ["sort"] => some .sort
  | ["copy"] => some .copy
  | ["ccopy"] => some .copy          -- `copy.copy(c)` → `__copy__`, the same constructor call
  | _ => none

def runOne (s : Coll Cls) (txt : String) : Option (Coll Cls × String) :=
  let t := txt.splitOn ":"
  match opOfText t with
  | some op =>
    let (s', err) := step s op
    some (s', (match err with | none => "ok" | some e => s!"!{e}") ++ "=" ++ showGens s'.gens)
  | none =>
    match qOfText t with
    | some q =>
      let (s', r) := ask Kmodel s q
      some (s', match r with | .ok a => a | .error e => s!"!{e}")
    | none => none

def handle (line : String) : Option String :=
  match line.splitOn " " with
  | ["hist", gs, ops] => do
    let gs ← psList? gs
    match Graph.collInit gs with
    | .error e => return s!"!{e}"
    | .ok g =>
      let mut s : Coll Cls := fresh g
      -- the collections a copy was taken from (most recent first); `swap` goes back to the most recent one
      let mut others : List (Coll Cls) := []
      let mut out : List String := []
      for o in (if ops == "-" then [] else ops.splitOn ";") do
        if o == "swap" then
          match others with
          | [] => out := out ++ ["ok=" ++ showGens s.gens]
          | x :: rest =>
            others := s :: rest
            s := x
            out := out ++ ["ok=" ++ showGens s.gens]
        else
          if o == "copy" || o == "ccopy" then others := s :: others
          let (s', r) ← runOne s o
          s := s'
          out := out ++ [r]
      return String.intercalate "\t" out
  | _ => none

end CmdCollection
end PauLie
