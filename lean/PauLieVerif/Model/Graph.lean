/-
Model of `common/get_graph.py`, `common/pauli_string_factory.py` (k-local
expansion) and of the graph / commutant queries of
`common/pauli_string_collection.py` (C14, C17 k-local part).

Unordered Python containers (networkx components are `set`s of names) are
modelled as lists sorted by printed text; the harness canonicalises the
implementation's output the same way.
-/
import PauLieVerif.Model.PS

namespace PauLie
namespace Graph

/-- `PauliStringCollection.__init__`: pad every string to the longest -/
def collInit (gens : List PS) : Except Err (List PS) :=
  if gens.isEmpty then .ok []
  else
    let longest := gens.foldl (fun m g => max m g.len) 0
    gens.mapM (fun g => if g.len < longest then g.expand longest else .ok g)

def containsPS (l : List PS) (p : PS) : Bool := l.any (fun q => q.beq p)

/-- `gen_k_local(n, p, used)`; returns the yielded strings and the new `used` -/
def genKLocal (n : Nat) (p : PS) (used : List PS) : Except Err (List PS × List PS) :=
  if n < p.len then .error .valueError
  else
    let np := n - p.len
    let step := fun (acc : List PS × List PS) (k : Nat) =>
      let left := (PS.ident k).tensor (p.tensor (PS.ident (np - k)))
      if containsPS acc.2 left then acc else (acc.1 ++ [left], acc.2 ++ [left])
    .ok ((List.range (np + 1)).foldl step ([], used))

/-- `gen_k_local_generators(n, generators)` for `PauliString` members
(`max` of an empty sequence raises ValueError) -/
def genKLocalGenerators (n : Nat) (gens : List PS) : Except Err (List PS) := do
  if gens.isEmpty then throw .valueError
  let mut out : List PS := []
  let mut used : List PS := []
  for g in gens do
    let (ys, u) ← genKLocal n g used
    out := out ++ ys
    used := u
  return out

/-- `get_pauli_string(list_of_texts, n)` -/
def getPauliStringList (gens : List PS) (n : Option Nat) : Except Err (List PS) := do
  let c ← collInit gens
  match n with
  | none => return c
  | some n =>
    let k ← genKLocalGenerators n c
    collInit k

/-- ordered pairs `combinations(l, 2)` -/
def combinations2 {α} : List α → List (α × α)
  | [] => []
  | a :: t => t.map (fun b => (a, b)) ++ combinations2 t

/-- `get_graph(generators, commutators, flag_labels)`: vertices (names, with
duplicates as given), edges in `combinations` order, labels -/
def getGraph (gens : List PS) (commutators : List PS) :
    Except Err (List PS × List (PS × PS × PS)) := do
  let mut edges : List (PS × PS × PS) := []
  for (a, b) in combinations2 gens do
    match ← a.adjointMap b with
    | none => pure ()
    | some c =>
      -- `if c and (...)`: truthiness of a PauliString is `len(c) > 0`
      if c.len > 0 ∧ (commutators.isEmpty ∨ containsPS commutators c) then
        edges := edges ++ [(a, b, c)]
  return (gens, edges)

def strLe (a b : PS) : Bool := a.toString ≤ b.toString

def dedupPS (l : List PS) : List PS :=
  l.foldl (fun acc x => if containsPS acc x then acc else acc ++ [x]) []

/-- connected components of the graph on distinct names; each component
sorted by text, components sorted by (size descending, then first member) -/
def components (verts : List PS) (edges : List (PS × PS)) : List (List PS) :=
  let vs := dedupPS verts
  let adj := fun (v : PS) =>
    (edges.filterMap (fun (a, b) => if a.beq v then some b else if b.beq v then some a else none))
  let rec grow (fuel : Nat) (comp frontier : List PS) : List PS :=
    match fuel with
    | 0 => comp
    | fuel + 1 =>
      match frontier with
      | [] => comp
      | x :: rest =>
        let new := dedupPS ((adj x).filter (fun y => !containsPS comp y))
        grow fuel (comp ++ new) (rest ++ new)
  let comps := vs.foldl (fun (acc : List (List PS)) v =>
    if acc.any (fun c => containsPS c v) then acc
    else acc ++ [grow (vs.length + 1) [v] [v]]) []
  let sorted := comps.map (fun c => c.mergeSort strLe)
  sorted.mergeSort (fun a b =>
    decide (a.length > b.length) || (a.length == b.length &&
      (match a, b with | x :: _, y :: _ => strLe x y | _, _ => true)))

/-- `get_subgraphs()` -/
def getSubgraphs (gens : List PS) : Except Err (List (List PS)) := do
  let (vs, es) ← getGraph gens []
  return components vs (es.map (fun (a, b, _) => (a, b)))

/-- `get_commutants()` of a collection -/
def getCommutants (gens : List PS) : Except Err (List PS) := do
  match gens with
  | [] => return []
  | g0 :: _ =>
    let mut cands := PS.genAll g0.len
    for g in gens do
      cands ← cands.filterM (fun p => g.commutesWith p)
    return cands

/-- `get_commutator_graph()`: all 4^n strings, edge (a,b) in index order when
they anticommute and the product is a member -/
def getCommutatorGraph (gens : List PS) : Except Err (List PS × List (PS × PS)) := do
  let n := match gens with | [] => 0 | g :: _ => g.len
  let all ← (PS.genAll n).filterM (fun g => (PS.ident n).commutesWith g)
  let (vs, es) ← getGraph all gens
  return (vs, es.map (fun (a, b, _) => (a, b)))

/-- `get_graph_components(graph_type)`.  NOTE: for 'anticommutator' the source
calls `self.get_graph(self)`, i.e. keeps only edges whose product is itself a
member of the collection. -/
def getGraphComponents (gens : List PS) (commutator : Bool) : Except Err (List (List PS)) := do
  if commutator then
    let (vs, es) ← getCommutatorGraph gens
    let cs := components vs es
    -- `_convert` calls `create_instance`, which raises on an empty collection
    if gens.isEmpty ∧ ¬ cs.isEmpty then throw .collectionError
    return cs
  else
    let (vs, es) ← getGraph gens gens
    return components vs (es.map (fun (a, b, _) => (a, b)))

def anticommutationPair (gens : List PS) : Except Err Nat := do
  let mut c := 0
  for (x, y) in combinations2 gens do
    if !(← x.commutesWith y) then c := c + 1
  return c

def getPair (gens : List PS) : Nat := gens.length * (gens.length - 1) / 2

/-- `get_anticommutation_fraction()` as an exact fraction (num, den); `pair = 0`
raises ZeroDivisionError -/
def anticommutationFraction (gens : List PS) : Except Err (Nat × Nat) := do
  let mut c := 0
  let mut pair := 0
  for (x, y) in combinations2 gens do
    pair := pair + 1
    if !(← x.commutesWith y) then c := c + 1
  if pair == 0 then throw .zeroDivision
  return (c, pair)

end Graph
end PauLie
