/-
Protocol commands for the Pauli decomposition (C13).

  number   : `p` or `p/q` (integers, q > 0); printed in lowest terms
  entry    : `re:im`
  data     : comma separated entries, `-` for none
  shape    : `x` separated naturals (`2x2`, `4`), `-` for a 0-dimensional array

  decomp SHAPE DATA          matrix_decomposition
  decompd SHAPE DATA         matrix_decomposition_diagonal
  weight P DATA              P.get_weight_in_matrix(vector)
  dlook PS,… SHAPE DATA      matrix_decomposition, then every P looks its weight up
  dlookd PS,… SHAPE DATA     the same through matrix_decomposition_diagonal
  pweights N IP              get_pauli_weights(N, IP)
  infl SHAPE DATA W,…        average_pauli_weight (exact value of the sum)
  probs SHAPE DATA           |c_P|^2 of the decomposition (exact)

Any token `layout=…` is an attribute of the *implementation-side* ndarray (memory order,
strides, writeability, byte order of the same logical matrix); the model sees the
logical matrix and ignores such tokens.
-/
import PauLieVerif.Model.Proto
import PauLieVerif.Model.Decomp

namespace PauLie
namespace CmdDecomp
open Proto Decomp

def rat? (s : String) : Option Rat :=
  match s.splitOn "/" with
  | [p] => do
    let p ← p.toInt?
    return (p : Rat)
  | [p, q] => do
    let p ← p.toInt?
    let q ← q.toNat?
    if q = 0 then none else return mkRat p q
  | _ => none

def gr? (s : String) : Option GR :=
  match s.splitOn ":" with
  | [a, b] => do
    let a ← rat? a
    let b ← rat? b
    return ⟨a, b⟩
  | _ => none

def data? (s : String) : Option (List GR) :=
  if s == "-" then some [] else (s.splitOn ",").mapM gr?

def shape? (s : String) : Option (List Nat) :=
  if s == "-" then some [] else (s.splitOn "x").mapM String.toNat?

def ints? (s : String) : Option (List Int) :=
  if s == "-" then some [] else (s.splitOn ",").mapM String.toInt?

def arr? (sh dt : String) : Option NDArray := do
  let sh ← shape? sh
  let dt ← data? dt
  if sh.foldl (· * ·) 1 ≠ dt.length then none else return ⟨sh, dt⟩

def showRat (r : Rat) : String :=
  if r.den = 1 then s!"{r.num}" else s!"{r.num}/{r.den}"

def showGR (g : GR) : String := s!"{showRat g.re}:{showRat g.im}"

def showList {α} (f : α → String) (l : List α) : String :=
  if l.isEmpty then "-" else String.intercalate "," (l.map f)

def lookAll (ps : List PS) (r : Except Err (List GR)) : String :=
  match r with
  | .error e => s!"!{e}"
  | .ok w => showList (fun p => showExcept showGR (getWeightInMatrix p w)) ps

def handle (line : String) : Option String :=
  match (line.splitOn " ").filter (fun t => !t.startsWith "layout=") with
  | ["decomp", sh, dt] => do
    let a ← arr? sh dt
    return showExcept (showList showGR) (matrixDecomposition a)
  | ["decompd", sh, dt] => do
    let a ← arr? sh dt
    return showExcept (showList showGR) (matrixDecompositionDiagonal a)
  | ["weight", p, dt] => do
    let p ← ps? p
    let b ← data? dt
    return showExcept showGR (getWeightInMatrix p b)
  | ["dlook", ps, sh, dt] => do
    let ps ← psList? ps
    let a ← arr? sh dt
    return lookAll ps (matrixDecomposition a)
  | ["dlookd", ps, sh, dt] => do
    let ps ← psList? ps
    let a ← arr? sh dt
    return lookAll ps (matrixDecompositionDiagonal a)
  | ["pweights", n, ip] => do
    let n ← n.toInt?
    let ip ← ip.toInt?
    return showExcept (showList toString) (getPauliWeights n ip)
  | ["infl", sh, dt, ws] => do
    let a ← arr? sh dt
    let ws ← ints? ws
    return showExcept showRat (averagePauliWeight a ws)
  | ["probs", sh, dt] => do
    let a ← arr? sh dt
    return showExcept (fun c => showList showRat (probs c)) (matrixDecomposition a)
  | _ => none

end CmdDecomp
end PauLie
