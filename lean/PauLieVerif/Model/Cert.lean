/-
A per-input CERTIFICATE for "reported dimension = number of Pauli strings in the commutator closure"
(property C09, first clause; dimension clause of C01), executable at ANY number of qubits.

`certOf G` runs the GUARDED reduction (`MorphG.buildG`) on every connected component of `G`
(`Graph.getSubgraphs`) and accepts the component when

  * the run raised nothing, every local certificate check of the run succeeded (`guardsOk`), the run
    was complete (fuel) and no generator was given up (`unappended = []`), and
  * the canonical legs are literally of one of the five leg profiles for which the classifier
    (`Classify.getProperties` / `multiplicity`) reports without error, and the canonical vertices pass
    the executable family check of that profile (lengths, anticommutation pattern of the star,
    linear independence over F2):

      point   `[[v]]`                                                   → u(1)
      A       centre, k ≥ 1 single legs, optional long leg (length ≠ 1)  → 2^(k-1)·so(r+3)     (`typeAB`)
      B1      centre, k ≥ 1 single legs, t ≥ 2 legs of length two        → 2^(k-1)·sp(2^t)     (`typeB1B`)
      B3      … t ≥ 1 legs of length two, long leg of length 3           → 2^(k-1)·su(2^(t+2)) (`realisesB … canon3`)
      B2      … t ≥ 1 legs of length two, long leg of length 4           → 2^(k-1)·so(2^(t+3)) (`realisesB … canon4`)

For A and B3 the vertices may instead have exactly ONE linear dependency (`su(2^n)` on `n` qubits has `2n + 1` canonical
vertices): cases `A/dep`, `B3/dep`, see `depCore` below.

Everything else is DECLINED with a reason (never an error): the certificate claims nothing then.
`Properties/C09Cert.lean` proves: `certDim G = true` implies that `classify G` answers and that
`get_dla_dim()` of the answer is exactly `(closureList (bits of G)).1.length`, the number of Pauli
strings in the commutator closure.

The family checks are transcribed from `Proofs/C01TypeAList.lean` (`typeAB`), `Proofs/C01SpanGauss.lean`
(`indepB`), `Proofs/C01TypeBTransfer.lean` (`samePatB`), `Proofs/C01TypeB{Canon,Twins,TwinGen,Leaf,LeafCount}.lean`
(the canonical realisations) because files under `Model/` are compiled into the driver and must not
import proof modules; `Proofs/C09CertEq.lean` proves each copy equal to its original.
-/
import PauLieVerif.Model.Classify
import PauLieVerif.Model.MorphG

namespace PauLie
namespace Cert
open Closure Classify

def bitsOf (l : List PS) : List V := l.map (·.bits)

/-! ### the executable family checks (copies, proved equal to the originals) -/

def zeroV (m : Nat) : V := List.replicate m false

def nth (L : Nat) (vs : List V) (i : Nat) : V := vs.getD i (zeroV L)

def adj (i j : Nat) : Bool := decide (i + 1 = j ∨ j + 1 = i)

/-- no member is a sum of later members -/
def indepB : List V → Bool
  | [] => true
  | v :: vs => !Morph.inSpan vs v && indepB vs

/-- type A: path `l1, c, ps`, further single legs `ls'` -/
def typeAB (L : Nat) (c l1 : V) (ls' ps : List V) : Bool :=
  let vs := l1 :: c :: ps
  (vs ++ ls').all (fun x => x.length == L)
  && (List.range vs.length).all (fun i => (List.range vs.length).all (fun j =>
        omega (nth L vs i) (nth L vs j) == adj i j))
  && ls'.all (fun e => omega c e && !omega l1 e && ps.all (fun p => !omega p e) && ls'.all (fun e' => !omega e e'))
  && indepB (vs ++ ls')

def patRow (x y : V) : List V → List V → Bool
  | [], [] => true
  | v :: vs, w :: ws => (omega x v == omega y w) && patRow x y vs ws
  | _, _ => false

def samePat : List V → List V → List V → List V → Bool
  | [], [], _, _ => true
  | v :: vs, w :: ws, vs', ws' => patRow v w vs' ws' && samePat vs ws vs' ws'
  | _, _, _, _ => false

/-- the two families have the same anticommutation pattern -/
def samePatB (vs ws : List V) : Bool := samePat vs ws vs ws

def pad (y : V) : V := false :: false :: y

def padN : Nat → V → V
  | 0, y => y
  | j + 1, y => pad (padN j y)

def aT : Nat → V
  | 0 => [true, false]
  | t + 1 => pad (aT t)

def cT : Nat → V
  | 0 => [false, true]
  | t + 1 => pad (cT t)

def pairsB : Nat → List V
  | 0 => []
  | t + 1 => (false :: true :: aT t) :: (true :: false :: zeroV (2 * (t + 1))) :: (pairsB t).map pad

def twinsK : Nat → Nat → List V
  | 0, _ => []
  | j + 1, t => (false :: true :: padN j (aT t)) :: (twinsK j t).map pad

def restK (j t : Nat) : List V := twinsK j t ++ (pairsB t).map (padN j)

/-- canonical realisation of B1: centre, `j + 1` single legs, `t` legs of length two -/
def canonK (j t : Nat) : List V := padN j (cT t) :: padN j (aT t) :: restK j t

def twinRest : Nat → V → List V → List V
  | 0, _, rest => rest
  | j + 1, a, rest => (false :: true :: padN j a) :: (twinRest j a rest).map pad

def uT (t : Nat) : V := false :: true :: zeroV (2 * (t + 1))

def rest3 (t : Nat) : List V :=
  ((pairsB t).map pad ++ [false :: true :: aT t, true :: false :: zeroV (2 * (t + 1))]).map pad ++ [false :: true :: uT t]

def rest4 (t : Nat) : List V :=
  ((pairsB (t + 1)).map pad ++ [false :: true :: aT (t + 1), true :: false :: zeroV (2 * (t + 2))]).map pad ++
    [false :: true :: uT (t + 1), true :: false :: zeroV (2 * (t + 3))]

/-- canonical realisation of B3: centre, `j + 1` single legs, `t` legs of length two, long leg of three -/
def canon3 (j t : Nat) : List V :=
  padN j (pad (pad (cT t))) :: padN j (pad (pad (aT t))) :: twinRest j (pad (pad (aT t))) (rest3 t)

/-- canonical realisation of B2: centre, `j + 1` single legs, `t + 1` legs of length two, long leg of four -/
def canon4 (j t : Nat) : List V :=
  padN j (pad (pad (cT (t + 1)))) :: padN j (pad (pad (aT (t + 1)))) :: twinRest j (pad (pad (aT (t + 1)))) (rest4 t)

def typeB1B (L : Nat) (vs : List V) (j t : Nat) : Bool :=
  vs.all (fun v => v.length == L) && samePatB vs (canonK j t) && indepB vs

def realisesB (L : Nat) (vs canon : List V) : Bool :=
  vs.all (fun v => v.length == L) && samePatB vs canon && indepB vs

/-! ### leg profiles -/

def typeALegs (c : PS) (ls ps : List PS) : List (List PS) :=
  [c] :: (ls.map (fun l => [l]) ++ (if ps.isEmpty then [] else [ps]))

def typeB1Legs (c : PS) (singles : List PS) (twos : List (List PS)) : List (List PS) :=
  [c] :: (singles.map (fun l => [l]) ++ (twos ++ []))

def typeBLongLegs (c : PS) (singles : List PS) (twos : List (List PS)) (long : List PS) : List (List PS) :=
  [c] :: (singles.map (fun l => [l]) ++ (twos ++ [long]))

/-- type A: the legs are literally centre, single legs, optional long leg, and the vertices pass `typeAB` -/
def certA (L : Nat) (legs : List (List PS)) (c : PS) (singles ps : List PS) : Bool :=
  match singles with
  | [] => false
  | l1 :: ls' =>
    decide (legs = typeALegs c (l1 :: ls') ps) && (ps.length != 1)
      && typeAB L c.bits l1.bits (bitsOf ls') (bitsOf ps)

def certB1 (L : Nat) (legs : List (List PS)) (c : PS) (singles : List PS) (twos : List (List PS)) : Bool :=
  match singles with
  | [] => false
  | _ :: ls' =>
    decide (legs = typeB1Legs c singles twos) && twos.all (fun l => l.length == 2) && decide (twos.length ≥ 2)
      && typeB1B L (bitsOf legs.flatten) ls'.length twos.length

def certB3 (L : Nat) (legs : List (List PS)) (c : PS) (singles : List PS) (twos : List (List PS))
    (long : List PS) : Bool :=
  match singles with
  | [] => false
  | _ :: ls' =>
    decide (legs = typeBLongLegs c singles twos long) && twos.all (fun l => l.length == 2)
      && decide (twos.length ≥ 1) && (long.length == 3)
      && realisesB L (bitsOf legs.flatten) (canon3 ls'.length twos.length)

def certB2 (L : Nat) (legs : List (List PS)) (c : PS) (singles : List PS) (twos : List (List PS))
    (long : List PS) : Bool :=
  match singles, twos with
  | _ :: ls', _ :: twos' =>
    decide (legs = typeBLongLegs c singles twos long) && twos.all (fun l => l.length == 2)
      && (long.length == 4)
      && realisesB L (bitsOf legs.flatten) (canon4 ls'.length twos'.length)
  | _, _ => false

/-! ### canonical vertices with ONE linear dependency

`su(2^n)` on `n` qubits is a B3 star with `2n + 1` vertices, `so(2m)` on `m - 1` qubits a type-A star whose
path has an odd number of vertices: the canonical vertices cannot be independent.  The certificate then checks
(`depCore`) that the vertices are `init ++ [w]` with `init` independent and `w = Σ_k init` for an explicit
selection `k` (found by an untrusted elimination `solve`, checked), that the LIFTED family `ws` (one more qubit
in front: `I` on every vertex but `Z` on `w`) is independent with the same anticommutation pattern, and that the
quadratic form `q` (`q(vertex) = 1`, polar form "anticommute") is `1` on the dependency `k ++ [true]`.  Then the
closures of `init ++ [w]` and of `ws` have the same number of elements (`Proofs/C09CertKer.lean`), and `ws`
is an independent realisation to which the family theorem applies. -/

def msum (m : Nat) : List Bool → List V → V
  | true :: b, v :: vs => add v (msum m b vs)
  | false :: b, _ :: vs => msum m b vs
  | [], _ => zeroV m
  | _ :: _, [] => zeroV m

/-- the quadratic form with value `1` on every member and polar form `omega`, on selections -/
def qmask (m : Nat) : List Bool → List V → Bool
  | true :: b, v :: vs => (!omega v (msum m b vs)) != qmask m b vs
  | false :: b, _ :: vs => qmask m b vs
  | [], _ => false
  | _ :: _, [] => false

def redPair (basis : List (V × List Bool)) (x : V × List Bool) : V × List Bool :=
  basis.foldl (fun x b =>
    match Morph.leadIdx b.1 with
    | some i => if x.1.getD i false then (Morph.xorB x.1 b.1, Morph.xorB x.2 b.2) else x
    | none => x) x

/-- a selection `k` of `vs` with sum `x`, if the elimination finds one (untrusted: the result is checked) -/
def solve (vs : List V) (x : V) : Option (List Bool) :=
  let k := vs.length
  let basis := vs.zipIdx.foldl (fun (basis : List (V × List Bool)) (vi : V × Nat) =>
    let r := redPair basis (vi.1, (List.range k).map (fun j => j == vi.2))
    if r.1.all (fun b => !b) then basis else basis ++ [r]) []
  let r := redPair basis (x, List.replicate k false)
  if r.1.all (fun b => !b) then some r.2 else none

/-- the lifted family: a new qubit in front, `I` on `init`, `Z` on `w` -/
def liftLast (init : List V) (w : V) : List V := init.map pad ++ [false :: true :: w]

def depCore (L : Nat) (init : List V) (w : V) : Bool :=
  (init ++ [w]).all (fun v => v.length == L) && indepB init
    && samePatB (init ++ [w]) (liftLast init w) && indepB (liftLast init w)
    && (match solve init w with
        | none => false
        | some k => (k.length == init.length) && decide (msum L k init = w)
            && qmask (L + 2) (k ++ [true]) (liftLast init w))

/-- type A with one dependency among the vertices (the last vertex of the long leg depends on the others) -/
def certAdep (L : Nat) (legs : List (List PS)) (c : PS) (singles ps : List PS) : Bool :=
  match singles with
  | [] => false
  | l1 :: ls' =>
    let vs := bitsOf legs.flatten
    match vs.getLast?, (bitsOf ps).getLast? with
    | some w, some w' =>
      let init := vs.dropLast
      let ps' := liftLast (bitsOf ps).dropLast w'
      decide (legs = typeALegs c (l1 :: ls') ps) && (ps.length != 1) && decide (vs = init ++ [w])
        && decide (liftLast init w = pad c.bits :: (pad l1.bits :: (bitsOf ls').map pad) ++ ps')
        && decide (ps'.length = ps.length)
        && typeAB (L + 2) (pad c.bits) (pad l1.bits) ((bitsOf ls').map pad) ps'
        && depCore L init w
    | _, _ => false

/-- type B3 with one dependency among the vertices -/
def certB3dep (L : Nat) (legs : List (List PS)) (c : PS) (singles : List PS) (twos : List (List PS))
    (long : List PS) : Bool :=
  match singles with
  | [] => false
  | _ :: ls' =>
    let vs := bitsOf legs.flatten
    match vs.getLast? with
    | some w =>
      let init := vs.dropLast
      decide (legs = typeBLongLegs c singles twos long) && twos.all (fun l => l.length == 2)
        && decide (twos.length ≥ 1) && (long.length == 3) && decide (vs = init ++ [w])
        && realisesB (L + 2) (liftLast init w) (canon3 ls'.length twos.length)
        && depCore L init w
    | none => false

inductive Verdict where
  | ok (case : String)
  | declined (reason : String)
  deriving Repr, Inhabited

def Verdict.isOk : Verdict → Bool
  | .ok _ => true
  | .declined _ => false

def verdictIf (b : Bool) (case reason : String) : Verdict := if b then .ok case else .declined reason

/-- the certificate on the canonical legs of one component; `L` = number of bits of a string -/
def certLegs (L : Nat) (legs : List (List PS)) : Verdict :=
  match legs with
  | [] => .declined "no-legs"
  | [c] :: rest =>
    match rest with
    | [] => verdictIf (c.bits.length == L) "point" "length"
    | _ :: _ =>
      let singles := (rest.takeWhile (fun l => l.length == 1)).flatten
      let r1 := rest.dropWhile (fun l => l.length == 1)
      let twos := r1.takeWhile (fun l => l.length == 2)
      let tail := r1.dropWhile (fun l => l.length == 2)
      match twos, tail with
      | [], [] => verdictIf (certA L legs c singles []) "A" "A-check"
      | [p], [] => verdictIf (certA L legs c singles p) "A" "A-check"
      | [], [ps] =>
        if certA L legs c singles ps then .ok "A"
        else verdictIf (certAdep L legs c singles ps) "A/dep" "A-check"
      | _ :: _ :: _, [] => verdictIf (certB1 L legs c singles twos) "B1" "B1-check"
      | _ :: _, [long] =>
        if long.length == 3 then
          if certB3 L legs c singles twos long then .ok "B3"
          else verdictIf (certB3dep L legs c singles twos long) "B3/dep" "B3-check"
        else if long.length == 4 then verdictIf (certB2 L legs c singles twos long) "B2" "B2-check"
        else .declined "long-leg-beside-legs-of-two"
      | _, _ => .declined "leg-profile"
  | _ => .declined "centre-leg"

/-- the certificate of one connected component `sub` of strings on `n` qubits -/
def certComp (n : Nat) (sub : List PS) : Verdict :=
  match MorphG.buildG sub with
  | .error _ => .declined "reduction-raised"
  | .ok rg =>
    if !rg.guardsOk then .declined ("guard:" ++ rg.why)
    else if !rg.res.complete then .declined "incomplete"
    else if !rg.res.unappended.isEmpty then .declined "generator-given-up"
    else certLegs (2 * n) rg.res.legs

/-- all strings synchronised (`PS.WF`) and on `n` qubits -/
def uniformB (n : Nat) (G : List PS) : Bool := G.all (fun g => decide g.WF && g.len == n)

def qubitsOf (G : List PS) : Nat := match G with | [] => 0 | g :: _ => g.len

/-- verdicts of all components (in the order of `get_subgraphs`), or why nothing can be said -/
def certComps (G : List PS) : Except String (List Verdict) :=
  if !uniformB (qubitsOf G) G then .error "not-uniform"
  else match Graph.getSubgraphs G with
    | .error _ => .error "subgraphs-raised"
    | .ok cs => .ok (cs.map (certComp (qubitsOf G)))

/-- all components certified -/
def okOf (r : Except String (List Verdict)) : Bool :=
  match r with
  | .error _ => false
  | .ok vs => vs.all Verdict.isOk

/-- **the certificate**: every component is certified -/
def certDim (G : List PS) : Bool := okOf (certComps G)

/-- text of a verdict list: `cert=ok` exactly when `okOf`; then the cases of the components, otherwise the reasons
of the declined ones -/
def textOf (r : Except String (List Verdict)) : String :=
  if okOf r then
    match r with
    | .ok vs =>
      let cases := vs.filterMap (fun v => match v with | .ok c => some c | .declined _ => none)
      "cert=ok case=" ++ (if cases.isEmpty then "-" else String.intercalate "," cases)
    | .error _ => "cert=ok case=" ++ "-"
  else
    match r with
    | .error why => "cert=declined reason=" ++ why
    | .ok vs =>
      "cert=declined reason=" ++
        String.intercalate "," (vs.filterMap (fun v => match v with | .ok _ => none | .declined r => some r))

/-- the reply of the `cert` command: `cert=ok …` exactly when `certDim G = true` -/
def certText (G : List PS) : String := textOf (certComps G)

end Cert
end PauLie
