import PauLieVerif.Model.Proto
import PauLieVerif.Model.Graph

namespace PauLie
namespace CmdGraph
open Proto Graph

def showEdge3 (e : PS × PS × PS) : String := s!"{showPS e.1}-{showPS e.2.1}:{showPS e.2.2}"
def showEdge2 (e : PS × PS) : String := s!"{showPS e.1}-{showPS e.2}"
def showComps (cs : List (List PS)) : String :=
  if cs.isEmpty then "-" else String.intercalate "|" (cs.map showPSList)
def joinOr (l : List String) : String := if l.isEmpty then "-" else String.intercalate "," l

def handle (line : String) : Option String :=
  match line.splitOn " " with
  | ["klocal", n, gs] => do
    let gs ← psList? gs
    let n ← n.toNat?
    return showExcept showPSList (getPauliStringList gs (some n))
  | ["coll", gs] => do
    let gs ← psList? gs
    return showExcept showPSList (getPauliStringList gs none)
  | ["graph", gs, cs] => do
    let gs ← psList? gs
    let cs ← psList? cs
    return showExcept (fun (r : List PS × List (PS × PS × PS)) =>
      s!"V={showPSList r.1} E={joinOr (r.2.map showEdge3)}") (do getGraph (← collInit gs) (← collInit cs))
  | ["subgraphs", gs] => do
    let gs ← psList? gs
    return showExcept showComps (do getSubgraphs (← collInit gs))
  | ["components", ty, gs] => do
    let gs ← psList? gs
    return showExcept showComps (do getGraphComponents (← collInit gs) (ty == "commutator"))
  | ["commutants", gs] => do
    let gs ← psList? gs
    return showExcept showPSList (do getCommutants (← collInit gs))
  | ["cgraph", gs] => do
    let gs ← psList? gs
    return showExcept (fun (r : List PS × List (PS × PS)) =>
      s!"V={showPSList r.1} E={joinOr (r.2.map showEdge2)}") (do getCommutatorGraph (← collInit gs))
  | ["pairs", gs] => do
    let gs ← psList? gs
    let c := collInit gs
    let ap := showExcept toString (do anticommutationPair (← c))
    let gp := showExcept toString (do return getPair (← c))
    let fr := showExcept (fun (r : Nat × Nat) => s!"{r.1}/{r.2}") (do anticommutationFraction (← c))
    return s!"anti={ap} pair={gp} frac={fr}"
  | _ => none

end CmdGraph
end PauLie
