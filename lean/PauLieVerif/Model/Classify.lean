/-
Model of `classifier/classification.py` (classes `Morph`, `Classification`) and
of the classifying queries of `common/pauli_string_collection.py`
(`classify`, `get_algebra`, `get_dla_dim`, `get_dependents`,
`get_canonic_vertices`, `is_in`, `is_eq`, `select_dependents`, `get_space`).
Collections are values here; the cached, mutable collection is `Model/Coll.lean`.
-/
import PauLieVerif.Model.Morph
import PauLieVerif.Model.MorphRec
import PauLieVerif.Model.Closure

namespace PauLie
namespace Classify
open Morph

inductive TypeGraph where
  | A | B1 | B2 | B3 | NONE
  deriving DecidableEq, Repr, Inhabited

inductive TypeAlgebra where
  | U | SU | SP | SO
  deriving DecidableEq, Repr, Inhabited

def TypeAlgebra.name : TypeAlgebra → String
  | .U => "u" | .SU => "su" | .SP => "sp" | .SO => "so"

/-- the census of leg lengths: (single legs, legs of length two, length of the long leg) -/
def rawCounts (legs : List (List PS)) : Except Err (Nat × Nat × Nat) := do
  let mut one := 0
  let mut two := 0
  let mut long := 0
  for leg in legs.drop 1 do
    if leg.length == 1 then one := one + 1
    if leg.length == 2 then two := two + 1
    if leg.length > 2 then
      if long > 0 then throw .classificationError
      long := long + leg.length
  return (one, two, long)

/-- the adjustments of `Morph.counts`, in source order -/
def adjustCounts (c : Nat × Nat × Nat) : Nat × Nat × Nat := Id.run do
  let mut (one, two, long) := c
  if long == 0 && two == 1 then
    two := 0
    long := 2
  if long > 0 && two == 0 then
    long := long + 1
  if long == 0 && two == 0 && one ≥ 1 then
    long := 1
  return (one, two, long)

/-- `Morph.counts()` -/
def counts (legs : List (List PS)) : Except Err (Nat × Nat × Nat) := do
  return adjustCounts (← rawCounts legs)

/-- `get_properties` on the census -/
def propertiesOfCounts (c : Nat × Nat × Nat) : Except Err (TypeGraph × Nat × Nat × Nat) :=
  let (one, two, long) := c
  if two == 0 then .ok (.A, one, two, long)
  else if long == 0 then .ok (.B1, one, two, long)
  else if long == 3 then .ok (.B3, one, two, long)
  else if long == 4 then .ok (.B2, one, two, long)
  else .error .classificationError

/-- `Morph.get_properties()` -/
def getProperties (legs : List (List PS)) : Except Err (TypeGraph × Nat × Nat × Nat) := do
  if legs.isEmpty then throw .classificationError
  if legs.length == 1 then return (.NONE, 0, 0, 0)
  propertiesOfCounts (← counts legs)

/-- `get_algebra_properties` on the graph type: (type, nc, size) -/
def algebraOfProperties : TypeGraph × Nat × Nat × Nat → TypeAlgebra × Nat × Nat
  | (.NONE, _, _, _) => (.U, 1, 1)
  | (.A, one, _, long) => (.SO, one, long + 2)
  | (.B1, one, two, _) => (.SP, one, 2 ^ two)
  | (.B2, one, two, _) => (.SO, one, 2 ^ (two + 3))
  | (.B3, one, two, _) => (.SU, one, 2 ^ (two + 2))

/-- `Morph.get_algebra_properties()` -/
def getAlgebraProperties (legs : List (List PS)) : Except Err (TypeAlgebra × Nat × Nat) := do
  return algebraOfProperties (← getProperties legs)

/-- multiplicity `nc if nc == 1 else 2**(nc-1)`; `nc = 0` would give the float
0.5 in Python — reported as an error by the model -/
def multiplicity (nc : Nat) : Except Err Nat :=
  if nc == 0 then .error .other else if nc == 1 then .ok 1 else .ok (2 ^ (nc - 1))

/-- a summand `mult * type(size)` -/
structure Summand where
  ty : TypeAlgebra
  size : Nat
  mult : Nat
  deriving DecidableEq, Repr, Inhabited

def Summand.toString (s : Summand) : String :=
  (if s.mult == 1 then "" else s!"{s.mult}*") ++ s!"{s.ty.name}({s.size})"

/-- merge equal names (the `dict` of `get_algebra`) and sort by printed name -/
def mergeSummands (l : List Summand) : List Summand :=
  let merged := l.foldl (fun (acc : List Summand) s =>
    if acc.any (fun t => t.ty == s.ty && t.size == s.size) then
      acc.map (fun t => if t.ty == s.ty && t.size == s.size then { t with mult := t.mult + s.mult } else t)
    else acc ++ [s]) []
  merged.mergeSort (fun a b => s!"{a.ty.name}({a.size})" ≤ s!"{b.ty.name}({b.size})")

structure MorphR where
  legs : List (List PS)
  dependents : List PS
  unappended : List PS
  tags : List String
  complete : Bool
  deriving Repr, Inhabited

/-- the summand one morph contributes: its algebra properties and the copy count -/
def summandOfMorph (m : MorphR) : Except Err Summand := do
  let (ty, nc, size) ← getAlgebraProperties m.legs
  return ⟨ty, size, ← multiplicity nc⟩

/-- the summands of all morphs, in order; raises at the first morph that raises -/
def summandsOf (ms : List MorphR) : Except Err (List Summand) := ms.mapM summandOfMorph

/-- `Classification.get_algebra()` as a sorted multiset of summands -/
def algebraOfMorphs (ms : List MorphR) : Except Err (List Summand) := do
  return mergeSummands (← summandsOf ms)

def dimSU (n : Nat) : Nat := n ^ 2 - 1
def dimSO (n : Nat) : Nat := n * (n - 1) / 2
def dimSP (n : Nat) : Nat := n * (2 * n + 1)

/-- dimension of a named summand (all copies) -/
def Summand.dim (s : Summand) : Nat :=
  s.mult * (match s.ty with
    | .U => 1 | .SU => dimSU s.size | .SP => dimSP s.size | .SO => dimSO s.size)

/-- `Classification.get_dla_dim()`: the dimensions of the summands of all morphs, added up -/
def dlaDimOfMorphs (ms : List MorphR) : Except Err Nat := do
  return ((← summandsOf ms).map Summand.dim).sum

/-- `PauliStringCollection.classify()`: one morph per connected component -/
def classify (gens : List PS) : Except Err (List MorphR) := do
  let subs ← Graph.getSubgraphs gens
  subs.mapM (fun sub => do
    let r ← Morph.build sub
    return ⟨r.legs, r.dependents, r.unappended, r.tags, r.complete⟩)

/-- one reduction of the recording builder: the morph and the frames it wrote -/
structure RecR where
  sub : List PS                 -- the generators of the component
  morph : MorphR
  frames : List MorphRec.Frame
  deriving Repr, Inhabited

/-- the text `Classification.get_algebra()` returns for a classification holding this single morph
(`nc = 0` would make Python print the float 0.5) -/
def algebraTextOfMorph (legs : List (List PS)) : Except Err String := do
  let (ty, nc, size) ← getAlgebraProperties legs
  let name := s!"{ty.name}({size})"
  return (if nc == 1 then name else if nc == 0 then "0.5*" ++ name else s!"{2 ^ (nc - 1)}*{name}")

/-- `PauliStringCollection.classify()` with a recorder attached: one
`RecordingMorphFactory` per connected component, all writing into the same
record.  The closing frame of `RecordingMorphFactory.build` needs
`Classification.get_algebra()` of the component's morph and is added here; an
exception of that call propagates out of `classify`. -/
def classifyRec (gens : List PS) : Except Err (List RecR) := do
  let subs ← Graph.getSubgraphs gens
  subs.mapM (fun sub => do
    let r ← MorphRec.buildRec sub
    let alg ← algebraTextOfMorph r.legs
    return ⟨sub, ⟨r.legs, r.dependents, r.unappended, r.tags, r.complete⟩,
            r.frames ++ [⟨s!"Algebra: {alg}", some r.legs.flatten, false⟩]⟩)

/-- position in the generator list of the first member of a component -/
def firstIndex (gens sub : List PS) : Nat :=
  (sub.filterMap (fun v => gens.findIdx? (fun g => g.beq v))).foldl min gens.length

/-- The reduction that writes LAST into the shared record.  `get_subgraphs` orders
the components by `sorted(nx.connected_components(g), key=len, reverse=True)`:
size descending, equal sizes in networkx order, i.e. by first appearance of a
member in the generator list.  So the last one is, among the smallest components,
the one that appears last. -/
def lastBuilt (gens : List PS) (rs : List RecR) : Option RecR :=
  rs.foldl (fun acc r =>
    match acc with
    | none => some r
    | some a =>
      if r.sub.length < a.sub.length ||
         (r.sub.length == a.sub.length && firstIndex gens r.sub > firstIndex gens a.sub) then some r else acc) none

def verticesOf (ms : List MorphR) : List PS := (ms.map (fun m => m.legs.flatten)).flatten
def dependentsOf (ms : List MorphR) : List PS := (ms.map (fun m => m.dependents)).flatten

/-- `is_in(generators)` of a collection with classification `ms` -/
def isIn (selfLen : Nat) (ms : List MorphR) (query : List PS) : Except Err Bool := do
  if selfLen == 0 then return false
  let subs ← Graph.getSubgraphs query
  for sub in subs do
    let mut ok := false
    for m in ms do
      ok := Morph.isEq m.legs sub
      if ok then break
    if !ok then return false
  return true

/-- `select_dependents(generators)`; `none` models the `False` returned for an empty collection -/
def selectDependents (selfLen : Nat) (ms : List MorphR) (query : List PS) :
    Except Err (Option (List PS)) := do
  if selfLen == 0 then return none
  let subs ← Graph.getSubgraphs query
  let mut deps : List PS := []
  for sub in subs do
    for m in ms do
      deps := deps ++ Morph.selectDependents m.legs sub
  -- `PauliStringCollection(dependents)` pads to the longest
  return some (← Graph.collInit deps)

/-- `get_space()` -/
def getSpace (gens : List PS) (ms : List MorphR) : Except Err (Option (List PS)) := do
  let n := match gens with | [] => 0 | g :: _ => g.len
  let all := PS.genAll n
  selectDependents gens.length ms (← Graph.collInit all)

/-! ### C02: shape of a canonical graph -/

/-- the edges a star of legs must have: centre–first vertex of every leg, and
consecutive vertices inside a leg -/
def starEdges (legs : List (List PS)) : List (PS × PS) :=
  match legs with
  | [] => []
  | cleg :: rest =>
    match cleg with
    | [] => []
    | c :: _ => rest.flatMap (fun leg => (match leg with | [] => [] | a :: _ => [(c, a)]) ++ leg.zip (leg.drop 1))

def isStarEdge (legs : List (List PS)) (a b : PS) : Bool :=
  (starEdges legs).any (fun (x, y) => (x.beq a && y.beq b) || (x.beq b && y.beq a))

/-- first pair of vertices (in `combinations` order) whose anticommutation disagrees with the star -/
def firstMismatch (legs : List (List PS)) : List (PS × PS) → Except Err (Option (PS × PS × Bool))
  | [] => .ok none
  | (a, b) :: rest => do
    let anti := !(← a.commutesWith b)
    if anti != isStarEdge legs a b then return some (a, b, anti)
    firstMismatch legs rest

/-- `none` = the legs are a canonical star: centre leg is one vertex, vertices
distinct, no empty leg, at most one leg longer than two, legs ordered by
non-decreasing length, and two vertices anticommute exactly when they are joined
by a star edge.  Otherwise the reason. -/
def shapeCheck (legs : List (List PS)) : Except Err (Option String) := do
  match legs with
  | [] => return some "empty"
  | cleg :: rest =>
    if cleg.length != 1 then return some "centre leg is not a single vertex"
    let vs := legs.flatten
    if (Graph.dedupPS vs).length != vs.length then return some "vertices not distinct"
    if rest.any (fun l => l.isEmpty) then return some "empty leg"
    if (rest.filter (fun l => l.length > 2)).length > 1 then return some "more than one long leg"
    let lens := rest.map List.length
    if !(lens.zip (lens.drop 1)).all (fun (a, b) => a ≤ b) then return some "legs not sorted by length"
    match ← firstMismatch legs (Graph.combinations2 vs) with
    | some (a, b, anti) =>
      return some s!"edge mismatch at {a},{b}: anticommute={anti} star-edge={isStarEdge legs a b}"
    | none => return none

/-! ### Invariants of a finite closed set of Pauli strings and of a named algebra
(the verified per-input checker of C01/C09/C19) -/

/-- dimension of one simple copy of a named simple algebra -/
def simpleDim : TypeAlgebra → Nat → Nat
  | .SO, m => dimSO m
  | .SP, m => dimSP m
  | .SU, m => dimSU m
  | .U, _ => 1

/-- For a connected block of `d` basis strings per copy in which a basis string
commutes with `cent` basis strings (per copy): a Pauli string acts on the
algebra with ad-eigenvalues {0, ±2i}, i.e. it is a minuscule coweight; in
series B_r its centraliser is so(2)+so(2r-1) (dimension 2r²-3r+2), in series
C_r it is u(r) (dimension r²). -/
def labelOfBlock (d cent : Nat) : Nat :=
  match (List.range (d + 1)).find? (fun r => r ≥ 3 && r * (2 * r + 1) == d) with
  | some r => if cent == r * r then 2 else if cent == 2 * r * r - 3 * r + 2 then 1 else 3
  | none => 0

/-- integer square root by Newton's iteration from above (fuel 256 covers every
argument below 2^200; only used to *propose* a candidate that is then tested exactly) -/
def isqrt (n : Nat) : Nat :=
  let rec go : Nat → Nat → Nat
    | 0, x => x
    | fuel + 1, x => let y := (x + n / x) / 2; if y < x then go fuel y else x
  if n == 0 then 0 else go 256 n

/-- `labelOfBlock` with the candidate `r` proposed by a square root instead of a
linear search (`r(2r+1) = d` forces `r = ⌊√(d/2)⌋`) -/
def labelOfBlockFast (d cent : Nat) : Nat :=
  let r := isqrt (d / 2)
  if r ≥ 3 && r * (2 * r + 1) == d then
    (if cent == r * r then 2 else if cent == 2 * r * r - 3 * r + 2 then 1 else 3)
  else 0

/-- Series label separating the only non-isomorphic equal-dimension pair that
occurs among Pauli DLAs at enumerable sizes: `so(2r+1)` (label 1, series B) vs
`sp(r)` (label 2, series C) for r ≥ 3.  Label 3 marks a block whose dimension is
of the form r(2r+1) but whose centraliser count fits neither series: among the
`su(2^k)` this happens exactly for `su(64)` (4095 = dim sp(45) = dim so(91); a
Pauli string of su(m) commutes with m²/2 − 1 of the m² − 1 basis strings).
Everything else has label 0. -/
def labelOfName : TypeAlgebra → Nat → Nat
  | .SO, m => if m % 2 == 1 && m ≥ 7 then 1 else 0
  | .SP, m => if m ≥ 3 then 2 else 0
  | .SU, m => labelOfBlockFast (dimSU m) (m * m / 2 - 1)
  | _, _ => 0

structure Inv where
  centre : Nat                       -- number of u(1) summands
  simples : List (Nat × Nat × Nat)   -- (dim of one copy, series label, copies), sorted, merged
  deriving DecidableEq, Repr, Inhabited

def mergeSimples (l : List (Nat × Nat × Nat)) : List (Nat × Nat × Nat) :=
  let merged := l.foldl (fun (acc : List (Nat × Nat × Nat)) s =>
    if acc.any (fun t => t.1 == s.1 && t.2.1 == s.2.1) then
      acc.map (fun t => if t.1 == s.1 && t.2.1 == s.2.1 then (t.1, t.2.1, t.2.2 + s.2.2) else t)
    else acc ++ [s]) []
  merged.mergeSort (fun a b => a.1 < b.1 || (a.1 == b.1 && a.2.1 ≤ b.2.1))

/-- invariants of the algebra a list of summands names; identifies exactly
so(2)=u(1), so(3)=su(2)=sp(1), so(4)=2·su(2), so(5)=sp(2), so(6)=su(4) -/
def invOfName (l : List Summand) : Inv :=
  let step := fun (acc : Nat × List (Nat × Nat × Nat)) (s : Summand) =>
    match s.ty, s.size with
    | .U, _ => (acc.1 + s.mult, acc.2)
    | .SO, 0 => acc
    | .SO, 1 => acc
    | .SO, 2 => (acc.1 + s.mult, acc.2)
    | .SO, 4 => (acc.1, acc.2 ++ [(3, 0, 2 * s.mult)])
    | ty, m => (acc.1, acc.2 ++ [(simpleDim ty m, labelOfName ty m, s.mult)])
  let (z, ss) := l.foldl step (0, [])
  ⟨z, mergeSimples ss⟩

open Closure in
/-- invariants of a closed set `C` (as produced by `closureList`) -/
def invOfClosure (C : List V) : Inv :=
  let centre := C.filter (fun x => C.all (fun y => !(omega x y)))
  let rest := C.filter (fun x => C.any (fun y => omega x y))
  -- connected components of the anticommutation graph on `rest`
  let rec grow (fuel : Nat) (comp frontier pool : List V) : List V × List V :=
    match fuel with
    | 0 => (comp, pool)
    | fuel + 1 =>
      match frontier with
      | [] => (comp, pool)
      | x :: fr =>
        let (nbrs, pool') := pool.partition (fun y => omega x y)
        grow fuel (comp ++ nbrs) (fr ++ nbrs) pool'
  let rec comps (fuel : Nat) (pool : List V) (acc : List (List V)) : List (List V) :=
    match fuel with
    | 0 => acc
    | fuel + 1 =>
      match pool with
      | [] => acc
      | x :: pool' =>
        let (c, pool'') := grow (pool'.length + 1) [x] [x] pool'
        comps fuel pool'' (acc ++ [c])
  let cs := comps (rest.length + 1) rest []
  let inv1 := fun (B : List V) =>
    match B with
    | [] => (0, 0, 0)
    | x0 :: _ =>
      let sig := fun (x : V) => B.map (fun z => omega x z)
      let s0 := sig x0
      let copies := (B.filter (fun y => sig y == s0)).length
      let cent := (B.filter (fun y => !(omega x0 y))).length
      (B.length / copies, labelOfBlock (B.length / copies) (cent / copies), copies)
  ⟨centre.length, mergeSimples (cs.map inv1)⟩

end Classify
end PauLie
