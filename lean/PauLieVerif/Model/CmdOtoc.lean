/-
Command handlers for C15: `otoc`, `agc`, `fourpoint` (source-level models) and
`otoccore`, `splcore` (the bit-list cores, for the model-internal refinement check).
-/
import PauLieVerif.Model.Proto
import PauLieVerif.Model.Otoc

namespace PauLie
namespace CmdOtoc
open Proto Otoc

def showRes (a s : Nat) (done : Bool) : String := s!"anti={a} size={s} done={showBool done}"

def showAExcept {α} (f : α → String) : Except AErr α → String
  | .ok a => f a
  | .error e => s!"!{e.toString}"

def handle (line : String) : Option String :=
  match line.splitOn " " with
  | ["otoc", gs, v, w] => do
    let gs ← psList? gs
    let v ← ps? v
    let w ← ps? w
    return showExcept (fun (r : ResPS) => showRes r.anti r.size r.done)
      (do averageOtoc (← Graph.collInit gs) v w)
  | ["otoccore", gs, v, w] => do
    let gs ← psList? gs
    let v ← ps? v
    let w ← ps? w
    return showExcept (fun (r : Res) => showRes r.anti r.size r.done)
      (do return otocCore ((← Graph.collInit gs).map (·.bits)) v.bits w.bits)
  | ["agc", gs, p] => do
    let gs ← psList? gs
    let p ← ps? p
    match Graph.collInit gs with
    | .error e => return s!"!{e}"
    | .ok c =>
      return showAExcept (fun (r : Nat × Nat × Bool) => s!"sum={r.1} size={r.2.1} done={showBool r.2.2}")
        (averageGraphComplexity c p)
  | ["splcore", gs, p] => do
    let gs ← psList? gs
    let p ← ps? p
    return showExcept (fun (r : List (Closure.V × Nat) × Bool) =>
        s!"sum={(r.1.map Prod.snd).sum} size={r.1.length} done={showBool r.2}")
      (do return splCore (Closure.expand ((← Graph.collInit gs).map (·.bits))) p.bits)
  | ["fourpoint", gs, p, q, r, s] => do
    let gs ← psList? gs
    let p ← ps? p
    let q ← ps? q
    let r ← ps? r
    let s ← ps? s
    return showExcept (fun (o : Option ResPS) => match o with
        | none => "zero"
        | some x => "otoc " ++ showRes x.anti x.size x.done)
      (do fourpoint (← Graph.collInit gs) p q r s)
  | _ => none

end CmdOtoc
end PauLie
