import PauLieVerif.Model.Proto
import PauLieVerif.Model.Classify
import PauLieVerif.Model.MorphG

namespace PauLie
namespace CmdClassify
open Proto Classify

def strLeS (a b : String) : Bool := a ≤ b

def showSortedPS (l : List PS) : String :=
  let ss := (l.map showPS).mergeSort strLeS
  if ss.isEmpty then "-" else String.intercalate "," ss

def showLegs (legs : List (List PS)) : String :=
  if legs.isEmpty then "-" else
  String.intercalate "/" (legs.map (fun leg => String.intercalate "." (leg.map showPS)))

def showAlgebra (l : List Summand) : String :=
  "[" ++ String.intercalate "," (l.map Summand.toString) ++ "]"

def showMorphs (ms : List MorphR) : String :=
  let ss := (ms.map (fun m => showLegs m.legs)).mergeSort strLeS
  if ss.isEmpty then "-" else String.intercalate ";" ss

def showInv (i : Inv) : String :=
  s!"z={i.centre} simples=[" ++ String.intercalate "," (i.simples.map (fun (d, c, k) => s!"{d}:{c}:{k}")) ++ "]"

/-- parse `2*so(3)` / `u(1)` -/
def summand? (s : String) : Option Summand := do
  let (mult, name) ←
    match s.splitOn "*" with
    | [n] => some (1, n)
    | [k, n] => do some (← k.toNat?, n)
    | _ => none
  match name.splitOn "(" with
  | [ty, rest] =>
    let size ← (rest.dropEnd 1).toString.toNat?
    let ty ← match ty with
      | "u" => some TypeAlgebra.U | "su" => some .SU | "sp" => some .SP | "so" => some .SO | _ => none
    some ⟨ty, size, mult⟩
  | _ => none

def algebra? (s : String) : Option (List Summand) :=
  if s == "[]" then some [] else
  let inner := ((s.drop 1).toString.dropEnd 1).toString
  (inner.splitOn ",").mapM summand?

def legs? (s : String) : Option (List (List PS)) :=
  if s == "-" then some [] else
  (s.splitOn "/").mapM (fun leg => (leg.splitOn ".").mapM ps?)

/-! ### recording builder (C11) -/

def hashStep (h : Nat) (c : Char) : Nat := (h * 131 + c.toNat) % 1000000007

/-- one frame as text: title, then `@` and the vertex list if the frame carries a graph, `^` if `init` -/
def showFrame (f : MorphRec.Frame) : String :=
  f.title ++ (match f.graph with | some vs => "@" ++ showPSList vs | none => "") ++ (if f.init then "^" else "")

/-- digest of a frame sequence: count and a polynomial hash of the frame texts -/
def framesDigest (fs : List MorphRec.Frame) : String :=
  let h := fs.foldl (fun h f => hashStep ((showFrame f).foldl hashStep h) '\n') 7
  s!"{fs.length}:{h}"

/-- vertex list of the last frame that carries a graph -/
def lastGraph (fs : List MorphRec.Frame) : Option (List PS) :=
  fs.reverse.findSome? (fun f => f.graph)

/-- per reduction (= per connected component): `<sorted vertices of the last graph frame>@<count>:<hash>`;
reductions sorted by this text (the order of equal-sized components is a networkx detail) -/
def showRecs (rs : List RecR) : String :=
  let ss := (rs.map (fun r =>
    (match lastGraph r.frames with | some vs => showSortedPS vs | none => "none") ++ "@" ++ framesDigest r.frames)).mergeSort strLeS
  if ss.isEmpty then "-" else String.intercalate ";" ss

/-- `RecordGraph.get_graph(get_size() - 1)`: sorted vertices of the last graph-carrying frame of the whole record -/
def showFinal (gens : List PS) (rs : List RecR) : String :=
  match lastBuilt gens rs with
  | none => "none"
  | some r => match lastGraph r.frames with | some vs => showSortedPS vs | none => "none"

def showFrameLog (rs : List RecR) : String :=
  let ss := (rs.map (fun r => String.intercalate "/" (r.frames.map (fun f => (showFrame f).replace " " "_")))).mergeSort strLeS
  if ss.isEmpty then "-" else String.intercalate "||" ss

/-- guard report of the membership queries `q` against the collection `c`:
(all guards ok, reasons, member verdicts, certified member verdicts, unreported query strings, of them
certified non-members) -/
def memberReport (c q : List PS) (check : Bool) :
    Except Err (Bool × List String × Nat × Nat × Nat × Nat) := do
  let subs ← Graph.getSubgraphs c
  let rs ← subs.mapM MorphG.buildG
  let cls := rs.all (fun r => r.guardsOk && r.res.complete && r.res.unappended.isEmpty)
  let legs := rs.map (fun r => r.res.legs)
  let verts := (legs.map List.flatten).flatten
  let pairs := legs.flatMap (fun l => q.map (fun x => (l, x)))
  let isDep := fun (p : List (List PS) × PS) =>
    match (MorphG.memberRunG p.1 check p.2).1 with | .error .dependent => true | _ => false
  let deps := pairs.filter isDep
  let depsOk := deps.filter (fun p => MorphG.memberGuard p.1 check p.2)
  let bad := pairs.filter (fun p => !(MorphG.memberGuard p.1 check p.2))
  let non := q.filter (fun x => !(deps.any (fun p => p.2.beq x)))
  let nonOk := non.filter (fun x => MorphG.nonMemberCert verts x)
  let why := (if cls then [] else ["classification"]) ++ bad.map (fun p => MorphG.memberWhy p.1 check p.2)
  return (cls && bad.isEmpty, why, deps.length, depsOk.length, non.length, nonOk.length)

def handle (line : String) : Option String :=
  match line.splitOn " " with
  | ["classify", gs] => do
    let gs ← psList? gs
    return showExcept id (do
      let c ← Graph.collInit gs
      let ms ← classify c
      let alg := showExcept showAlgebra (algebraOfMorphs ms)
      let dim := showExcept toString (dlaDimOfMorphs ms)
      let lost := (ms.map (fun m => m.unappended.length)).foldl (· + ·) 0
      let complete := ms.all (fun m => m.complete)
      return s!"alg={alg} dim={dim} deps={showSortedPS (dependentsOf ms)} verts={showSortedPS (verticesOf ms)} morphs={showMorphs ms}" ++
        (if complete then "" else " INCOMPLETE") ++ s!" #lost={lost} #tags={String.intercalate "" (ms.map (fun m => String.intercalate "" m.tags))}")
  | ["guards", gs] => do
    -- the guarded model (`Model/MorphG.lean`): the reduction of every component with a certificate
    -- check at every move; `guards=ok` implies closure preservation (`C02.C02_closure_guarded`)
    let gs ← psList? gs
    return showExcept id (do
      let c ← Graph.collInit gs
      let subs ← Graph.getSubgraphs c
      let rs ← subs.mapM MorphG.buildG
      let ok := rs.all (fun r => r.guardsOk)
      let complete := rs.all (fun r => r.res.complete)
      let lost := (rs.map (fun r => r.res.unappended.length)).foldl (· + ·) 0
      let legs := (rs.map (fun r => showLegs r.res.legs)).mergeSort strLeS
      let why := String.intercalate "," ((rs.filter (fun r => !r.guardsOk)).map (fun r => r.why))
      return s!"guards={if ok then "ok" else "FAIL:" ++ why} complete={showBool complete} lost={lost} " ++
        s!"deps={showSortedPS ((rs.map (fun r => r.res.dependents)).flatten)} " ++
        s!"morphs={if legs.isEmpty then "-" else String.intercalate ";" legs} " ++
        s!"tags={String.intercalate "" (rs.map (fun r => String.intercalate "" r.res.tags))}")
  | ["classifyrec", gs] => do
    let gs ← psList? gs
    return showExcept id (do
      let c ← Graph.collInit gs
      let rs ← classifyRec c
      let ms := rs.map (·.morph)
      let alg := showExcept showAlgebra (algebraOfMorphs ms)
      let dim := showExcept toString (dlaDimOfMorphs ms)
      let lost := (ms.map (fun m => m.unappended.length)).foldl (· + ·) 0
      let complete := ms.all (fun m => m.complete)
      return s!"alg={alg} dim={dim} deps={showSortedPS (dependentsOf ms)} verts={showSortedPS (verticesOf ms)} morphs={showMorphs ms} last={showRecs rs} final={showFinal c rs}" ++
        (if complete then "" else " INCOMPLETE") ++ s!" #lost={lost} #tags={String.intercalate "" (ms.map (fun m => String.intercalate "" m.tags))}")
  | ["recframes", gs] => do
    let gs ← psList? gs
    return showExcept id (do
      let c ← Graph.collInit gs
      let rs ← classifyRec c
      -- out of fuel (the recording builder of the implementation does not terminate on this input): say so, the log is a prefix only
      return showFrameLog rs ++ (if rs.all (fun r => r.morph.complete) then "" else " INCOMPLETE"))
  | ["closure", gs] => do
    let gs ← psList? gs
    return showExcept id (do
      let c ← Graph.collInit gs
      let (cl, flag) := Closure.closureList (c.map (·.bits))
      return s!"n={cl.length} flag={showBool flag} elems={showSortedPS (cl.map PS.ofBits)}")
  | ["inv", gs] => do
    let gs ← psList? gs
    return showExcept id (do
      let c ← Graph.collInit gs
      let (cl, flag) := Closure.closureList (c.map (·.bits))
      return s!"size={cl.length} flag={showBool flag} {showInv (invOfClosure cl)}")
  | ["invname", alg] => do
    let a ← algebra? alg
    return s!"size={(a.map Summand.dim).foldl (· + ·) 0} {showInv (invOfName a)}"
  | ["shape", legs] => do
    let l ← legs? legs
    return showExcept (fun r => match r with | none => "ok" | some why => why) (shapeCheck l)
  | ["isin", gs, qs] => do
    let gs ← psList? gs
    let qs ← psList? qs
    return showExcept showBool (do
      let c ← Graph.collInit gs
      let q ← Graph.collInit qs
      isIn c.length (← classify c) q)
  | ["iseq", gs, qs] => do
    let gs ← psList? gs
    let qs ← psList? qs
    return showExcept showBool (do
      let c ← Graph.collInit gs
      let q ← Graph.collInit qs
      let a ← isIn c.length (← classify c) q
      if !a then return false
      isIn q.length (← classify q) c)
  | ["seldep", gs, qs] => do
    let gs ← psList? gs
    let qs ← psList? qs
    return showExcept (showOpt showSortedPS) (do
      let c ← Graph.collInit gs
      let q ← Graph.collInit qs
      selectDependents c.length (← classify c) q)
  | ["mguards", cmd, gs, qs] => do
    -- guard condition of a membership query (`Properties/C08.lean`): `ans` = the answer of the plain model;
    -- `guards=ok`: the classification of `gs` passes its certificate checks (C02) and every run of a query
    -- string against the canonical legs of every component passes `memberGuard`; `memb=a/b`: member verdicts /
    -- of them certified; `non=c/d`: query strings no component reports / of them with a certificate of
    -- non-membership (a string commuting with all canonical vertices and anticommuting with the query)
    let gs ← psList? gs
    let qs ← if cmd == "space" then some [] else psList? qs
    return showExcept id (do
      let c ← Graph.collInit gs
      let q ← if cmd == "space" then Graph.collInit (PS.genAll (match c with | [] => 0 | g :: _ => g.len))
              else Graph.collInit qs
      let check := cmd != "isin" && cmd != "iseq"
      let r1 ← memberReport c q check
      let ans ← (match cmd with
        | "isin" => do return showBool (← isIn c.length (← classify c) q)
        | "iseq" => do
          let a ← isIn c.length (← classify c) q
          if !a then return showBool false
          return showBool (← isIn q.length (← classify q) c)
        | "seldep" => do return showOpt showSortedPS (← selectDependents c.length (← classify c) q)
        | _ => do return showOpt showSortedPS (← getSpace c (← classify c)) : Except Err String)
      -- `is_eq` also asks the converse question when the first answer is yes
      let r ← if cmd == "iseq" && ans == "T" then do
                let r2 ← memberReport q c false
                pure (r1.1 && r2.1, r1.2.1 ++ r2.2.1, r1.2.2.1 + r2.2.2.1, r1.2.2.2.1 + r2.2.2.2.1,
                      r1.2.2.2.2.1 + r2.2.2.2.2.1, r1.2.2.2.2.2 + r2.2.2.2.2.2)
              else pure r1
      let why := String.intercalate "," r.2.1.eraseDups
      return s!"ans={ans} guards={if r.1 then "ok" else "FAIL:" ++ why} memb={r.2.2.1}/{r.2.2.2.1} non={r.2.2.2.2.1}/{r.2.2.2.2.2}")
  | ["space", gs] => do
    let gs ← psList? gs
    return showExcept (showOpt showSortedPS) (do
      let c ← Graph.collInit gs
      getSpace c (← classify c))
  | _ => none

end CmdClassify
end PauLie
