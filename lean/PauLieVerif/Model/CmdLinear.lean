/-
Command handlers for linear combinations (C12).

  coefficient : `a_b_d`  = (a + b·i)/d, integers a, b, positive d
  term        : `a_b_d*STR`  (STR dense over IXYZ, `-` for the empty string)
  combination : terms joined by `,`; `-` for the empty list

  lin1 A c P  → h=… | tr=… | simp=… | zero=… | smul=… | kron=… | rkron=… | quad=… | mat=… | str=…
  lin2 A B    → mm=… | add=… | iadd=… | eq=…

  linhist INIT|op|op|…   multi-step history of one object `x`; INIT and the operands `T`
              are combinations whose strings are *texts* for the parser, hex coded as in
              `parse` (`a_b_d*58.5f.32.73.33` = `X_2s3`); ops:
                iadd T (x += T)   add T (x = x + T)   cancel (x = x + x*(-1))
                smul c (x = x*c)  mm T (x = x @ T)    rmm T (x = T @ x)
                simp (x = x.simplify())               h (x = x.h)
              reply: `status@obs` per step joined by ` || `, the first for INIT;
              obs = tr=… | size=… | len=… | zero=… | simp=… | sq=… | mat=… | str=…
              (sq = x @ x.h); a step that raises leaves `x` unchanged.
-/
import PauLieVerif.Model.Proto
import PauLieVerif.Model.Linear

namespace PauLie
namespace CmdLinear
open Proto

def gr? (s : String) : Option GR :=
  match s.splitOn "_" with
  | [a, b, d] => do
    let a ← a.toInt?
    let b ← b.toInt?
    let d ← d.toNat?
    if d = 0 then none else some ⟨mkRat a d, mkRat b d⟩
  | _ => none

def term? (s : String) : Option (GR × PS) :=
  match s.splitOn "*" with
  | [c, p] => do
    let c ← gr? c
    let p ← ps? p
    some (c, p)
  | _ => none

def lin? (s : String) : Option Lin :=
  if s == "-" then some []
  else ((s.splitOn ",").mapM term?).map Lin.mk

def showLin (l : Lin) : String :=
  if l.isEmpty then "-"
  else String.intercalate "," (l.map (fun t => s!"{t.1.toString}*{showPS t.2}"))

def showMat (m : List (List GR)) : String :=
  String.intercalate ";" (m.map (fun row => String.intercalate "," (row.map GR.toString)))

def lin1 (a : Lin) (c : GR) (p : PS) : String :=
  String.intercalate " | " [
    "h=" ++ showLin (Lin.h a),
    "tr=" ++ (Lin.trace a).toString,
    "simp=" ++ showLin (Lin.simplify a),
    "zero=" ++ showBool (Lin.isZero a),
    "smul=" ++ showLin (Lin.smul a c),
    "kron=" ++ showLin (Lin.kron a p),
    "rkron=" ++ showLin (Lin.rkron a p),
    "quad=" ++ showExcept showLin (Lin.quadratic a p),
    "mat=" ++ showExcept showMat (Lin.getMatrix a),
    "str=" ++ Lin.str a]

def lin2 (a b : Lin) : String :=
  String.intercalate " | " [
    "mm=" ++ showExcept showLin (Lin.matmul a b),
    "add=" ++ showLin (Lin.add a b),
    "iadd=" ++ showLin (Lin.iadd a b),
    "eq=" ++ showBool (Lin.eq a b)]

def textTerm? (s : String) : Option (GR × List Char) :=
  match s.splitOn "*" with
  | [c, p] => do
    let c ← gr? c
    let p ← text? p
    some (c, p)
  | _ => none

def textLin? (s : String) : Option (Except Err Lin) :=
  if s == "-" then some (.ok [])
  else ((s.splitOn ",").mapM textTerm?).map Lin.ofTexts

def obs (x : Lin) : String :=
  String.intercalate " | " [
    "tr=" ++ (Lin.trace x).toString,
    "size=" ++ toString (Lin.getSize x),
    "len=" ++ toString x.length,
    "zero=" ++ showBool (Lin.isZero x),
    "simp=" ++ showLin (Lin.simplify x),
    "sq=" ++ showExcept showLin (Lin.matmul x (Lin.h x)),
    "mat=" ++ showExcept showMat (Lin.getMatrix x),
    "str=" ++ Lin.str x]

/-- one step; `none` = malformed request -/
def histStep (x : Lin) (op : List String) : Option (Except Err Lin) :=
  match op with
  | ["iadd", t] => do
    let t ← textLin? t
    some (t.map (fun t => Lin.iadd x t))
  | ["add", t] => do
    let t ← textLin? t
    some (t.map (fun t => Lin.add x t))
  | ["cancel"] => some (.ok (Lin.add x (Lin.smul x ⟨-1, 0⟩)))
  | ["smul", c] => do
    let c ← gr? c
    some (.ok (Lin.smul x c))
  | ["mm", t] => do
    let t ← textLin? t
    some (t.bind (fun t => Lin.matmul x t))
  | ["rmm", t] => do
    let t ← textLin? t
    some (t.bind (fun t => Lin.matmul t x))
  | ["simp"] => some (.ok (Lin.simplify x))
  | ["h"] => some (.ok (Lin.h x))
  | _ => none

def hist (init : String) (ops : List String) : Option String := do
  let i ← textLin? init
  let mut x : Lin := []
  let mut outs : List String := []
  match i with
  | .ok a => x := a; outs := ["ok@" ++ obs x]
  | .error e => outs := [s!"!{e}@" ++ obs x]
  for o in ops do
    let r ← histStep x (o.splitOn " ")
    match r with
    | .ok y => x := y; outs := outs ++ ["ok@" ++ obs x]
    | .error e => outs := outs ++ [s!"!{e}@" ++ obs x]
  return String.intercalate " || " outs

def handle (line : String) : Option String :=
  match line.splitOn " " with
  | ["lin1", a, c, p] => do
    let a ← lin? a
    let c ← gr? c
    let p ← ps? p
    return lin1 a c p
  | ["lin2", a, b] => do
    let a ← lin? a
    let b ← lin? b
    return lin2 a b
  | "linhist" :: _ =>
    match (line.drop 8).toString.splitOn "|" with
    | init :: ops => hist init ops
    | [] => none
  | _ => none

end CmdLinear
end PauLie
