/-
Command handlers for linear combinations (C12).

  coefficient : `a_b_d`  = (a + b·i)/d, integers a, b, positive d
  term        : `a_b_d*STR`  (STR dense over IXYZ, `-` for the empty string)
  combination : terms joined by `,`; `-` for the empty list

  lin1 A c P  → h=… | tr=… | simp=… | zero=… | smul=… | kron=… | rkron=… | quad=… | mat=… | str=…
  lin2 A B    → mm=… | add=… | iadd=… | eq=…
-/
import PauLieVerif.Model.Proto
import PauLieVerif.Model.Linear

namespace PauLie
namespace CmdLinear
open Proto

def gr? (s : String) : Option GR :=
  match s.splitOn "_" with
  | [a, b, d] => do
    let a ← a.toInt?
    let b ← b.toInt?
    let d ← d.toNat?
    if d = 0 then none else some ⟨mkRat a d, mkRat b d⟩
  | _ => none

def term? (s : String) : Option (GR × PS) :=
  match s.splitOn "*" with
  | [c, p] => do
    let c ← gr? c
    let p ← ps? p
    some (c, p)
  | _ => none

def lin? (s : String) : Option Lin :=
  if s == "-" then some []
  else ((s.splitOn ",").mapM term?).map Lin.mk

def showLin (l : Lin) : String :=
  if l.isEmpty then "-"
  else String.intercalate "," (l.map (fun t => s!"{t.1.toString}*{showPS t.2}"))

def showMat (m : List (List GR)) : String :=
  String.intercalate ";" (m.map (fun row => String.intercalate "," (row.map GR.toString)))

def lin1 (a : Lin) (c : GR) (p : PS) : String :=
  String.intercalate " | " [
    "h=" ++ showLin (Lin.h a),
    "tr=" ++ (Lin.trace a).toString,
    "simp=" ++ showLin (Lin.simplify a),
    "zero=" ++ showBool (Lin.isZero a),
    "smul=" ++ showLin (Lin.smul a c),
    "kron=" ++ showLin (Lin.kron a p),
    "rkron=" ++ showLin (Lin.rkron a p),
    "quad=" ++ showExcept showLin (Lin.quadratic a p),
    "mat=" ++ showExcept showMat (Lin.getMatrix a),
    "str=" ++ Lin.str a]

def lin2 (a b : Lin) : String :=
  String.intercalate " | " [
    "mm=" ++ showExcept showLin (Lin.matmul a b),
    "add=" ++ showLin (Lin.add a b),
    "iadd=" ++ showLin (Lin.iadd a b),
    "eq=" ++ showBool (Lin.eq a b)]

def handle (line : String) : Option String :=
  match line.splitOn " " with
  | ["lin1", a, c, p] => do
    let a ← lin? a
    let c ← gr? c
    let p ← ps? p
    return lin1 a c p
  | ["lin2", a, b] => do
    let a ← lin? a
    let b ← lin? b
    return lin2 a b
  | _ => none

end CmdLinear
end PauLie
