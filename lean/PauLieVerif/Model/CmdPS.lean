/-
Command handlers for the Pauli-string substrate (C04, C17 parser, C18).
-/
import PauLieVerif.Model.Proto
import PauLieVerif.Model.Matrix

namespace PauLie
namespace CmdPS
open Proto

def pair (p q : PS) : String :=
  let sg := showExcept toString (PS.sign p q)
  let cm := showExcept showBool (PS.commutesWith p q)
  let ml := showExcept showPS (PS.multiply p q)
  let ad := showExcept (showOpt showPS) (PS.adjointMap p q)
  let cj := showExcept toString (PS.complexConj p)
  s!"sign={sg} comm={cm} mul={ml} adj={ad} conj={cj}"

def mat (p : PS) : String :=
  String.intercalate ";" ((denseMatrix p.letters).map
    (fun row => String.intercalate "," (row.map GI.toString)))

/-- one step of an edit history on a single string; returns new state and the
textual result of the step -/
def histStep (s : PS) (op : List String) : Option (PS × String) :=
  match op with
  | ["set", st, hx] => do
    let start ← int? st
    let txt ← text? hx
    match Parser.mkPS txt with
    | .error e => some (s, s!"!{e}")
    | .ok q =>
      let (s', err) := PS.setSubstring s start q
      some (s', match err with | none => "ok" | some e => s!"!{e}")
  | ["setps", st, q] => do
    let start ← int? st
    let q ← ps? q
    let (s', err) := PS.setSubstring s start q
    some (s', match err with | none => "ok" | some e => s!"!{e}")
  | ["inc"] => some (s.inc, "ok")
  | ["getsub", st, ln] => do
    let start ← int? st
    let len ← int? ln
    some (s, dumpPS (s.getSubstring start len))
  | ["iter"] =>
    -- `for x in s`: cursor from 0 while `nextpos < len(self)`
    let items := (List.range s.len).map (fun (i : Nat) => dumpPS (PS.ofBits (PS.pySlice s.bits (2 * (i:Int)) (2 * (i:Int) + 2))))
    some (s, "[" ++ String.intercalate "," items ++ "]")
  | ["tensor", q] => do
    let q ← ps? q
    some (s.tensor q, "ok")
  | ["rtensor", q] => do
    let q ← ps? q
    some (q.tensor s, "ok")
  | ["expand", n] => do
    let n ← int? n
    match s.expand n with
    | .ok s' => some (s', "ok")
    | .error e => some (s, s!"!{e}")
  | ["copy"] => some (s.copy, "ok")
  | ["obs", q] => do
    -- observations against another string
    let q ← ps? q
    let idx := showExcept toString s.getIndex
    let didx := showExcept toString s.getDiagonalIndex
    let cnt := showExcept toString s.countNonTrivially
    some (s, s!"eq={showBool (s.beq q)} lt={showBool (s.lt q)} le={showBool (s.le q)} gt={showBool (q.lt s)} ge={showBool (q.le s)} ne={showBool (!s.beq q)} len={s.len} idx={idx} didx={didx} cnt={cnt} id={showBool s.isIdentity} {CmdPS.pair s q} rsign={showExcept toString (PS.sign q s)}")
  | _ => none

def hist (init : PS) (ops : List String) : Option String := do
  let mut s := init
  let mut outs : List String := [dumpPS s]
  for o in ops do
    let (s', r) ← histStep s (o.splitOn " ")
    s := s'
    outs := outs ++ [r ++ "@" ++ dumpPS s]
  return String.intercalate ";" outs

def genall (n : Nat) : String :=
  let l := PS.genAll n
  String.intercalate "," (l.map (fun p => s!"{showPS p}:{showExcept toString p.getIndex}"))

def handle (line : String) : Option String :=
  match line.splitOn " " with
  | ["pair", p, q] => do
    let p ← ps? p
    let q ← ps? q
    return pair p q
  | ["mat", p] => do
    let p ← ps? p
    return mat p
  | ["parse", hx] => do
    let t ← text? hx
    return showExcept showPS (Parser.mkPS t)
  | ["parsen", hx, n] => do
    let t ← text? hx
    let n ← int? n
    return showExcept showPS (Parser.mkPS t (some n))
  | ["pyint", hx] => do
    let t ← text? hx
    return showOpt toString (Parser.pyInt t)
  | ["genall", n] => do
    let n ← n.toNat?
    return genall n
  | "hist" :: _ =>
    -- `hist INIT|op|op|…`
    match (line.drop 5).toString.splitOn "|" with
    | init :: ops => do
      let init ← ps? init
      hist init ops
    | [] => none
  | _ => none

end CmdPS
end PauLie
