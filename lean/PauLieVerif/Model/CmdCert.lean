/-
Protocol command of `Model/Cert.lean`.

  cert <G>      the dimension certificate of `PauliStringCollection(G)` and the dimension the model of
                `get_dla_dim()` reports:
                  `cert=ok case=<case of every component, in get_subgraphs order> dim=<d>`
                  `cert=declined reason=<reason of every declined component> dim=<d>`
                `cert=ok` is exactly `Cert.certDim = true`, for which `Properties/C09Cert.lean` proves that
                `d` is the number of Pauli strings in the commutator closure of `G` (any number of qubits).
-/
import PauLieVerif.Model.Proto
import PauLieVerif.Model.Cert

namespace PauLie
namespace CmdCert
open Proto Classify

def handle (line : String) : Option String :=
  match line.splitOn " " with
  | ["cert", gs] => do
    let gs ← psList? gs
    return showExcept id (do
      let c ← Graph.collInit gs
      let dim := showExcept toString (do dlaDimOfMorphs (← classify c))
      return (Cert.certText c).replace "\n" "_" ++ " dim=" ++ dim)
  | _ => none

end CmdCert
end PauLie
