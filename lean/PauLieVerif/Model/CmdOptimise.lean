/-
Protocol commands of the optimiser (property C20):
  edges <ng>                 get_optimal_edges_su_2_n
  optimise <G> <r1,r2,…|->   get_optimal_su_2_n_generators(G) with `randint` answering from the stream
  explore <G>                every outcome over all random choices
-/
import PauLieVerif.Model.Proto
import PauLieVerif.Model.Optimise
import PauLieVerif.Model.CmdClassify

namespace PauLie
namespace CmdOptimise
open Proto Classify Collection Optimise

/-- `generators.copy().get_independents()` then `self.copy().get_canonic_vertices()`;
returns `(independents, n_pair, canonical vertices)` -/
def prepare (gs : List PS) : Except Err (List PS × Int × List PS) := do
  let c ← Graph.collInit gs
  let c ← Graph.collInit c                       -- `.copy()`
  let ms ← classify c
  let deps := dependentsOf ms
  let indep ← Graph.collInit (c.filter (fun v => !Graph.containsPS deps v))
  let number := optimalEdges indep.length
  if number < 0 then return (indep, number, [])
  let g2 ← Graph.collInit indep                  -- `self.copy()`
  let ms2 ← classify g2
  let verts ← Graph.collInit (verticesOf ms2)
  return (indep, number, verts)

def showOutcome : Outcome → String
  | .ok g => showPSList g
  | .error e => s!"!{e}"
  | .outOfRandom => "!Budget"

def natList? (s : String) : Option (List Nat) :=
  if s == "-" then some [] else (s.splitOn ",").mapM String.toNat?

def handle (line : String) : Option String :=
  match line.splitOn " " with
  | ["edges", ng] => do
    let ng ← ng.toNat?
    return toString (optimalEdges ng)
  | ["optimise", gs, rnd] => do
    let gs ← psList? gs
    let rnd ← natList? rnd
    return showExcept id (do
      let (_, number, verts) ← prepare gs
      if number < 0 then return "None"
      return showOutcome (findGenerators verts number rnd))
  | ["explore", gs] => do
    let gs ← psList? gs
    return showExcept id (do
      let (indep, number, verts) ← prepare gs
      if number < 0 then return "None"
      let e := exploreAll verts number
      let res := e.results
      return s!"indep={indep.length} number={number} verts={showPSList verts} stuck={showBool e.stuck} mayraise={showBool e.mayRaise} errors={e.errors.length} results={String.intercalate ";" (res.map showPSList)}")
  | _ => none

end CmdOptimise
end PauLie
