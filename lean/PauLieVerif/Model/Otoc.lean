/-
Model of `application/otoc.py` (`average_otoc`), `application/graph_complexity.py`
(`average_graph_complexity`) and `application/fourpoint.py` (`fourpoint`) — C15.

Two layers, both executable and import-free:

* the *source-level* transcriptions on `PS` (`averageOtoc`, `averageGraphComplexity`,
  `fourpoint`): the Python operators are the `PS` methods the source calls
  (`w | t` = `w.commutes_with(t)`, `t ^ g` = `t.adjoint_map(g)`, truthiness of
  a string = `len > 0`, `in visited` = equality of `bits`), exceptions are
  `Except`;
* the *cores* on bit lists `Closure.V` (`otocCore`, `layers`) which
  `Proofs/C15Lemmas.lean` reasons about; `Proofs/C15Refine.lean` proves that the
  source-level functions compute exactly the cores on well-formed inputs.

The final float operations (`1 - 2 * a / s`, `sum / size`) are NOT modelled:
the model returns the integer pairs `(a, s)` and `(sum, size)`.

Python has no fuel: `while queue` simply runs.  The model loops are fuel-bounded
and report `done = false` if the fuel ran out before the queue did; the fuel
(`4^n * |G| + 2` resp. `4^n + 2`) is proved sufficient, so `done` is always `true`.
-/
import PauLieVerif.Model.Closure
import PauLieVerif.Model.Graph

namespace PauLie
namespace Otoc
open Closure Graph

/-! ## `average_otoc`: core on bit lists -/

/-- state returned by the BFS: `visited` (most recent first), the two counters
of the source, and `done` (`true` iff the loop ended because the queue was empty) -/
structure Res where
  visited : List V
  anti : Nat
  size : Nat
  done : Bool
  deriving Repr, DecidableEq

/-- the strings appended to the queue while processing `t`
(`for g in generators: comm = t ^ g; if comm and comm not in visited: queue.append(comm)`),
`visited` already containing `t` -/
def children (gens : List V) (visited : List V) (t : V) : List V :=
  (expand gens t).filter (fun c => !visited.contains c)

/-- the `while queue:` loop.  Arguments: fuel, `visited`, `queue`,
`anti_commute_count`, `v_connected_component_size`. -/
def otocLoop (gens : List V) (w : V) : Nat → List V → List V → Nat → Nat → Res
  | 0, vis, q, a, s => ⟨vis, a, s, q.isEmpty⟩
  | _ + 1, vis, [], a, s => ⟨vis, a, s, true⟩
  | fuel + 1, vis, t :: rest, a, s =>
    if vis.contains t then otocLoop gens w fuel vis rest a s          -- `continue`
    else
      otocLoop gens w fuel (t :: vis) (rest ++ children gens (t :: vis) t)
        (if omega w t then a + 1 else a)                              -- `if not w | t`
        (s + 1)

/-- every processed string enqueues at most `|G|` strings and at most `4^n`
strings are processed, so at most `4^n * |G| + 1` iterations happen -/
def otocFuel (ngens : Nat) (n : Nat) : Nat := 4 ^ n * ngens + 2

def otocCore (gens : List V) (v w : V) : Res :=
  otocLoop gens w (otocFuel gens.length (v.length / 2)) [] [v] 0 0

/-! ## `average_otoc`: source level -/

structure ResPS where
  visited : List PS
  anti : Nat
  size : Nat
  done : Bool
  deriving Repr, DecidableEq

/-- the `for g in generators:` loop; `q` is the queue being appended to -/
def pushComms (t : PS) (visited : List PS) : List PS → List PS → Except Err (List PS)
  | [], q => .ok q
  | g :: gs, q => do
    match ← t.adjointMap g with                       -- `comm = t ^ g`
    | none => pushComms t visited gs q
    | some c =>
      -- `if comm and comm not in visited` (`bool(comm)` is `len(comm) > 0`)
      if c.len > 0 ∧ containsPS visited c = false then pushComms t visited gs (q ++ [c])
      else pushComms t visited gs q

def loopPS (gens : List PS) (w : PS) : Nat → List PS → List PS → Nat → Nat → Except Err ResPS
  | 0, vis, q, a, s => .ok ⟨vis, a, s, q.isEmpty⟩
  | _ + 1, vis, [], a, s => .ok ⟨vis, a, s, true⟩
  | fuel + 1, vis, t :: rest, a, s =>
    if containsPS vis t then loopPS gens w fuel vis rest a s
    else do
      let cw ← w.commutesWith t                        -- `w | t`
      let q ← pushComms t (t :: vis) gens rest
      loopPS gens w fuel (t :: vis) q (if cw then a else a + 1) (s + 1)

/-- `average_otoc(generators, v, w)` up to the final `1 - 2 * anti / size` -/
def averageOtoc (gens : List PS) (v w : PS) : Except Err ResPS :=
  loopPS gens w (otocFuel gens.length v.len) [] [v] 0 0

/-! ## `average_graph_complexity` -/

/-- neighbours of `x` in an undirected edge list (`nx.Graph.add_edges_from`) -/
def adjV (edges : List (V × V)) (x : V) : List V :=
  edges.filterMap (fun e => if e.1 == x then some e.2 else if e.2 == x then some e.1 else none)

/-- `nx.shortest_path_length(G, source)` = networkx `_single_shortest_path_length`:
level-synchronous BFS yielding `(node, level)`.  Arguments: fuel, the pairs
yielded so far (`seen` = their first components), the current level's nodes,
the current level. -/
def layers (nbrs : V → List V) : Nat → List (V × Nat) → List V → Nat → List (V × Nat) × Bool
  | 0, spl, fr, _ => (spl, fr.isEmpty)
  | _ + 1, spl, [], _ => (spl, true)
  | fuel + 1, spl, x :: fr, d =>
    let next := dedup (((x :: fr).flatMap nbrs).filter (fun y => !(spl.map Prod.fst).contains y))
    layers nbrs fuel (spl ++ next.map (fun y => (y, d + 1))) next (d + 1)

/-- shortest path lengths from `v` with fuel for `4^n + 2` levels -/
def splCore (nbrs : V → List V) (v : V) : List (V × Nat) × Bool :=
  layers nbrs (4 ^ (v.length / 2) + 2) [(v, 0)] [v] 0

inductive AErr where
  | base (e : Err)
  | keyError
  deriving DecidableEq, Repr

def AErr.toString : AErr → String
  | .base e => e.toString
  | .keyError => "KeyError"

/-- `average_graph_complexity(generators, p)` up to the final division: returns
`(sum(spl.values()), subgraph.number_of_nodes(), done)`.  The networkx graph is
keyed by the printed names of the strings; the model keys it by `bits` (the
same information for strings of even bit length).  `nx.node_connected_component`
raises `KeyError` for a name that is not a node.  The component of `p` and the
key set of `spl` are the same node set (one BFS here, two inside networkx). -/
def averageGraphComplexity (gens : List PS) (p : PS) : Except AErr (Nat × Nat × Bool) :=
  match getCommutatorGraph gens with
  | .error e => .error (.base e)
  | .ok (vs, es) =>
    let nodes := vs.map (·.bits)
    let edges := es.map (fun e => (e.1.bits, e.2.bits))
    if nodes.contains p.bits = false then .error .keyError
    else
      let r := splCore (adjV edges) p.bits
      .ok ((r.1.map Prod.snd).sum, r.1.length, r.2)

/-! ## `fourpoint` -/

/-- `fourpoint(generators, p, q, r, s)`: `none` is the literal `0` of the last
line, `some res` the delegated `average_otoc(generators, p, q)` -/
def fourpoint (gens : List PS) (p q r s : PS) : Except Err (Option ResPS) := do
  let commutant ← getCommutants gens
  let rp ← r.multiply p
  let qs ← q.multiply s
  -- `rp == qs and qs in commutant` (the collection has no `__contains__`: iteration with `==`)
  if rp.beq qs ∧ containsPS commutant qs then
    match averageOtoc gens p q with
    | .ok R => .ok (some R)
    | .error e => .error e
  else .ok none

end Otoc
end PauLie
