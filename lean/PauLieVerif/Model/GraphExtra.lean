/-
Model of the collection-level graph helpers next to C14:
`PauliString.get_commutants / get_anti_commutants / get_nested`
(`common/pauli_string_bitarray.py`), `PauliStringCollection.get_anti_commutants`,
`get_commutates`, `get_anti_commutates`, `get_frame_potential`
(`common/pauli_string_collection.py`) and `application/charges.py`
(`non_commuting_charges`).

Odd branches kept as they are in the source:
 * `self | g` raises ValueError for strings of different lengths, so a search list with a
   string of another length makes the whole call raise (the list comprehension is all or nothing);
   in `get_commutates` / `get_anti_commutates` the test `g != pauli_string` comes first, but a
   string of another length is always `!=`, so the comparison is reached and raises;
 * `PauliStringCollection.get_anti_commutants(generators)` iterates `for p in self` with the
   collection's OWN cursor (`__iter__` returns `self` and resets `nextpos`).  If the caller passes
   the collection itself as `generators`, the inner comprehension iterates the same object, leaves
   the cursor at the end, and the outer loop stops after the FIRST member (`AntiArg.same`);
 * `generators=None` means "all strings of that length" only in the first round; an EMPTY search
   collection is not `None` and gives an empty result;
 * `get_nested` collects the pairs in a `set` (modelled: first occurrences, the protocol sorts);
 * `get_frame_potential`: `nx.isolates` are the vertices without an incident edge.
-/
import PauLieVerif.Model.Graph

namespace PauLie
namespace GraphExtra
open Graph

/-- `PauliString.get_commutants(generators)` -/
def psCommutants (p : PS) (gens : Option (List PS)) : Except Err (List PS) :=
  (gens.getD (PS.genAll p.len)).filterM (fun g => p.commutesWith g)

/-- `PauliString.get_anti_commutants(generators)` -/
def psAntiCommutants (p : PS) (gens : Option (List PS)) : Except Err (List PS) :=
  (gens.getD (PS.genAll p.len)).filterM (fun g => do return !(← p.commutesWith g))

def containsPair (l : List (PS × PS)) (x : PS × PS) : Bool :=
  l.any (fun y => y.1.beq x.1 && y.2.beq x.2)

def dedupPairs (l : List (PS × PS)) : List (PS × PS) :=
  l.foldl (fun acc x => if containsPair acc x then acc else acc ++ [x]) []

/-- the canonical pair `(g, adj) if g < adj else (adj, g)` with `adj = g @ self` -/
def nestedPair (p g : PS) : Except Err (PS × PS) := do
  let adj ← g.multiply p
  return if g.lt adj then (g, adj) else (adj, g)

/-- `PauliString.get_nested(generators)`: distinct canonical pairs, in order of first occurrence
(Python: `list(set(...))`, order unspecified) -/
def psNested (p : PS) (gens : Option (List PS)) : Except Err (List (PS × PS)) := do
  let anti ← psAntiCommutants p gens
  let pairs ← anti.mapM (nestedPair p)
  return dedupPairs pairs

/-- the `generators` argument of `PauliStringCollection.get_anti_commutants` -/
inductive AntiArg where
  | none                    -- `None`: all strings of the length of the first member
  | same                    -- the collection object itself
  | other (h : List PS)     -- another collection object
  deriving Repr, Inhabited

/-- one round of `for p in self: generators = PauliStringCollection(p.get_anti_commutants(generators))` -/
def antiRound (gens : Option (List PS)) (p : PS) : Except Err (Option (List PS)) := do
  return some (← collInit (← psAntiCommutants p gens))

/-- `PauliStringCollection.get_anti_commutants(generators)` -/
def collAntiCommutants (self : List PS) (arg : AntiArg) : Except Err (List PS) :=
  match self with
  | [] => .ok []
  | p :: rest =>
    match arg with
    | .same => do
      -- the inner iteration over `self` exhausts the shared cursor: one round only
      collInit (← psAntiCommutants p (some (p :: rest)))
    | .none => do
      return ((← (p :: rest).foldlM antiRound none).getD [])
    | .other h => do
      return ((← (p :: rest).foldlM antiRound (some h)).getD [])

/-- `PauliStringCollection.get_commutates(pauli_string, generators)` (`None` = the members) -/
def collCommutates (self : List PS) (p : PS) (gens : Option (List PS)) : Except Err (List PS) := do
  let l ← (gens.getD self).filterM (fun g => if g.beq p then pure false else g.commutesWith p)
  collInit l

/-- `PauliStringCollection.get_anti_commutates(pauli_string, generators)` -/
def collAntiCommutates (self : List PS) (p : PS) (gens : Option (List PS)) : Except Err (List PS) := do
  let l ← (gens.getD self).filterM (fun g => if g.beq p then pure false else do return !(← p.commutesWith g))
  collInit l

/-- vertices without an incident edge (`nx.isolates`) -/
def isolates (verts : List PS) (edges : List (PS × PS)) : List PS :=
  (dedupPS verts).filter (fun v => !edges.any (fun e => e.1.beq v || e.2.beq v))

/-- `get_frame_potential()`: (number of connected components, number of isolated vertices) of the
commutator graph; the source returns the product -/
def frameParts (gens : List PS) : Except Err (Nat × Nat) := do
  let (vs, es) ← getCommutatorGraph gens
  return ((components vs es).length, (isolates vs es).length)

def framePotential (gens : List PS) : Except Err Nat := do
  let (c, i) ← frameParts gens
  return c * i

/-- `non_commuting_charges(generators)`: members of the commutant that anticommute with another
member of the commutant, in order of first appearance in `combinations(comm, 2)` -/
def chargesOf (comm : List PS) : Except Err (List PS) :=
  (combinations2 comm).foldlM (fun (acc : List PS) (cq : PS × PS) => do
    if !(← cq.1.commutesWith cq.2) then
      let acc := if containsPS acc cq.1 then acc else acc ++ [cq.1]
      return (if containsPS acc cq.2 then acc else acc ++ [cq.2])
    else return acc) []

def nonCommutingCharges (gens : List PS) : Except Err (List PS) := do
  chargesOf (← getCommutants gens)

end GraphExtra
end PauLie
