/-
Model of the optimiser of property C20
  src/paulie/application/get_optimal_su2_n.py : get_optimal_edges_su_2_n, get_optimal_su_2_n_generators
  src/paulie/common/pauli_string_collection.py : list_connections, _get_delta, find_generators_with_connection

The only randomness of the source is `randint(0, i)` in the inner `while True` loop.
`iterate` performs one pass of the outer loop up to that point and returns either the
greedy choice or, when the inner loop is entered, the table "index ↦ what happens" for
every index `randint(0, i)` can return.  `run` follows a given stream of random values
(correspondence with the implementation), `explore` follows *every* choice (decision over
all seeds).
-/
import PauLieVerif.Model.Collection

namespace PauLie
namespace Optimise
open Collection

/-- `get_optimal_edges_su_2_n(ng)`: `floor(0.706 * ng(ng-1)/2)`, `-1` when there is no pair.
(exact arithmetic; the harness checks the float computation agrees for every `ng` it can meet) -/
def optimalEdges (ng : Nat) : Int :=
  let total := ng * (ng - 1) / 2
  if total < 1 then -1 else ((706 * total) / 1000 : Nat)

/-- keep the anticommuting pairs (`if not x | y`) -/
def filterAnti : List (PS × PS) → Except Err (List (PS × PS))
  | [] => .ok []
  | (x, y) :: rest => do
    let c ← x.commutesWith y
    let r ← filterAnti rest
    return if c then r else (x, y) :: r

/-- `list_connections()`: the anticommuting pairs in `combinations` order -/
def listConnections (g : List PS) : Except Err (List (PS × PS)) :=
  filterAnti (Graph.combinations2 g)

/-- `gx = generators.copy(); gx.contract(x, y)` on the list -/
def contractCopy (g : List PS) (x y : PS) : Except Err (List PS) := do
  let c ← Graph.collInit g
  match editList c (.contract x y) with
  | (g', _, none) => return g'
  | (_, _, some e) => throw e

/-- `_get_delta(generators, number)` -/
def delta (number : Int) (g : List PS) : Except Err Int := do
  return number - (← Graph.anticommutationPair g)

/-- what `randint(0, i)` returning this index leads to -/
inductive Inner where
  | exit (g : List PS)     -- `delta_x > 0`: the loop is left with `gx`
  | retry                  -- neither test succeeds: the loop draws again
  | indexError             -- `list_connections[index]` is out of range
  deriving Repr

inductive Iter where
  | finished                        -- `delta == 0`: break
  | greedy (g : List PS)            -- the for-loop found an improvement (or `delta ≠ delta_min`)
  | inner (opts : List Inner)       -- the `while True` loop is entered; one entry per index `0..i`
  deriving Repr

/-- one turn of the greedy for-loop on the state `(current_generators, delta_min)`;
`continue` = the state is returned unchanged -/
def greedyStep (number : Int) (g : List PS) (acc : List PS × Int) (xy : PS × PS) :
    Except Err (List PS × Int) := do
  let gx ← contractCopy g xy.1 xy.2
  let gy ← contractCopy g xy.2 xy.1
  let dx ← delta number gx
  let dy ← delta number gy
  if dx.natAbs < dy.natAbs then
    if dx < 0 then return acc
    else if acc.2.natAbs > dx.natAbs then return (gx, (dx.natAbs : Int))
    else return acc
  else
    if dy < 0 then return acc
    else if acc.2.natAbs > dy.natAbs then return (gy, (dy.natAbs : Int))
    else return acc

/-- the greedy for-loop: returns `(current_generators, delta_min)` -/
def greedyPass (number : Int) (g : List PS) (lc : List (PS × PS)) (d : Int) :
    Except Err (List PS × Int) := do
  let cur ← Graph.collInit g          -- `generators.copy()`
  lc.foldlM (greedyStep number g) (cur, d)

/-- what index `idx` of the inner loop leads to -/
def innerOne (number : Int) (g : List PS) (lc : List (PS × PS)) (idx : Nat) : Except Err Inner :=
  match lc[idx]? with
  | none => pure Inner.indexError
  | some (x, y) => do
    let gx ← contractCopy g x y
    let gy ← contractCopy g y x
    let dx ← delta number gx
    let _ ← delta number gy
    -- `if delta_x > 0: gx; if delta_x > 0: gy` — the second test repeats the first
    if dx > 0 then pure (Inner.exit gx) else pure Inner.retry

def innerTable (number : Int) (g : List PS) (lc : List (PS × PS)) (i : Nat) :
    Except Err (List Inner) :=
  (List.range (i + 1)).mapM (innerOne number g lc)

/-- one pass of `while i < max_iter` up to the random choice -/
def iterate (number : Int) (g : List PS) (i : Nat) : Except Err Iter := do
  let d ← delta number g
  if d == 0 then return .finished
  let lc ← listConnections g
  let (cur, dmin) ← greedyPass number g lc d
  if d == dmin then
    return .inner (← innerTable number g (← listConnections g) i)
  else
    return .greedy cur

inductive Outcome where
  | ok (g : List PS)
  | error (e : Err)
  | outOfRandom          -- the given stream of random values is used up inside the inner loop
  deriving Repr

/-- draw from the stream until an index exits or raises -/
def drawInner (opts : List Inner) (i : Nat) : List Nat → Option (Inner × List Nat)
  | [] => none
  | r :: rs =>
    match opts[r % (i + 1)]? with
    | some Inner.retry => drawInner opts i rs
    | some o => some (o, rs)
    | none => some (Inner.indexError, rs)

/-- `find_generators_with_connection` from the loop on, following the stream `rnd` -/
def runLoop (number : Int) (maxIter : Nat) : Nat → List PS → Nat → List Nat → Outcome
  | 0, g, _, _ => .ok g
  | fuel + 1, g, i, rnd =>
    if i < maxIter then
      match iterate number g i with
      | .error e => .error e
      | .ok .finished => .ok g
      | .ok (.greedy g') => runLoop number maxIter fuel g' (i + 1) rnd
      | .ok (.inner opts) =>
        match drawInner opts i rnd with
        | none => .outOfRandom
        | some (Inner.exit g', rnd') => runLoop number maxIter fuel g' (i + 1) rnd'
        | some (Inner.retry, _) => .outOfRandom
        | some (Inner.indexError, _) => .error .indexError
    else .ok g

/-- `find_generators_with_connection(number)` on a collection whose canonical vertices are `verts` -/
def findGenerators (verts : List PS) (number : Int) (rnd : List Nat) : Outcome :=
  let maxIter := (number / 2).toNat       -- `number // 2` (number ≥ 0 here)
  match Graph.collInit verts with
  | .error e => .error e
  | .ok g => runLoop number maxIter (maxIter + 1) g 0 rnd

/-- decision over *all* random choices: every reachable final collection, and whether some
choice sequence gets stuck forever (`stuck`: an inner loop none of whose indices exits) or can
raise `IndexError` (`mayRaise`) -/
structure Explored where
  results : List (List PS)
  stuck : Bool
  mayRaise : Bool
  errors : List Err
  deriving Repr

def Explored.merge (a b : Explored) : Explored :=
  ⟨a.results ++ b.results, a.stuck || b.stuck, a.mayRaise || b.mayRaise, a.errors ++ b.errors⟩

def exploreLoop (number : Int) (maxIter : Nat) : Nat → List PS → Nat → Explored
  | 0, g, _ => ⟨[g], false, false, []⟩
  | fuel + 1, g, i =>
    if i < maxIter then
      match iterate number g i with
      | .error e => ⟨[], false, false, [e]⟩
      | .ok .finished => ⟨[g], false, false, []⟩
      | .ok (.greedy g') => exploreLoop number maxIter fuel g' (i + 1)
      | .ok (.inner opts) =>
        let exits := opts.filterMap (fun o => match o with | Inner.exit g' => some g' | _ => none)
        let raises := opts.any (fun o => match o with | Inner.indexError => true | _ => false)
        let base : Explored := ⟨[], exits.isEmpty && !raises, raises, []⟩
        exits.foldl (fun acc g' => acc.merge (exploreLoop number maxIter fuel g' (i + 1))) base
    else ⟨[g], false, false, []⟩

def exploreAll (verts : List PS) (number : Int) : Explored :=
  let maxIter := (number / 2).toNat
  match Graph.collInit verts with
  | .error e => ⟨[], false, false, [e]⟩
  | .ok g => exploreLoop number maxIter (maxIter + 1) g 0

end Optimise
end PauLie
