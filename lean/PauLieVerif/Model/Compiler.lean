/-
Model of the *non-search* part of `src/paulie/application/pauli_compiler.py`
(properties C05, C06, C07) together with the two factory functions it calls
(`get_identity`, `get_single` of `common/pauli_string_factory.py`).

Modelled, branch by branch:
  `left_a_minimal`, `choose_u_for_b`, `construct_universal_set` (guard → ValueError),
  `_ad_apply`, `_nested_commutator_result`, `_sequence_to_paulie_orientation`,
  the guards and the slicing of `compile_target` / `OptimalPauliCompiler.__init__`.

The search procedures (`SubsystemCompiler.subsystem_compiler`,
`left_map_over_a`, `_case3_best_reordering`, `_bfs_case3`, `compile`, `compile_target`
end to end) are modelled in `Model/CompilerSearch.lean`, on top of this file.  The
property "every returned sequence is valid" is decided per output by the
validator `validSeq` below (whose meaning is proved in `Properties/C05.lean`).

Import-free apart from the model's own substrate.
-/
import PauLieVerif.Model.PS
import PauLieVerif.Model.Parser

namespace PauLie
namespace Compiler

/-- `get_identity(n)` = `PauliString(n=n)`; negative `n` raises ValueError (bitarray). -/
def getIdentity (n : Int) : Except Err PS := PS.identity n

/-- `get_single(n, i, label)`: `p = get_identity(n); p[i] = label` (`__setitem__` is
`set_substring`, which turns the one-letter text into a Pauli string first). -/
def getSingle (n i : Int) (l : Letter) : Except Err PS := do
  let p ← getIdentity n
  match PS.setSubstring p i (PS.ofLetters [l]) with
  | (p', none) => return p'
  | (_, some e) => throw e

/-- `get_pauli_string("Z" * k)`: the parser on a text of `k` letters `Z`
(`"Z" * k` is the empty text for `k ≤ 0`). -/
def zAll (k : Int) : Except Err PS := Parser.mkPS (List.replicate k.toNat 'Z')

/-- `left_a_minimal(k)`: `X_i, Z_i` for `i in range(k)` (in this order), then `Z…Z`. -/
def leftAMinimal (k : Int) : Except Err (List PS) := do
  let pairs ← (List.range k.toNat).mapM (fun (i : Nat) => do
    let x ← getSingle k i .X
    let z ← getSingle k i .Z
    return [x, z])
  let zall ← zAll k
  return pairs.flatten ++ [zall]

/-- `choose_u_for_b(k)` = `get_single(k, 0, "X")` -/
def chooseUForB (k : Int) : Except Err PS := getSingle k 0 .X

/-- `construct_universal_set(n_total, k)` -/
def universalSet (nTotal k : Int) : Except Err (List PS) := do
  if ¬ (1 ≤ k ∧ k < nTotal) then throw .valueError
  let aK ← leftAMinimal k
  let nRight := nTotal - k
  let u ← chooseUForB k
  let bx ← (List.range nRight.toNat).mapM (fun (j : Nat) => getSingle nRight j .X)
  let bz ← (List.range nRight.toNat).mapM (fun (j : Nat) => getSingle nRight j .Z)
  let idR ← getIdentity nRight
  let aPrime := aK.map (fun a => PS.tensor a idR)
  let bPrime := (bx ++ bz).map (fun b => PS.tensor u b)
  return aPrime ++ bPrime

/-- `_ad_apply(A, B)`: `None` if `B is None` or `A | B`, else `A @ B`. -/
def adApply (a : PS) (b : Option PS) : Except Err (Option PS) :=
  match b with
  | none => return none
  | some b => do
    if (← PS.commutesWith a b) then return none
    else return some (← PS.multiply a b)

/-- the `for A in G[1:]` loop of `_nested_commutator_result` -/
def nestedLoop (cur : PS) : List PS → Except Err (Option PS)
  | [] => return some cur
  | a :: rest => do
    match (← adApply a (some cur)) with
    | none => return none
    | some c => nestedLoop c rest

/-- `_nested_commutator_result(G)`, internal orientation `G = [base, A1, …, Am]`:
`[Am, [… [A1, base]]]` as a string, `None` if empty or some step commutes. -/
def nestedCommutatorResult : List PS → Except Err (Option PS)
  | [] => return none
  | g :: rest => nestedLoop g rest

/-- `_sequence_to_paulie_orientation(G)`: `[Am, …, A1, base]` -/
def toPublic : List PS → List PS
  | [] => []
  | base :: ops => ops.reverse ++ [base]

/-- The documented public evaluation of a returned sequence `[A_1, …, A_n]`
(`tests/test_pauli_compiler.py: nested_adjoint(seq[:-1], seq[-1])`):
`ad_{A_1} … ad_{A_{n-1}} (A_n) = [A_1, [A_2, [… [A_{n-1}, A_n]]]]`, each step by
`PauliString.adjoint_map` (`op ^ current`); `None` as soon as a step commutes.
The empty sequence has no value (`None`). -/
def nestedPublic : List PS → Except Err (Option PS)
  | [] => return none
  | [x] => return some x
  | a :: rest => do
    match (← nestedPublic rest) with
    | none => return none
    | some c => PS.adjointMap a c

/-- The validator of property C05: the sequence is non-empty, every element
belongs to the universal set of `(N, k)`, and the nested commutator in the public
orientation is non-zero and is the target string (up to the phase, which
strings do not carry). -/
def validSeq (nTotal k : Int) (target : PS) (seq : List PS) : Bool :=
  match universalSet nTotal k with
  | .error _ => false
  | .ok u =>
    !seq.isEmpty && seq.all (fun x => u.contains x) &&
      (match nestedPublic seq with
       | .ok (some r) => r == target
       | _ => false)

/-- `OptimalPauliCompiler.__init__` guard (also `SubsystemCompiler.__init__`) -/
def compilerInit (kLeft : Int) : Except Err Unit :=
  if kLeft < 2 then throw .valueError else return ()

/-- `compile_target(target, k_left)` up to the call of `compile(V, W)`: guard,
slicing, constructor guard.  Returns `(V, W)`. -/
def compileTargetFront (target : PS) (kLeft : Int) : Except Err (PS × PS) := do
  let n : Int := target.len
  if ¬ (1 ≤ kLeft ∧ kLeft < n) then throw .valueError
  let v := target.getSubstring 0 kLeft
  let w := target.getSubstring kLeft (n - kLeft)
  compilerInit kLeft
  return (v, w)


/-! ### Outputs of `compile_target` observed on the implementation

Recorded observations of the first slice (command `witness N k TARGET`, replayed on the
implementation on every run).  Since the search is modelled they are also DERIVED facts:
`C05.observed_are_model_runs`, `C06.observed_raises_are_model_runs` (kernel-evaluated runs of
`Compiler.compileTarget`). -/

/-- `(N, k, target) ↦ returned sequence` -/
def observedReturns : List ((Int × Int × PS) × List PS) :=
  [ ((3, 2, PS.ofLetters [.Y, .I, .Y]),
      [PS.ofLetters [.X, .I, .Z], PS.ofLetters [.Y, .I, .I], PS.ofLetters [.X, .I, .Z]]),
    ((3, 2, PS.ofLetters [.I, .I, .X]),
      [PS.ofLetters [.X, .I, .Z], PS.ofLetters [.Y, .I, .I], PS.ofLetters [.X, .I, .Z],
       PS.ofLetters [.Z, .I, .I], PS.ofLetters [.X, .I, .Z]]) ]

/-- `(N, k, target) ↦ exception type @ raising function` -/
def observedRaises : List ((Int × Int × PS) × String) :=
  [ ((4, 3, PS.ofLetters [.I, .X, .X, .X]), "RuntimeError@left_map_over_a"),
    ((4, 3, PS.ofLetters [.I, .X, .X, .I]), "RuntimeError@compile"),
    ((5, 2, PS.ofLetters [.I, .I, .X, .X, .X]), "RuntimeError@left_map_over_a") ]

end Compiler
end PauLie
