/-
Dense matrices of Pauli strings over the Gaussian integers, entry-wise:
`entry w r c = ∏ᵢ σ(wᵢ)(rᵢ,cᵢ)`; rows/columns are bit lists, first letter most
significant (the layout `np.kron` produces in `get_matrix`).
-/
import PauLieVerif.Model.PS

namespace PauLie

structure GI where
  re : Int
  im : Int
  deriving DecidableEq, Repr, Inhabited

namespace GI
def zero : GI := ⟨0, 0⟩
def one : GI := ⟨1, 0⟩
def mul (a b : GI) : GI := ⟨a.re * b.re - a.im * b.im, a.re * b.im + a.im * b.re⟩
def add (a b : GI) : GI := ⟨a.re + b.re, a.im + b.im⟩
def neg (a : GI) : GI := ⟨-a.re, -a.im⟩
instance : Mul GI := ⟨mul⟩
instance : Add GI := ⟨add⟩
instance : Neg GI := ⟨neg⟩
def toString (a : GI) : String := s!"{a.re}:{a.im}"
/-- `(-i)^k` -/
def negIPow (k : Nat) : GI :=
  match k % 4 with
  | 0 => ⟨1, 0⟩ | 1 => ⟨0, -1⟩ | 2 => ⟨-1, 0⟩ | _ => ⟨0, 1⟩
end GI

/-- The four 2×2 matrices `SI, SX, SY, SZ` of the source, `σ l r c`. -/
def sigma : Letter → Bool → Bool → GI
  | .I, r, c => if r == c then ⟨1, 0⟩ else ⟨0, 0⟩
  | .X, r, c => if r != c then ⟨1, 0⟩ else ⟨0, 0⟩
  | .Y, false, true => ⟨0, -1⟩
  | .Y, true, false => ⟨0, 1⟩
  | .Y, _, _ => ⟨0, 0⟩
  | .Z, false, false => ⟨1, 0⟩
  | .Z, true, true => ⟨-1, 0⟩
  | .Z, _, _ => ⟨0, 0⟩

def entry : List Letter → List Bool → List Bool → GI
  | l :: w, r :: rs, c :: cs => sigma l r c * entry w rs cs
  | _, _, _ => GI.one

/-- all bit lists of length n in increasing big-endian order -/
def allBits : Nat → List (List Bool)
  | 0 => [[]]
  | n + 1 => (allBits n).map (false :: ·) ++ (allBits n).map (true :: ·)

/-- row-major dense matrix of a word -/
def denseMatrix (w : List Letter) : List (List GI) :=
  (allBits w.length).map (fun r => (allBits w.length).map (fun c => entry w r c))

end PauLie
