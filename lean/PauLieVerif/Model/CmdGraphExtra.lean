/-
Protocol commands of `Model/GraphExtra.lean`.

  pscomm <P> <L|None>             `P.get_commutants(L)` (L a plain list, may hold strings of several lengths)
  psanti <P> <L|None>             `P.get_anti_commutants(L)`
  nested <P> <L|None>             `P.get_nested(L)`: pairs `a~b`, sorted by text (Python returns `list(set)`)
  anticommutants <G> <H|None|self> `PauliStringCollection(G).get_anti_commutants(H)`; `self` passes the collection itself
  commutates <G> <P> <H|None>     `PauliStringCollection(G).get_commutates(P, H)` (H a collection)
  anticommutates <G> <P> <H|None> `... .get_anti_commutates(P, H)`
  frame <G>                       `get_frame_potential()` with its two factors
  charges <G>                     `non_commuting_charges(PauliStringCollection(G))`, in order
-/
import PauLieVerif.Model.Proto
import PauLieVerif.Model.GraphExtra

namespace PauLie
namespace CmdGraphExtra
open Proto Graph GraphExtra

def optList? (s : String) : Option (Option (List PS)) :=
  if s == "None" then some none else (psList? s).map some

def showPairs (l : List (PS × PS)) : String :=
  let ss := (l.map (fun (a, b) => s!"{showPS a}~{showPS b}")).mergeSort (fun a b => a ≤ b)
  if ss.isEmpty then "-" else String.intercalate "," ss

/-- `PauliStringCollection(H)` for an optional argument -/
def optColl (h : Option (List PS)) : Except Err (Option (List PS)) :=
  match h with
  | none => .ok none
  | some l => do return some (← collInit l)

def handle (line : String) : Option String :=
  match line.splitOn " " with
  | ["pscomm", p, l] => do
    let p ← ps? p
    let l ← optList? l
    return showExcept showPSList (psCommutants p l)
  | ["psanti", p, l] => do
    let p ← ps? p
    let l ← optList? l
    return showExcept showPSList (psAntiCommutants p l)
  | ["nested", p, l] => do
    let p ← ps? p
    let l ← optList? l
    return showExcept showPairs (psNested p l)
  | ["anticommutants", gs, h] => do
    let gs ← psList? gs
    if h == "self" then
      return showExcept showPSList (do collAntiCommutants (← collInit gs) .same)
    else
      let h ← optList? h
      return showExcept showPSList (do
        let c ← collInit gs
        match ← optColl h with
        | none => collAntiCommutants c .none
        | some hc => collAntiCommutants c (.other hc))
  | ["commutates", gs, p, h] => do
    let gs ← psList? gs
    let p ← ps? p
    let h ← optList? h
    return showExcept showPSList (do
      let c ← collInit gs
      collCommutates c p (← optColl h))
  | ["anticommutates", gs, p, h] => do
    let gs ← psList? gs
    let p ← ps? p
    let h ← optList? h
    return showExcept showPSList (do
      let c ← collInit gs
      collAntiCommutates c p (← optColl h))
  | ["frame", gs] => do
    let gs ← psList? gs
    return showExcept (fun (r : Nat × Nat) => s!"comps={r.1} iso={r.2} fp={r.1 * r.2}") (do frameParts (← collInit gs))
  | ["charges", gs] => do
    let gs ← psList? gs
    return showExcept showPSList (do nonCommutingCharges (← collInit gs))
  | _ => none

end CmdGraphExtra
end PauLie
