/-
Specification of the commutator closure of a set of Pauli strings (the Pauli
basis of the dynamical Lie algebra), of its right-nested variant, and of the
orbit of a string under the generators.  Vectors are `Closure.V = List Bool`
(interleaved x/z bits); `omega` is the symplectic form (anticommutation),
`add` the product up to phase.  `Proofs/Closure.lean` proves that
`Closure.closureList` enumerates exactly `Clo`.
-/
import PauLieVerif.Model.Closure

namespace PauLie
namespace Closure

/-- all generators are strings on `n` qubits -/
def Uniform (n : Nat) (G : List V) : Prop := ∀ g ∈ G, g.length = 2 * n

instance (n : Nat) (G : List V) : Decidable (Uniform n G) := by
  unfold Uniform; exact inferInstance

/-- the commutator closure: least set containing `G` and closed under products
of anticommuting members -/
inductive Clo (G : List V) : V → Prop
  | base {x : V} : x ∈ G → Clo G x
  | step {x y : V} : Clo G x → Clo G y → omega x y = true → Clo G (add x y)

/-- right-nested commutators: only products with an anticommuting *generator* -/
inductive Nest (G : List V) : V → Prop
  | base {x : V} : x ∈ G → Nest G x
  | step {x g : V} : Nest G x → g ∈ G → omega x g = true → Nest G (add x g)

/-- orbit of `v`: least set containing `v` closed under `x ↦ x + g` for a
generator `g` anticommuting with `x` -/
inductive Orbit (G : List V) (v : V) : V → Prop
  | base : Orbit G v v
  | step {x g : V} : Orbit G v x → g ∈ G → omega x g = true → Orbit G v (add x g)

/-- `G` with every occurrence of `a` replaced by `c` -/
def replaceGen (G : List V) (a c : V) : List V :=
  G.map (fun g => if g = a then c else g)

end Closure
end PauLie
