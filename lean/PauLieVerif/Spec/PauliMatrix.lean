/-
Mathematical vocabulary for the matrix-level properties (C04 and friends).

* `σ l`   : the four standard 2×2 Pauli matrices over `ℂ` (Mathlib `Matrix`);
* `M P`   : for `P : Fin n → Letter` the `2^n × 2^n` matrix, rows/columns indexed
            by `Fin n → Fin 2`, defined entry-wise as the product of the factor
            entries (this *is* the iterated Kronecker product, see `M_cons`);
* `GI.toComplex`, `sigma_toComplex`, `entry_toComplex` : the executable model
  matrix of `PauLieVerif/Model/Matrix.lean` (which the harness compares entry by
  entry with numpy's `get_matrix()`) is literally `M`;
* `vecOf n w`, `PS.vec n p` : decode a letter list / a model Pauli string to
  `Fin n → Letter`.
-/
import Mathlib.Data.Complex.Basic
import Mathlib.Data.Matrix.Mul
import Mathlib.LinearAlgebra.Matrix.Notation
import Mathlib.LinearAlgebra.Matrix.Kronecker
import Mathlib.Algebra.BigOperators.Pi
import Mathlib.Algebra.BigOperators.Ring.Finset
import Mathlib.Algebra.BigOperators.Fin
import Mathlib.Tactic.Ring
import Mathlib.Tactic.FinCases
import Mathlib.Tactic.NormNum
import Mathlib.Tactic.LinearCombination
import PauLieVerif.Model.Matrix

namespace PauLie

open Matrix Complex
open scoped Kronecker

/-- The standard Pauli matrices `SI, SX, SY, SZ`. -/
def σ : Letter → Matrix (Fin 2) (Fin 2) ℂ
  | .I => !![1, 0; 0, 1]
  | .X => !![0, 1; 1, 0]
  | .Y => !![0, -I; I, 0]
  | .Z => !![1, 0; 0, -1]

/-- The matrix of a Pauli string, entry-wise: `M P r c = ∏ᵢ σ(Pᵢ)(rᵢ, cᵢ)`.
Site `0` is the most significant index bit (big-endian, as `np.kron`). -/
def M {n : ℕ} (P : Fin n → Letter) : Matrix (Fin n → Fin 2) (Fin n → Fin 2) ℂ :=
  fun r c => ∏ i, σ (P i) (r i) (c i)

theorem M_apply {n : ℕ} (P : Fin n → Letter) (r c : Fin n → Fin 2) :
    M P r c = ∏ i, σ (P i) (r i) (c i) := rfl

/-! ### Gaussian integers of the model -/

/-- The Gaussian integer `re + im·i` as a complex number. -/
def GI.toComplex (a : GI) : ℂ := (a.re : ℂ) + (a.im : ℂ) * I

@[simp] theorem GI.toComplex_mk (a b : Int) : GI.toComplex ⟨a, b⟩ = (a : ℂ) + (b : ℂ) * I := rfl

theorem GI.toComplex_one : GI.toComplex GI.one = 1 := by
  simp [GI.one]

theorem GI.toComplex_mul (a b : GI) : (a * b).toComplex = a.toComplex * b.toComplex := by
  show (GI.mul a b).toComplex = _
  simp only [GI.mul, GI.toComplex]
  push_cast
  linear_combination ((a.im : ℂ) * (b.im : ℂ)) * Complex.I_mul_I.symm

theorem GI.toComplex_add (a b : GI) : (a + b).toComplex = a.toComplex + b.toComplex := by
  show (GI.add a b).toComplex = _
  simp only [GI.add, GI.toComplex]
  push_cast
  ring

theorem GI.toComplex_neg (a : GI) : (-a).toComplex = -a.toComplex := by
  show (GI.neg a).toComplex = _
  simp only [GI.neg, GI.toComplex]
  push_cast
  ring

theorem GI.toComplex_injective : Function.Injective GI.toComplex := by
  intro a b h
  have hre := congrArg Complex.re h
  have him := congrArg Complex.im h
  simp [GI.toComplex] at hre him
  cases a; cases b; simp_all

/-- `GI.negIPow k` is `(-i)^k`. -/
theorem GI.toComplex_negIPow (k : ℕ) : (GI.negIPow k).toComplex = (-I) ^ k := by
  have h4 : (-I : ℂ) ^ 4 = 1 := by
    have : (-I : ℂ) ^ 4 = (I * I) * (I * I) := by ring
    rw [this, Complex.I_mul_I]; norm_num
  have hk : (-I : ℂ) ^ k = (-I) ^ (k % 4) := by
    conv_lhs => rw [← Nat.div_add_mod k 4, pow_add, pow_mul, h4, one_pow, one_mul]
  rw [hk]
  unfold GI.negIPow
  have hlt : k % 4 < 4 := Nat.mod_lt _ (by norm_num)
  generalize k % 4 = m at hlt
  have h2 : (-I : ℂ) ^ 2 = -1 := by
    have : (-I : ℂ) ^ 2 = I * I := by ring
    rw [this, Complex.I_mul_I]
  have h3 : (-I : ℂ) ^ 3 = I := by
    have : (-I : ℂ) ^ 3 = -(I * I) * I := by ring
    rw [this, Complex.I_mul_I]; ring
  match m, hlt with
  | 0, _ => simp
  | 1, _ => simp
  | 2, _ => simp [h2]
  | 3, _ => simp [h3]

/-! ### Index conversion `Bool ↔ Fin 2` and lists ↔ functions -/

/-- A model index bit as a `Fin 2` index. -/
def bit (b : Bool) : Fin 2 := if b then 1 else 0

@[simp] theorem bit_false : bit false = 0 := rfl
@[simp] theorem bit_true : bit true = 1 := rfl

theorem bit_injective : Function.Injective bit := by
  intro a b; cases a <;> cases b <;> simp [bit]

/-- A bit list as an index `Fin n → Fin 2` (site `i` ↦ `i`-th bit). -/
def idxOf (n : ℕ) (r : List Bool) : Fin n → Fin 2 := fun i => bit (r.getD i false)

/-- A letter list as a function `Fin n → Letter`. -/
def vecOf (n : ℕ) (w : List Letter) : Fin n → Letter := fun i => w.getD i .I

/-- Decode a model Pauli string (via `PS.letters`, i.e. `str(self)`). -/
def PS.vec (n : ℕ) (p : PS) : Fin n → Letter := vecOf n p.letters

@[simp] theorem vecOf_cons_zero (n : ℕ) (l : Letter) (w : List Letter) :
    vecOf (n + 1) (l :: w) 0 = l := rfl

@[simp] theorem vecOf_cons_succ (n : ℕ) (l : Letter) (w : List Letter) (i : Fin n) :
    vecOf (n + 1) (l :: w) i.succ = vecOf n w i := by
  simp [vecOf]

@[simp] theorem idxOf_cons_zero (n : ℕ) (b : Bool) (r : List Bool) :
    idxOf (n + 1) (b :: r) 0 = bit b := rfl

@[simp] theorem idxOf_cons_succ (n : ℕ) (b : Bool) (r : List Bool) (i : Fin n) :
    idxOf (n + 1) (b :: r) i.succ = idxOf n r i := by
  simp [idxOf]

/-- Every `Fin n → Letter` is the decoding of a letter list of length `n`. -/
theorem vecOf_ofFn {n : ℕ} (P : Fin n → Letter) : vecOf n (List.ofFn P) = P := by
  funext i
  simp [vecOf, List.getD_eq_getElem?_getD]

/-- Every matrix index is the decoding of a bit list of length `n`. -/
theorem idxOf_surjective (n : ℕ) (r : Fin n → Fin 2) :
    ∃ l : List Bool, l.length = n ∧ idxOf n l = r := by
  refine ⟨List.ofFn (fun i => decide (r i = 1)), by simp, ?_⟩
  funext i
  have : ∀ x : Fin 2, bit (decide (x = 1)) = x := by decide
  simp [idxOf, List.getD_eq_getElem?_getD, this]

/-! ### The model's matrices are the spec matrices -/

/-- The model's 2×2 tables `sigma` (Bool indices) are the Pauli matrices `σ`. -/
theorem sigma_toComplex (l : Letter) (r c : Bool) :
    (sigma l r c).toComplex = σ l (bit r) (bit c) := by
  cases l <;> cases r <;> cases c <;> simp [sigma, σ]

/-- The model's executable matrix entry is the spec matrix entry. -/
theorem entry_toComplex (n : ℕ) (w : List Letter) (r c : List Bool)
    (hw : w.length = n) (hr : r.length = n) (hc : c.length = n) :
    (entry w r c).toComplex = M (vecOf n w) (idxOf n r) (idxOf n c) := by
  induction n generalizing w r c with
  | zero =>
    have : w = [] := List.length_eq_zero_iff.mp hw
    subst this
    simp [entry, M, GI.toComplex_one]
  | succ n ih =>
    match w, r, c, hw, hr, hc with
    | l :: w, a :: r, b :: c, hw, hr, hc =>
      have hw' : w.length = n := by simpa using hw
      have hr' : r.length = n := by simpa using hr
      have hc' : c.length = n := by simpa using hc
      rw [M_apply, Fin.prod_univ_succ]
      simp only [vecOf_cons_zero, vecOf_cons_succ, idxOf_cons_zero, idxOf_cons_succ]
      rw [entry, GI.toComplex_mul, sigma_toComplex, ih w r c hw' hr' hc', M_apply]

/-- `allBits n` enumerates exactly the bit lists of length `n`
(the row / column labels of `denseMatrix`). -/
theorem mem_allBits (n : ℕ) (r : List Bool) : r ∈ allBits n ↔ r.length = n := by
  induction n generalizing r with
  | zero => simp [allBits, List.length_eq_zero_iff]
  | succ n ih =>
    cases r with
    | nil => simp [allBits]
    | cons a r => cases a <;> simp [allBits, ih]

/-- Every entry of the model's dense matrix is an entry of `M`. -/
theorem denseMatrix_entry (w : List Letter) (i j : ℕ)
    (hi : i < (allBits w.length).length) (hj : j < (allBits w.length).length) :
    ∃ (h₁ : i < (denseMatrix w).length) (h₂ : j < ((denseMatrix w)[i]).length),
      (((denseMatrix w)[i])[j]).toComplex
        = M (vecOf w.length w) (idxOf w.length (allBits w.length)[i])
            (idxOf w.length (allBits w.length)[j]) := by
  refine ⟨by simpa [denseMatrix] using hi, by simpa [denseMatrix] using hj, ?_⟩
  simp only [denseMatrix, List.getElem_map]
  exact entry_toComplex _ w _ _ rfl
    ((mem_allBits _ _).mp (List.getElem_mem hi)) ((mem_allBits _ _).mp (List.getElem_mem hj))

/-! ### Kronecker layout -/

/-- `M (l :: P) = σ l ⊗ₖ M P` up to splitting an index into (first bit, rest):
the first letter is the most significant Kronecker factor (`np.kron` layout). -/
theorem M_cons {n : ℕ} (l : Letter) (P : Fin n → Letter) :
    M (Fin.cons l P : Fin (n + 1) → Letter)
      = (σ l ⊗ₖ M P).submatrix (fun r => (r 0, Fin.tail r)) (fun c => (c 0, Fin.tail c)) := by
  ext r c
  simp [M_apply, Fin.prod_univ_succ, Matrix.kroneckerMap_apply, Fin.tail]

/-- The empty Pauli string is the 1×1 identity. -/
theorem M_zero (P : Fin 0 → Letter) : M P = 1 := by
  ext r c
  have : r = c := Subsingleton.elim _ _
  subst this
  simp [M_apply]

end PauLie
