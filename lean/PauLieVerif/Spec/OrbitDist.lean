/-
Specification vocabulary for C15: walks and shortest-path distance inside the
orbit of a string under the generator moves `x ↦ x + g` (`g ∈ G`, `ω x g`), and
the transvection `τ_g x = x + ω(x,g)·g`.
-/
import PauLieVerif.Spec.Clo

namespace PauLie
namespace Closure

/-- a walk of `k` generator moves from `v` to `x` -/
inductive Walk (G : List V) (v : V) : Nat → V → Prop
  | zero : Walk G v 0 v
  | succ {k : Nat} {x g : V} : Walk G v k x → g ∈ G → omega x g = true → Walk G v (k + 1) (add x g)

/-- shortest-path distance: there is a walk of length `k` from `v` to `x` and none shorter -/
def Dist (G : List V) (v x : V) (k : Nat) : Prop :=
  Walk G v k x ∧ ∀ j, j < k → ¬ Walk G v j x

/-- the move by `g` as a total map: `x + g` if `x` and `g` anticommute, else `x` -/
def tau (g x : V) : V := if omega x g then add x g else x

end Closure
end PauLie
