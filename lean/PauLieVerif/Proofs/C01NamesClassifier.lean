/-
The model classifier never reports an `so(2)` summand (since the repair of `Morph.counts`:
a star of single legs is `so(3)`; the only census that would give `so(2)` has no single leg,
for which the copy count `2**(nc-1)` is not an integer and the model raises).
-/
import PauLieVerif.Model.Classify

namespace PauLie
namespace C01Names
open Classify

theorem adjustCounts_spec (one two long : Nat) :
    (adjustCounts (one, two, long)).1 = one ∧
    ((adjustCounts (one, two, long)).2.1 = 0 → (adjustCounts (one, two, long)).2.2 = 0 → one = 0) := by
  simp only [adjustCounts, Id.run, pure]
  by_cases h1 : (long == 0 && two == 1) = true
  · simp [h1]
  · by_cases h2 : (decide (long > 0) && two == 0) = true
    · simp [h1, h2]
    · by_cases h3 : (long == 0 && two == 0 && decide (one ≥ 1)) = true
      · simp [h1, h2, h3]
      · simp only [h1, h2, h3]
        simp only [Bool.false_eq_true, if_false]
        refine ⟨trivial, fun a b => ?_⟩
        simp only [Bool.and_eq_true, beq_iff_eq, decide_eq_true_eq, not_and] at h1 h2 h3
        omega

/-- a morph's summand is never `so(2)` -/
theorem summandOfMorph_not_so2 {m : MorphR} {s : Summand} (h : summandOfMorph m = .ok s) :
    ¬ (s.ty = .SO ∧ s.size = 2) := by
  unfold summandOfMorph getAlgebraProperties getProperties at h
  simp only [bind, Except.bind, pure, Except.pure] at h
  by_cases he : m.legs.isEmpty = true
  · simp [he, throw, throwThe, MonadExceptOf.throw] at h
  · by_cases h1 : (m.legs.length == 1) = true
    · simp [he, h1, algebraOfProperties, multiplicity] at h
      rw [← h]; simp
    · simp only [he, h1, Bool.false_eq_true, if_false] at h
      unfold counts at h
      simp only [bind, Except.bind, pure, Except.pure] at h
      cases hr : rawCounts m.legs with
      | error e => rw [hr] at h; simp at h
      | ok c =>
        obtain ⟨one, two, long⟩ := c
        rw [hr] at h
        simp only at h
        obtain ⟨a1, a2⟩ := adjustCounts_spec one two long
        generalize adjustCounts (one, two, long) = r at h a1 a2
        obtain ⟨o, t, lg⟩ := r
        simp only at a1 a2
        unfold propertiesOfCounts at h
        simp only at h
        intro ⟨hty, hsz⟩
        by_cases c0 : (t == 0) = true
        · simp only [c0, if_true, algebraOfProperties] at h
          unfold multiplicity at h
          by_cases n0 : (o == 0) = true
          · simp [n0] at h
          · by_cases n1 : (o == 1) = true
            · simp only [n0, n1, Bool.false_eq_true, if_false, if_true] at h
              simp at h
              rw [← h] at hsz
              simp at hsz
              have := a2 (by simpa using c0) hsz
              simp at n1; omega
            · simp only [n0, n1, Bool.false_eq_true, if_false] at h
              simp at h
              rw [← h] at hsz
              simp at hsz
              have := a2 (by simpa using c0) hsz
              simp at n0; omega
        · simp only [c0, Bool.false_eq_true, if_false] at h
          by_cases c1 : (lg == 0) = true
          · simp only [c1, if_true, algebraOfProperties] at h
            cases hm : multiplicity o with
            | error e => rw [hm] at h; simp at h
            | ok k => rw [hm] at h; simp at h; rw [← h] at hty; simp at hty
          · simp only [c1, Bool.false_eq_true, if_false] at h
            by_cases c3 : (lg == 3) = true
            · simp only [c3, if_true, algebraOfProperties] at h
              cases hm : multiplicity o with
              | error e => rw [hm] at h; simp at h
              | ok k => rw [hm] at h; simp at h; rw [← h] at hty; simp at hty
            · simp only [c3, Bool.false_eq_true, if_false] at h
              by_cases c4 : (lg == 4) = true
              · simp only [c4, if_true, algebraOfProperties] at h
                cases hm : multiplicity o with
                | error e => rw [hm] at h; simp at h
                | ok k =>
                  rw [hm] at h; simp at h; rw [← h] at hsz; simp at hsz
                  have : 2 ^ (t + 3) ≥ 2 ^ 3 := Nat.pow_le_pow_right (by decide) (by omega)
                  omega
              · simp [c4] at h

theorem mapM_mem {α β : Type} {f : α → Except Err β} : ∀ {l : List α} {r : List β}, l.mapM f = .ok r →
    ∀ b ∈ r, ∃ a ∈ l, f a = .ok b
  | [], r, h, b, hb => by
    simp [pure, Except.pure] at h; subst h; simp at hb
  | a :: l, r, h, b, hb => by
    rw [List.mapM_cons] at h
    simp only [bind, Except.bind, pure, Except.pure] at h
    cases hfa : f a with
    | error e => rw [hfa] at h; simp at h
    | ok b0 =>
      rw [hfa] at h
      cases hl : l.mapM f with
      | error e => rw [hl] at h; simp at h
      | ok bs =>
        rw [hl] at h
        simp at h
        subst h
        rcases List.mem_cons.mp hb with rfl | hb'
        · exact ⟨a, by simp, hfa⟩
        · obtain ⟨a', ha', hf'⟩ := mapM_mem hl b hb'
          exact ⟨a', List.mem_cons_of_mem _ ha', hf'⟩

/-- merging keeps the set of names -/
theorem mem_mergeSummands {l : List Summand} {t : Summand} (h : t ∈ mergeSummands l) :
    ∃ s ∈ l, t.ty = s.ty ∧ t.size = s.size := by
  unfold mergeSummands at h
  rw [List.mem_mergeSort] at h
  revert h
  suffices H : ∀ (l' acc : List Summand), (∀ t ∈ acc, ∃ s ∈ l, t.ty = s.ty ∧ t.size = s.size) →
      (∀ s ∈ l', s ∈ l) → ∀ t ∈ l'.foldl (fun (acc : List Summand) s =>
        if acc.any (fun t => t.ty == s.ty && t.size == s.size) then
          acc.map (fun t => if t.ty == s.ty && t.size == s.size then { t with mult := t.mult + s.mult } else t)
        else acc ++ [s]) acc, ∃ s ∈ l, t.ty = s.ty ∧ t.size = s.size from
    fun h => H l [] (by simp) (fun _ h => h) t h
  intro l'
  induction l' with
  | nil => intro acc ha _ t ht; exact ha t ht
  | cons x l' ih =>
    intro acc ha hl t ht
    rw [List.foldl_cons] at ht
    refine ih _ ?_ (fun s hs => hl s (List.mem_cons_of_mem _ hs)) t ht
    intro u hu
    split at hu
    · obtain ⟨v, hv, rfl⟩ := List.mem_map.mp hu
      obtain ⟨s, hs, e1, e2⟩ := ha v hv
      refine ⟨s, hs, ?_⟩
      split <;> exact ⟨e1, e2⟩
    · rcases List.mem_append.mp hu with hu | hu
      · exact ha u hu
      · simp only [List.mem_singleton] at hu
        subst hu
        exact ⟨u, hl u (by simp), rfl, rfl⟩

/-- **the model classifier never reports `so(2)`** -/
theorem algebraOfMorphs_not_so2 {ms : List MorphR} {l : List Summand} (h : algebraOfMorphs ms = .ok l) :
    ∀ s ∈ l, ¬ (s.ty = .SO ∧ s.size = 2) := by
  unfold algebraOfMorphs summandsOf at h
  simp only [bind, Except.bind, pure, Except.pure] at h
  cases hm : ms.mapM summandOfMorph with
  | error e => rw [hm] at h; simp at h
  | ok ss =>
    rw [hm] at h
    simp at h
    subst h
    intro s hs
    obtain ⟨s0, hs0, e1, e2⟩ := mem_mergeSummands hs
    obtain ⟨m, _, hm0⟩ := mapM_mem hm s0 hs0
    rw [e1, e2]
    exact summandOfMorph_not_so2 hm0

end C01Names
end PauLie
